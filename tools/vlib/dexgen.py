"""Random class models and their DEX files (tools/writers/dexwriter.py), shared by C05 and C07.

model = {"classes": [cls]}; cls = {"name", "access", "super" (None = no superclass), "interfaces", "source", "fields": [fld],
"methods": [meth]}; fld = {"name", "type", "access", "static", "value"}; meth = {"name", "ret", "params", "access", "direct",
"code": None | {"regs", "ins", "outs", "units": [int], "tries": [(start, count, [(type, addr)], catch_all|None)]}}.
"""
PRIM = ["I", "J", "D", "Z", "B", "S", "C", "F"]
IDENT = ["a", "b", "foo", "bar", "<init>", "<clinit>", "x1", "Zz", "$v", "run", "get", "m", "value"]


def rtype(rng, classes, void=False):
    r = rng.random()
    if void and r < 0.3:
        return "V"
    if r < 0.45:
        t = rng.choice(PRIM)
    elif r < 0.8:
        t = rng.choice(classes + ["Ljava/lang/String;", "Ljava/lang/Object;", "Lext/T;"])
    else:
        t = rng.choice(PRIM + classes)
        return "[" * rng.randint(1, 3) + t
    return t


def gen_model(rng, max_classes=4):
    n = rng.choice((0, 1, 1, 2, 3, max_classes))
    names = ["Lp%d/C%d;" % (rng.randrange(3), i) for i in range(n)]
    classes = []
    for cn in names:
        fields, seen = [], set()
        for _ in range(rng.choice((0, 0, 1, 2, 4, 7))):
            fn, ft = rng.choice(IDENT[:4] + IDENT[6:]), rtype(rng, names)
            if (fn, ft) in seen:
                continue
            seen.add((fn, ft))
            static = rng.random() < 0.5
            value = None
            if static and rng.random() < 0.5:
                value = {"I": ("int", rng.randrange(-2**31, 2**31)), "J": ("long", rng.randrange(-2**63, 2**63)), "Z": ("boolean", True),
                         "S": ("short", -3), "B": ("byte", -128), "C": ("char", 0xFFFF),
                         "Ljava/lang/String;": ("string", "v%d" % rng.randrange(5))}.get(ft)
            fields.append({"name": fn, "type": ft, "access": rng.choice((0x1, 0x2, 0x19, 0x12, 0x0)) | (0x8 if static else 0),
                           "static": static, "value": value})
        methods, seen = [], set()
        for _ in range(rng.choice((0, 1, 2, 3, 6))):
            mn = rng.choice(IDENT)
            ret = rtype(rng, names, void=True)
            params = tuple(rtype(rng, names) for _ in range(rng.choice((0, 0, 1, 2, 3))))
            if (mn, ret, params) in seen:
                continue
            seen.add((mn, ret, params))
            direct = mn.startswith("<") or rng.random() < 0.4
            r = rng.random()
            if r < 0.2:
                access, code = (0x401 if not direct else 0x102), None           # abstract / native: no code
            else:
                access = rng.choice((0x1, 0x2, 0x4, 0x11)) | (0x8 if direct and not mn.startswith("<init") and rng.random() < 0.5 else 0)
                if mn == "<init>":
                    access |= 0x10000
                ins = sum(2 if p in ("J", "D") else 1 for p in params) + (0 if access & 0x8 else 1)
                units = []
                for _ in range(rng.choice((0, 1, 2, 5, 9))):
                    units += rng.choice(([0x0012 | rng.randrange(16) << 12], [0x0013, rng.randrange(65536)], [0x0014, rng.randrange(65536), rng.randrange(65536)],
                                         [0x0000], [0x0090, 0x0201], [0x0018, 1, 2, 3, 4]))
                units.append(0x000E)
                tries = []
                if len(units) > 3 and rng.random() < 0.35:
                    tries.append((0, rng.randint(1, len(units) - 1), [("Ljava/lang/Exception;", len(units) - 1)] if rng.random() < 0.7 else [],
                                  len(units) - 1 if rng.random() < 0.5 else None))
                    if not tries[0][2] and tries[0][3] is None:
                        tries = []
                code = {"regs": ins + rng.randrange(0, 4) + 4, "ins": ins, "outs": rng.randrange(0, 3), "units": units, "tries": tries}
            methods.append({"name": mn, "ret": ret, "params": params, "access": access, "direct": direct, "code": code})
        classes.append({"name": cn, "access": rng.choice((0x1, 0x11, 0x401, 0x601, 0x0)),
                        "super": rng.choice(["Ljava/lang/Object;", "Ljava/lang/Object;", "Lext/Base;"] + names + [None]),
                        "interfaces": rng.sample(["Ljava/lang/Runnable;", "Lext/I1;", "Lext/I2;"], rng.choice((0, 0, 1, 2))),
                        "source": rng.choice((None, "C.java", "a b.kt")), "fields": fields, "methods": methods})
    m = {"classes": classes}
    if rng.random() < 0.3:                 # the string data written in another order than the string ids
        m["string_data_order"] = rng.choice(("reverse", rng.randrange(1, 10**6)))
    return m


def build(model, **kw):
    from tools.writers.dexwriter import DexBuilder, Code, Try
    order = model.get("string_data_order")
    if isinstance(order, int):
        import random
        seed = order
        order = lambda n: random.Random(seed).sample(range(n), n)
    if order is not None and "string_data_order" not in kw:
        kw = dict(kw, string_data_order=order)
    b = DexBuilder(**kw)
    for c in model["classes"]:
        k = b.add_class(c["name"], access=c["access"], superclass=c["super"], interfaces=c["interfaces"], source_file=c["source"])
        for f in c["fields"]:
            k.add_field(f["name"], f["type"], access=f["access"], static=f["static"], value=f["value"])
        for m in c["methods"]:
            code = None
            if m["code"] is not None:
                cd = m["code"]
                code = Code(cd["regs"], cd["ins"], cd["outs"], cd["units"],
                            tries=[Try(s, n, hs, ca) for (s, n, hs, ca) in cd["tries"]])
            k.add_method(m["name"], m["ret"], m["params"], access=m["access"], direct=m["direct"], code=code)
    return b.build(), b
