"""C22: one fresh interpreter decompiling a list of methods of a DEX file without any interference from the harness.
argv: dex path, json file with method keys, output json, variant ("plain" | "reverse" | "ast-first"), junk seed."""
import json
import random
import sys


def main():
    dexp, keysf, outf, variant, seed = sys.argv[1:6]
    rnd = random.Random(int(seed))
    junk = [object() for _ in range(rnd.randrange(1000, 60000))]        # shift the allocation layout
    del junk[:: rnd.randrange(2, 5)]
    try:
        from loguru import logger
        logger.remove()
    except Exception:
        pass
    from androguard.core.dex import DEX
    from androguard.core.analysis.analysis import Analysis
    from androguard.decompiler.decompile import DvMethod
    keys = json.load(open(keysf))
    d = DEX(open(dexp, "rb").read())
    dx = Analysis(d)
    table = {}
    for m in d.get_encoded_methods():
        table[m.get_class_name() + "->" + m.get_name() + m.get_descriptor()] = m
    order = list(keys)
    if variant != "plain":
        order.reverse()
    out = {}
    if variant == "ast-first":
        for k in order:                                              # history: the syntax trees of everything first
            try:
                dv = DvMethod(dx.get_method(table[k]))
                dv.process(doAST=True)
                dv.get_ast()
            except Exception:
                pass
    for k in order:
        keep = [dict() for _ in range(rnd.randrange(0, 40))]
        try:
            dv = DvMethod(dx.get_method(table[k]))
            dv.process()
            out[k] = dv.get_source()
        except Exception as e:
            out[k] = "EXC " + type(e).__name__
        del keep
    json.dump(out, open(outf, "w"))


if __name__ == "__main__":
    main()
