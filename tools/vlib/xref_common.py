"""Shared by C13 C14 C15 C16: generated multi-class, multi-DEX programs, their DEX files (tools/writers/dexwriter.py),
the observation of the real Analysis, and the rendering of a program as input of coq/Analysis/XrefModel.v.

A program is {"dex": [[class, ...], ...]}; class = {"name": "Lp/A;", "fields": [(name, type)], "methods": [method]};
method = {"name", "ret", "params", "code": [ins]};  ins = ("invoke", op, cls_type, name, ret, params) | ("str", s, jumbo) |
("new", type) | ("cclass", type) | ("field", op, cls, name, type) | ("pad", units).
"""
import itertools

from tools.vlib.coqfmt import Err, z, coq_list

COQ_HEADER = "Require Import V.Analysis.XrefModel."
INT = ["Lp/A;", "Lp/B;", "Lq/C;", "Lq/D;", "Lp/E;"]
EXT = ["Lext/X;", "Ljava/lang/Object;", "Lext/Y;"]
PROTOS = [("V", ()), ("I", ("I",)), ("Ljava/lang/String;", ("I", "J")), ("V", ("Lp/A;",))]
MNAMES = ["m0", "m1", "m2", "run", "clone", "<init>"]
FNAMES = ["f0", "f1", "g"]
FTYPES = ["I", "Ljava/lang/String;", "J", "S"]
STRS = ["s0", "s1", "hello", ""]
INVOKES = [0x6E, 0x6F, 0x70, 0x71, 0x72, 0x74, 0x75, 0x76, 0x77, 0x78]
IGETS = list(range(0x52, 0x60))
SGETS = list(range(0x60, 0x6E))


def desc_str(ret, params):
    return "(%s)%s" % (" ".join(params), ret)


def gen_program(rng, ndex=None, shared_strings=True):
    ncls = rng.randint(2, 5)
    names = INT[:ncls]
    classes = []
    for cn in names:
        fields = []
        for fn in rng.sample(FNAMES, rng.randint(0, 3)):
            fields.append((fn, rng.choice(FTYPES)))
        if rng.random() < 0.2 and fields:
            fields.append((fields[0][0], "D"))             # same name, another type
        methods = []
        used = set()
        for _ in range(rng.randint(1, 3)):
            mn, (ret, params) = rng.choice(MNAMES), rng.choice(PROTOS)
            if (mn, ret, params) in used:
                continue
            used.add((mn, ret, params))
            methods.append({"name": mn, "ret": ret, "params": params, "code": []})
        # an interface or annotation type can hold code too (static and default methods, <clinit>)
        classes.append({"name": cn, "fields": fields, "methods": methods, "access": rng.choice((0x1, 0x1, 0x1, 0x11, 0x601, 0x2601, 0x401))})
    allfields = [(c["name"], f[0], f[1]) for c in classes for f in c["fields"]]
    allmeths = [(c["name"], m["name"], m["ret"], m["params"]) for c in classes for m in c["methods"]]
    for c in classes:
        for m in c["methods"]:
            code = []
            for _ in range(rng.randint(0, 9)):
                r = rng.random()
                if r < 0.34:
                    q = rng.random()
                    if q < 0.45 and allmeths:
                        cl, mn, ret, params = rng.choice(allmeths)
                    elif q < 0.6 and allmeths:                     # an analysed class, a method it does not define
                        cl, mn, (ret, params) = rng.choice(names), rng.choice(MNAMES), rng.choice(PROTOS)
                    elif q < 0.8:
                        cl, mn, (ret, params) = rng.choice(EXT), rng.choice(MNAMES), rng.choice(PROTOS)
                    elif q < 0.9:                                   # array receivers
                        cl, mn, ret, params = rng.choice(("[", "[[")) + rng.choice(names + EXT), "clone", "Ljava/lang/Object;", ()
                    else:
                        cl, mn, ret, params = rng.choice(("[I", "[[J")), "clone", "Ljava/lang/Object;", ()
                    code.append(("invoke", rng.choice(INVOKES), cl, mn, ret, params))
                elif r < 0.5:
                    code.append(("str", rng.choice(STRS), rng.random() < 0.3))
                elif r < 0.64:
                    t = rng.choice(names + EXT + ["[" + rng.choice(names), "[[" + rng.choice(EXT), "[I", c["name"], "[" + c["name"]])
                    code.append((rng.choice(("new", "cclass")), t))
                elif r < 0.86:
                    q = rng.random()
                    if q < 0.7 and allfields:
                        cl, fn, ft = rng.choice(allfields)
                    elif q < 0.85:
                        cl, fn, ft = rng.choice(EXT), rng.choice(FNAMES), rng.choice(FTYPES)
                    else:
                        cl, fn, ft = rng.choice(names), "nofield", "I"
                    code.append(("field", rng.choice(IGETS + SGETS), cl, fn, ft))
                elif r < 0.95:
                    code.append(("pad", rng.choice((1, 1, 2, 3))))
                else:
                    code.append(("table", rng.choice((0, 1, 4, 7))))       # array data in the middle of the code, jumped over
            if code and rng.random() < 0.3:
                code.append(code[rng.randrange(len(code))])      # the same reference again at another offset
            m["code"] = code
            if rng.random() < 0.08:                              # an abstract method: no code item
                m["code"], m["abstract"] = [], True
    k = ndex or rng.choice((1, 1, 2, 2, 3))
    k = min(k, len(classes))
    parts = [[] for _ in range(k)]
    order = list(range(len(classes)))
    rng.shuffle(order)
    for j, ci in enumerate(order):
        parts[j % k if j < k else rng.randrange(k)].append(classes[ci])
    prog = {"dex": [p for p in parts if p]}
    if len(prog["dex"]) > 1 and rng.random() < 0.4:
        prog["ask_early"] = True
    if rng.random() < 0.3:                    # the string data of the files written in another order than the string ids
        prog["sdo"] = rng.choice(("reverse", rng.randrange(1, 10**6)))
    return prog


# ---------------------------------------------------------------------------------------------------------- building
def ins_units(i):
    from tools.writers.dexwriter import Str, Str32, Meth, Type, Field
    k = i[0]
    if k == "invoke":
        _, op, cl, mn, ret, params = i
        return [op, Meth(cl, mn, ret, params), 0x0000]
    if k == "str":
        return [0x001B, Str32(i[1])] if i[2] else [0x001A, Str(i[1])]
    if k == "new":
        return [0x0022, Type(i[1])]
    if k == "cclass":
        return [0x001C, Type(i[1])]
    if k == "field":
        return [i[1], Field(i[2], i[3], i[4])]
    if k == "pad":
        return {1: [0x0012], 2: [0x0013, 1], 3: [0x0014, 2, 0]}[i[1]]
    if k == "table":                       # goto over a fill-array-data payload of i[1] bytes
        plen = 4 + (i[1] + 1) // 2
        return [0x0028 | ((1 + plen) << 8), 0x0300, 1, i[1] & 0xFFFF, i[1] >> 16] + [0] * ((i[1] + 1) // 2)
    raise ValueError(k)


def ins_size(i):
    if i[0] == "table":
        return 1 + 4 + (i[1] + 1) // 2
    return {"invoke": 3, "new": 2, "cclass": 2, "field": 2}.get(i[0], None) or (3 if i[0] == "str" and i[2] else 2 if i[0] == "str" else i[1])


def build_dexes(prog):
    from tools.writers.dexwriter import DexBuilder, Code
    out = []
    for part in prog["dex"]:
        n = prog.get("bulk", 0)             # that many types, field ids and method ids nothing refers to, sorting before all others
        pad = ["LA%05d;" % j for j in range(n)]
        order = prog.get("sdo")
        if isinstance(order, int):
            import random
            order = (lambda seed: (lambda m: random.Random(seed).sample(range(m), m)))(order)
        b = DexBuilder(extra_types=pad, extra_fields=[("LA00000;", t, "I") for t in pad], extra_methods=[("LA00000;", t, "V", ()) for t in pad],
                       string_data_order=order)
        for c in part:
            k = b.add_class(c["name"], access=c.get("access", 1))
            for fn, ft in c["fields"]:
                k.add_field(fn, ft, access=1, static=False)
            for m in c["methods"]:
                units = []
                for i in m["code"]:
                    units += ins_units(i)
                units.append(0x000E)
                if m.get("abstract"):                      # no code item at all
                    assert not m["code"]
                    k.add_method(m["name"], m["ret"], m["params"], access=0x401, direct=False, code=None)
                    continue
                k.add_method(m["name"], m["ret"], m["params"], access=1, direct=False, code=Code(4, 1 + len(m["params"]), 4, units))
        out.append(b.build())
    return out


def with_offsets(m):
    at, res = 0, []
    for i in m["code"]:
        res.append((at, i))
        at += 2 * ins_size(i)
    return res


# ---------------------------------------------------------------------------------------------------------- identifiers
class Ids:
    """integers for class descriptors, names, descriptors, types and strings - the same on both sides"""

    def __init__(self, prog):
        self.d = {}
        for cn in INT + EXT:
            self.cls(cn)

    def get(self, kind, s):
        return self.d.setdefault((kind, s), len(self.d) + 1)

    def cls(self, s):
        return self.get("c", s)

    def typ(self, t):
        """(dims, base): base = class id, or -1 for primitives"""
        dims = len(t) - len(t.lstrip("["))
        b = t.lstrip("[")
        return dims, (self.cls(b) if b.startswith("L") else -1)


def make_ids(prog):
    return coq_program_ids(prog, Ids(prog))


def coq_program(prog):
    ids = make_ids(prog)

    def ins(i):
        k = i[0]
        if k == "invoke":
            dims, base = ids.typ(i[2])
            return "(XInvoke %d %s %s %d %d)" % (i[1], z(dims), z(base), ids.get("n", i[3]), ids.get("d", desc_str(i[4], i[5])))
        if k == "str":
            return "(XConstString %d)" % ids.get("s", i[1])
        if k in ("new", "cclass"):
            dims, base = ids.typ(i[1])
            return "(%s %s %s)" % ("XNew" if k == "new" else "XConstClass", z(dims), z(base))
        if k == "field":
            return "(XField %d %d %d %d)" % (i[1], ids.cls(i[2]), ids.get("f", i[3]), ids.get("t", i[4]))
        return "XOther"
    dexes = []
    for part in prog["dex"]:
        cls = []
        for c in part:
            ms = coq_list(["{| m_name := %d; m_desc := %d; m_code := %s |}" % (
                ids.get("n", m["name"]), ids.get("d", desc_str(m["ret"], m["params"])),
                coq_list(["(%d, %s)" % (off, ins(i)) for off, i in with_offsets(m)])) for m in c["methods"]])
            fs = coq_list(["(%d, %d)" % (ids.get("f", fn), ids.get("t", ft)) for fn, ft in c["fields"]])
            cls.append("{| c_name := %d; c_methods := %s; c_fields := %s |}" % (ids.cls(c["name"]), ms, fs))
        dexes.append(coq_list(cls))
    return coq_list(dexes)


# ---------------------------------------------------------------------------------------------------------- observation
def observe(prog, order=None):
    """rows in the vocabulary of the model, read from the real Analysis through its public getters"""
    from androguard.core.dex import DEX
    from androguard.core.analysis.analysis import Analysis
    ids = make_ids(prog)
    raws = build_dexes(prog)
    if order is not None:
        raws = [raws[i] for i in order]
    dx = Analysis()
    for j, r in enumerate(raws):
        dx.add(DEX(r))
        if prog.get("ask_early") and j == 0:            # a look at the analysis while files are still being added
            dx.get_call_graph()
            sum(1 for _ in dx.get_methods())
            sum(1 for _ in dx.get_strings())
            sum(1 for _ in dx.get_fields())
    dx.create_xref()

    def mk(meth):             # MethodAnalysis -> (class id, name id, desc id)
        m = meth.get_method()
        return [ids.cls(m.get_class_name()), ids.get("n", m.get_name()), ids.get("d", str(m.get_descriptor()))]
    calls, calls_from, srefs, crefs_m, crefs_c, frefs, frefs_m, ext = set(), set(), set(), set(), set(), set(), set(), set()
    stubs, fobjs = {}, set()
    cl_to, cl_from = set(), set()
    for ca in dx.get_classes():
        cname = ca.name if hasattr(ca, "name") else ca.get_vm_class().get_name()
        cid = ids.cls(cname)
        if ca.is_external():
            ext.add((cid,))
        for ma in ca.get_methods():
            me = mk(ma)
            for oc, om, off in ma.get_xref_to():
                calls.add(tuple(me + mk(om) + [off, 1 if om.is_external() else 0]))
                stubs.setdefault(tuple(mk(om)), set()).add(id(om))
            for oc, om, off in ma.get_xref_from():
                calls_from.add(tuple(mk(om) + me + [off, 1 if ma.is_external() else 0]))
            for oc, off in ma.get_xref_new_instance():
                crefs_m.add((0x22, ids.cls(oc.name), me[0], me[1], me[2], off))
            for oc, off in ma.get_xref_const_class():
                crefs_m.add((0x1C, ids.cls(oc.name), me[0], me[1], me[2], off))
            for oc, fld, off in ma.get_xref_read():
                frefs_m.add((0, ids.cls(oc.name), ids.cls(fld.get_class_name()), ids.get("f", fld.get_name()), ids.get("t", fld.get_descriptor()), me[1], me[2], off))
            for oc, fld, off in ma.get_xref_write():
                frefs_m.add((1, ids.cls(oc.name), ids.cls(fld.get_class_name()), ids.get("f", fld.get_name()), ids.get("t", fld.get_descriptor()), me[1], me[2], off))
        for om, off in ca.get_xref_new_instance():
            k = mk(om)
            crefs_c.add((0x22, cid, k[0], k[1], k[2], off))
        for om, off in ca.get_xref_const_class():
            k = mk(om)
            crefs_c.add((0x1C, cid, k[0], k[1], k[2], off))
        for fa in ca.get_fields():
            fld = fa.get_field()
            fk = [ids.cls(fld.get_class_name()), ids.get("f", fld.get_name()), ids.get("t", fld.get_descriptor())]
            fobjs.add(tuple([cid] + fk))
            for oc, om, off in fa.get_xref_read(with_offset=True):
                k = mk(om)
                frefs.add(tuple([0, cid] + fk + [k[1], k[2], off, ids.cls(oc.name), k[0]]))
            for oc, om, off in fa.get_xref_write(with_offset=True):
                k = mk(om)
                frefs.add(tuple([1, cid] + fk + [k[1], k[2], off, ids.cls(oc.name), k[0]]))
    for sa in dx.get_strings():
        for oc, om, off in sa.get_xref_from(with_offset=True):
            k = mk(om)
            srefs.add((ids.get("s", sa.get_orig_value()), k[0], k[1], k[2], off))
    crefs_m_all = set()                    # the method-side lists again, over Analysis.get_methods() (every definition of a class)
    for ma in dx.get_methods():
        if ma.is_external():
            continue
        me = mk(ma)
        for oc, off in ma.get_xref_new_instance():
            crefs_m_all.add((0x22, ids.cls(oc.name), me[0], me[1], me[2], off))
        for oc, off in ma.get_xref_const_class():
            crefs_m_all.add((0x1C, ids.cls(oc.name), me[0], me[1], me[2], off))
    # number of FieldAnalysis objects per defined field, and the call graph
    nfa = {}
    for fa in dx.get_fields():
        fld = fa.get_field()
        key = (fld.get_class_name(), fld.get_name(), fld.get_descriptor())
        nfa[key] = nfa.get(key, 0) + 1
    cg = dx.get_call_graph()
    edges = set()
    for a, b in cg.edges():
        edges.add((ids.cls(a.get_class_name()), ids.get("n", a.get_name()), ids.get("d", str(a.get_descriptor())),
                   ids.cls(b.get_class_name()), ids.get("n", b.get_name()), ids.get("d", str(b.get_descriptor()))))
    inventory = [sorted(ids.cls(c.name) for c in dx.get_classes()),
                 sorted(tuple(mk(m) + [1 if m.is_external() else 0]) for m in dx.get_methods()),
                 sorted(ids.get("s", s.get_orig_value()) for s in dx.get_strings() if s.get_orig_value() in STRS)]
    return {"calls": sorted(calls), "calls_from": sorted(calls_from), "strings": sorted(srefs), "crefs_m": sorted(crefs_m),
            "crefs_c": sorted(crefs_c), "crefs_m_all": sorted(crefs_m_all), "frefs": sorted(frefs), "frefs_m": sorted(frefs_m), "ext": sorted(ext),
            "nfa": sorted((list(k), v) for k, v in nfa.items()), "edges": sorted(edges), "inventory": inventory,
            "stub_dups": sorted(k for k, v in stubs.items() if len(v) > 1), "fobjs": sorted(fobjs)}


def coq_program_ids(prog, ids):
    """assign the identifiers in an order that does not depend on how the classes are split into DEX files"""
    for part in [sorted((c for part in prog["dex"] for c in part), key=lambda c: c["name"])]:
        for c in part:
            for m in c["methods"]:
                ids.get("n", m["name"])
                ids.get("d", desc_str(m["ret"], m["params"]))
                for off, i in with_offsets(m):
                    k = i[0]
                    if k == "invoke":
                        ids.typ(i[2]); ids.get("n", i[3]); ids.get("d", desc_str(i[4], i[5]))
                    elif k == "str":
                        ids.get("s", i[1])
                    elif k in ("new", "cclass"):
                        ids.typ(i[1])
                    elif k == "field":
                        ids.cls(i[2]); ids.get("f", i[3]); ids.get("t", i[4])
            for fn, ft in c["fields"]:
                ids.get("f", fn); ids.get("t", ft)
            ids.cls(c["name"])
    return ids


# ---------------------------------------------------------------------------------------------------------- streams
def gen(rng, tier, ctx):
    cases = []
    # the shapes the known findings and the seeded changes need
    A, B = "Lp/A;", "Lp/B;"
    base = lambda code_a, code_b, fa=(("f0", "I"),), fb=(("f0", "I"), ("g", "S")): {"dex": [[
        {"name": A, "fields": list(fa), "methods": [{"name": "m0", "ret": "V", "params": (), "code": code_a}]}], [
        {"name": B, "fields": list(fb), "methods": [{"name": "m1", "ret": "V", "params": (), "code": code_b}]}]]}
    cases.append(base([("field", 0x52, A, "f0", "I"), ("field", 0x59, A, "f0", "I")], [("field", 0x58, B, "g", "S"), ("field", 0x66, B, "g", "S")]))
    cases.append(base([("str", "hello", False), ("invoke", 0x71, B, "m1", "V", ())], [("str", "hello", True), ("invoke", 0x6E, A, "m0", "V", ())]))
    cases.append(base([("new", A), ("cclass", B)], [("new", A), ("cclass", "[" + A), ("new", B)]))
    n = 220 if tier == "thorough" else 40
    for _ in range(n):
        cases.append(gen_program(rng))
    # a full primary DEX: the ids of everything the code refers to lie above 0x7fff (and, for one program, astride it)
    for k in range(4 if tier == "thorough" else 2):
        p = gen_program(rng, ndex=1)
        p["bulk"] = 0x8000 + 40 if k % 2 == 0 else 0x8000 - 3 - rng.randrange(4)
        cases.append(p)
    return cases


def impl(case):
    return observe(case)


def canon(res):
    return [[list(r) for r in res["calls"]], [list(r) for r in res["strings"]], [list(r) for r in res["crefs_m"]],
            [list(r[:8]) for r in res["frefs"]], [list(r) for r in res["ext"]], [list(r) for r in res["inventory"][1]],
            [list(r) for r in res["fobjs"]], [list(r) for r in res["edges"]]]


def stats(cases, results):
    d = {"programs": len(cases), "programs_with_ids_above_0x7fff": sum(1 for p in cases if p.get("bulk")), "dex_files": 0, "classes": 0, "methods": 0, "invokes": 0, "array_receivers": 0, "strings": 0,
         "class_refs": 0, "field_accesses": 0, "cross_class_field_accesses": 0, "cross_dex_field_accesses": 0}
    for p in cases:
        d["dex_files"] += len(p["dex"])
        where = {c["name"]: k for k, part in enumerate(p["dex"]) for c in part}
        for k, part in enumerate(p["dex"]):
            for c in part:
                d["classes"] += 1
                for m in c["methods"]:
                    d["methods"] += 1
                    for i in m["code"]:
                        d["invokes"] += i[0] == "invoke"
                        d["array_receivers"] += i[0] == "invoke" and i[2].startswith("[")
                        d["strings"] += i[0] == "str"
                        d["class_refs"] += i[0] in ("new", "cclass")
                        if i[0] == "field":
                            d["field_accesses"] += 1
                            d["cross_class_field_accesses"] += i[2] != c["name"]
                            d["cross_dex_field_accesses"] += i[2] in where and where[i[2]] != k
    return d


def STREAM(oracle, classify=None):
    s = {"name": "programs", "gen": gen, "impl": impl, "canon": canon, "coq_header": COQ_HEADER, "coq_type": "program",
         "coq_input": coq_program, "coq_obs": "obs_xref", "model_vo": "Analysis/XrefModel.vo", "pinned": False, "oracle": oracle,
         "stats": stats, "shard": 10, "case_timeout": 120}
    if classify:
        s["classify"] = classify
    return s


# ---------------------------------------------------------------------------------------------------------- expectations
def sites_of(prog):
    for k, part in enumerate(prog["dex"]):
        for c in part:
            for m in c["methods"]:
                for off, i in with_offsets(m):
                    yield k, c, m, off, i


def defined_methods(prog):
    return {(c["name"], m["name"], desc_str(m["ret"], m["params"])) for part in prog["dex"] for c in part for m in c["methods"]}


def defined_fields(prog):
    return {(c["name"], fn, ft): k for k, part in enumerate(prog["dex"]) for c in part for fn, ft in c["fields"]}


# ---- C13 ----
def oracle_c13(case, res):
    if isinstance(res, Err):
        return "analysis failed: %s %s" % (res.name, res.msg[:150])
    ids = make_ids(case)
    dm = defined_methods(case)
    want, array_sites, as_known = set(), set(), set()
    for k, c, m, off, i in sites_of(case):
        if i[0] != "invoke":
            continue
        me = (ids.cls(c["name"]), ids.get("n", m["name"]), ids.get("d", desc_str(m["ret"], m["params"])))
        cl, mn, ds = i[2], i[3], desc_str(i[4], i[5])
        if cl.startswith("["):
            array_sites.add(me + (off,))
            want.add(me + (("array", cl), ids.get("n", mn), ids.get("d", ds), off, 1))
            el = cl.lstrip("[")
            if el.startswith("L"):      # the recorded finding: attributed to the element class; primitive arrays dropped
                as_known.add(me + (ids.cls(el), ids.get("n", mn), ids.get("d", ds), off, 0 if (el, mn, ds) in dm else 1))
        else:
            want.add(me + (ids.cls(cl), ids.get("n", mn), ids.get("d", ds), off, 0 if (cl, mn, ds) in dm else 1))
    got = set(map(tuple, res["calls"]))
    if got != set(map(tuple, res["calls_from"])):
        return "callee lists and caller lists differ: only in xref_to %r, only in xref_from %r" % (
            sorted(got - set(map(tuple, res["calls_from"])))[:2], sorted(set(map(tuple, res["calls_from"])) - got)[:2])
    if res["stub_dups"]:
        return "callee %r is represented by more than one MethodAnalysis object" % (res["stub_dups"][0],)
    edges = {r[:6] for r in got}
    if edges != set(map(tuple, res["edges"])):
        return "call graph edges differ from the reported callees: %r" % sorted(edges ^ set(map(tuple, res["edges"])))[:2]
    diff = (got ^ want)
    if diff:
        plain = [r for r in diff if (r[0], r[1], r[2], r[6]) not in array_sites]
        if plain:
            r = sorted(plain, key=repr)[0]
            return "invoke at offset %d of method %r: reported callees %r, the instruction targets %r" % (
                r[6], r[:3], sorted(x for x in got if x[:3] == r[:3] and x[6] == r[6]), sorted((x for x in want if x[:3] == r[:3] and x[6] == r[6]), key=repr))
        plain_want = {r for r in want if (r[0], r[1], r[2], r[6]) not in array_sites}
        if got != plain_want | as_known:
            r = sorted(got ^ (plain_want | as_known), key=repr)[0]
            return "invoke on an array type at offset %d of method %r: reported callees %r; the instruction targets %r" % (
                r[6], r[:3], sorted(x for x in got if x[:3] == r[:3] and x[6] == r[6]), sorted((x for x in want if x[:3] == r[:3] and x[6] == r[6]), key=repr))
        return "ARRAY-RECEIVER: an invoke whose receiver is an array type is attributed to the element class or dropped (%d sites)" % len(array_sites)
    return None


def classify_c13(case, res, why):
    return "KF-C13-array-receiver" if "ARRAY-RECEIVER" in why else None


# ---- C15 ----
def oracle_c15(case, res):
    if isinstance(res, Err):
        return "analysis failed: %s %s" % (res.name, res.msg[:150])
    ids = make_ids(case)
    ws, wc = set(), set()
    for k, c, m, off, i in sites_of(case):
        me = (ids.cls(c["name"]), ids.get("n", m["name"]), ids.get("d", desc_str(m["ret"], m["params"])))
        if i[0] == "str":
            ws.add((ids.get("s", i[1]),) + me + (off,))
        elif i[0] in ("new", "cclass"):
            b = i[1].lstrip("[")
            if b.startswith("L") and b != c["name"]:
                wc.add((0x22 if i[0] == "new" else 0x1C, ids.cls(b)) + me + (off,))
    gs = set(map(tuple, res["strings"]))
    if gs != ws:
        r = sorted(gs ^ ws)[0]
        return "const-string cross-references differ: (string, class, method, descriptor, offset) %r is %s" % (
            r, "reported but not in the code" if r in gs else "in the code but not reported")
    gm, gc = set(map(tuple, res["crefs_m"])), set(map(tuple, res["crefs_c"]))
    if gm != gc:
        return "class-side and method-side lists of new-instance/const-class differ: %r" % sorted(gm ^ gc)[:2]
    if gm != wc:
        r = sorted(gm ^ wc)[0]
        return "new-instance/const-class cross-references differ: (kind, class, user class, method, descriptor, offset) %r is %s" % (
            r, "reported but not in the code" if r in gm else "in the code but not reported")
    return None


def gen_shadow(rng, tier, ctx):
    """two DEX files that define the same class names with different code (a class shadowed by an earlier DEX file)"""
    cases = []
    for _ in range(40 if tier == "thorough" else 8):
        a, b = gen_program(rng, ndex=1), gen_program(rng, ndex=1)
        cases.append({"dex": [a["dex"][0], b["dex"][0]], "order": rng.choice(([0, 1], [1, 0]))})
    return cases


def impl_shadow(case):
    return observe(case, order=case["order"])


def oracle_shadow(case, res):
    if isinstance(res, Err):
        return "analysis failed: %s %s" % (res.name, res.msg[:150])
    res = dict(res)
    res["crefs_m"] = res["crefs_m_all"]
    return oracle_c15(case, res)


def STREAM15_SHADOW():
    return {"name": "shadowed-definitions", "gen": gen_shadow, "impl": impl_shadow, "canon": lambda r: [r["strings"], r["crefs_c"], r["crefs_m_all"]],
            "pinned": False, "oracle": oracle_shadow, "stats": lambda cases, results: {"programs": len(cases)}, "case_timeout": 120}


# ---- C14 ----
def oracle_c14(case, res):
    if isinstance(res, Err):
        return "analysis failed: %s %s" % (res.name, res.msg[:150])
    ids = make_ids(case)
    df = defined_fields(case)
    want, cross = set(), False
    for k, c, m, off, i in sites_of(case):
        if i[0] != "field" or (i[2], i[3], i[4]) not in df:
            continue
        rw = 0 if (0x52 <= i[1] <= 0x58 or 0x60 <= i[1] <= 0x66) else 1
        owner = ids.cls(i[2])
        want.add((rw, owner, owner, ids.get("f", i[3]), ids.get("t", i[4]), ids.get("n", m["name"]),
                  ids.get("d", desc_str(m["ret"], m["params"])), off, ids.cls(c["name"])))
        cross = cross or i[2] != c["name"]
    got = {tuple(r[:8]) + (r[9],) for r in res["frefs"]}
    gotm = {tuple(r) for r in res["frefs_m"]}
    same_class = lambda r: r[1] == r[8] if len(r) > 8 else True
    problems = []
    for r in sorted(want - got):
        problems.append((r, "access by class %d at offset %d to field %r is missing from the field's FieldAnalysis (of class %d)" % (r[8], r[7], r[2:5], r[1])))
    for r in sorted(got - want):
        problems.append((r, "the FieldAnalysis held by class %d lists an access %r that is not an access to a field of that class" % (r[1], r)))
    multi = [(k, n) for k, n in res["nfa"] if n != 1]
    wm = {(r[0], r[8]) + r[2:8] for r in want}
    if {(r[0], r[1]) + tuple(r[2:8]) for r in gotm} != wm:
        d = sorted({(r[0], r[1]) + tuple(r[2:8]) for r in gotm} ^ wm)[0]
        fcls = d[2]
        where = {ids.cls(c["name"]): k for k, part in enumerate(case["dex"]) for c in part}
        if where.get(fcls) == where.get(d[1]):
            return "the accessing method's own read/write list differs from the code: %r" % (d,)
        problems.append((None, "cross-DEX access missing from the method's list"))
    if not problems and not multi:
        return None
    plain = [w for r, w in problems if r is not None and r[1] == r[8] and r[2] == r[8]]
    if plain:
        return plain[0]
    if multi and not cross:
        return "field %r has %d FieldAnalysis objects" % tuple(multi[0])
    return "CROSS-CLASS: accesses from a class other than the field's class are filed under the accessing class or dropped (e.g. %s)" % (
        problems[0][1] if problems else "field %r has %d FieldAnalysis objects" % tuple(multi[0]))


def gen_shadow14(rng, tier, ctx):
    """two DEX files defining the same class names with different code; only accesses of a class to its own fields are kept
    (accesses from other classes are the known finding); with ask_first the write lists are asked before the cross-references exist"""
    cases = []
    for _ in range(30 if tier == "thorough" else 6):
        progs = [gen_program(rng, ndex=1), gen_program(rng, ndex=1)]
        for p in progs:
            for c in p["dex"][0]:
                own = {(fn, ft) for fn, ft in c["fields"]}
                for m in c["methods"]:
                    m["code"] = [i for i in m["code"] if i[0] != "field" or (i[2] == c["name"] and (i[3], i[4]) in own)]
        cases.append({"dex": [progs[0]["dex"][0], progs[1]["dex"][0]], "order": rng.choice(([0, 1], [1, 0])), "ask_first": rng.random() < 0.5})
    return cases


def impl_shadow14(case):
    from androguard.core.dex import DEX
    from androguard.core.analysis.analysis import Analysis
    raws = build_dexes(case)
    vms = [DEX(r) for r in raws]
    dx = Analysis()
    for i in case["order"]:
        dx.add(vms[i])
    early = 0
    if case.get("ask_first"):
        for d in vms:
            for cls in d.get_classes():
                for f in cls.get_fields():
                    fa = dx.get_field_analysis(f)
                    if fa is not None:
                        early += len(list(fa.get_xref_write())) + len(list(fa.get_xref_read()))
    dx.create_xref()
    mkey = {}
    for di, d in enumerate(vms):
        for m in d.get_encoded_methods():
            mkey[m] = (di, m.get_class_name(), m.get_name(), str(m.get_descriptor()))
    counts = {}
    for fa in dx.get_fields():
        counts[fa.get_field()] = counts.get(fa.get_field(), 0) + 1
    rows = []
    for di, d in enumerate(vms):
        for cls in d.get_classes():
            for f in cls.get_fields():
                fa = dx.get_field_analysis(f)
                key = [di, f.get_class_name(), f.get_name(), f.get_descriptor()]
                if fa is None:
                    rows.append(key + ["no FieldAnalysis"])
                    continue
                got = {}
                for kind, getter in (("r", fa.get_xref_read), ("w", fa.get_xref_write)):
                    got[kind] = sorted([list(mkey.get(m.get_method(), (-1, "?", "?", "?"))) + [off] for c, m, off in getter(with_offset=True)])
                    got[kind + "_pairs"] = sorted({tuple(mkey.get(m.get_method(), (-1, "?", "?", "?"))) for c, m in getter()})
                rows.append(key + [fa.get_field() is f, counts.get(f, 0), got])
    return {"rows": rows, "early": early}


def oracle_shadow14(case, res):
    if isinstance(res, Err):
        return "analysis failed: %s %s" % (res.name, res.msg[:150])
    want = {}
    for di, part in enumerate(case["dex"]):
        for c in part:
            for fn, ft in c["fields"]:
                want[(di, c["name"], fn, ft)] = {"r": [], "w": []}
            for m in c["methods"]:
                for off, i in with_offsets(m):
                    if i[0] == "field" and (di, i[2], i[3], i[4]) in want:
                        rw = "r" if (0x52 <= i[1] <= 0x58 or 0x60 <= i[1] <= 0x66) else "w"
                        want[(di, i[2], i[3], i[4])][rw].append([di, c["name"], m["name"], desc_str(m["ret"], m["params"]), off])
    seen = set()
    for row in res["rows"]:
        key = tuple(row[:4])
        seen.add(key)
        if key not in want:
            continue
        if row[4] == "no FieldAnalysis":
            if not want[key]["r"] and not want[key]["w"]:
                continue          # a field nothing accesses, of a definition another DEX file shadows: the unchanged tree keeps no record of it
            return "field %r (DEX file %d): get_field_analysis returns nothing" % (key[1:], key[0])
        same, n, got = row[4], row[5], row[6]
        if not same or n != 1:
            return "field %r (DEX file %d): %d FieldAnalysis objects, get_field_analysis returns %s" % (key[1:], key[0], n, "this field's" if same else "another field's")
        for kind in ("r", "w"):
            if got[kind] != sorted(want[key][kind]):
                return "field %r (DEX file %d): %s accesses reported %r, in the code %r" % (key[1:], key[0], {"r": "read", "w": "write"}[kind], got[kind], sorted(want[key][kind]))
            if [list(x) for x in got[kind + "_pairs"]] != sorted({tuple(x[:4]) for x in want[key][kind]} and [list(t) for t in sorted({tuple(x[:4]) for x in want[key][kind]})]):
                return "field %r (DEX file %d): get_xref_%s() without offsets lists %r, in the code %r" % (
                    key[1:], key[0], {"r": "read", "w": "write"}[kind], got[kind + "_pairs"], sorted({tuple(x[:4]) for x in want[key][kind]}))
    missing = set(want) - seen
    if missing:
        return "defined fields never seen: %r" % sorted(missing)[:2]
    return None


def STREAM14_SHADOW():
    return {"name": "shadowed-definitions", "gen": gen_shadow14, "impl": impl_shadow14, "canon": lambda r: r["rows"], "pinned": False,
            "oracle": oracle_shadow14, "stats": lambda cases, results: {"programs": len(cases), "asked_before_create_xref": sum(1 for c in cases if c["ask_first"])},
            "case_timeout": 120}


def classify_c14(case, res, why):
    return "KF-C14-cross-class" if "CROSS-CLASS" in why else None


# ---- C16 ----
KEYS16 = ["calls", "calls_from", "strings", "crefs_m", "crefs_c", "frefs", "frefs_m", "ext", "nfa", "edges", "inventory", "fobjs"]
FIELD_KEYS = {"frefs", "frefs_m", "nfa", "fobjs"}


def gen_c16(rng, tier, ctx):
    cases = gen(rng, "quick", ctx)[:3]
    cases.append({"dex": [[{"name": "Lp/A;", "fields": [("f0", "I")], "methods": [{"name": "m0", "ret": "V", "params": (), "code": [
        ("invoke", 0x72, "Lp/B;", "m1", "V", ()), ("field", 0x60, "Lp/B;", "g", "S"), ("cclass", "Lp/B;")]}]}],
        [{"name": "Lp/B;", "access": 0x601, "fields": [("g", "S")], "methods": [{"name": "m1", "ret": "V", "params": (), "code": [], "abstract": True}]}]]})
    # template classes: the same shape, names of one length, each alone in its DEX file - method and field indices, flags and code
    # offsets coincide between the files; only what the code refers to differs
    tpl = []
    for j, L in enumerate("ABC"):
        tpl.append({"name": "Lt/%s;" % L, "fields": [("f0", "I")], "access": 1, "methods": [
            {"name": "run", "ret": "V", "params": (), "code": [("str", "s%d" % (j % 2), False), ("invoke", 0x6E, "Lt/%s;" % "BCA"[j], "run", "V", ()),
                                                               ("field", 0x52, "Lt/%s;" % L, "f0", "I"), ("new", "Lext/X;")]},
            {"name": "m0", "ret": "V", "params": (), "code": [("cclass", "Lt/%s;" % "CAB"[j]), ("invoke", 0x6E, "Lt/%s;" % L, "run", "V", ())]}]})
    cases.append({"dex": [[tpl[0]], [tpl[1]], [tpl[2]]]})
    cases.append({"dex": [[tpl[0]], [tpl[1], tpl[2]]]})
    for _ in range(60 if tier == "thorough" else 10):
        p = gen_program(rng)
        classes = [c for part in p["dex"] for c in part]
        nd = rng.randint(1, min(4, len(classes)))
        parts = [[] for _ in range(nd)]
        for j, c in enumerate(classes):
            parts[j % nd if j < nd else rng.randrange(nd)].append(c)
        if nd >= 2 and rng.random() < 0.6:      # a DEX file without a single code item: interfaces, abstract methods, fields
            bare = rng.randrange(nd)
            others = [c for j, part in enumerate(parts) if j != bare for c in part]
            for c in parts[bare]:
                c["access"] = rng.choice((0x601, 0x401))
                for m in c["methods"]:
                    m["code"], m["abstract"] = [], True
        cases.append({"dex": parts})
    return cases


def impl_c16(case):
    n = len(case["dex"])
    merged = observe({"dex": [[c for part in case["dex"] for c in part]]})
    runs = []
    for order in itertools.permutations(range(n)):
        runs.append([list(order), observe(case, order=list(order))])
    return {"merged": merged, "runs": runs, "first": runs[0][1]}


def canon_c16(res):
    return canon(res["first"])


def oracle_c16(case, res):
    if isinstance(res, Err):
        return "analysis failed: %s %s" % (res.name, res.msg[:150])
    merged = res["merged"]
    field_only = None
    for order, obs in res["runs"]:
        for k in KEYS16:
            if obs[k] != merged[k]:
                a, b = obs[k], merged[k]
                d = [x for x in a if x not in b][:1] + [x for x in b if x not in a][:1]
                msg = "DEX files added in order %r: %s differs from the single-DEX analysis of the same classes (e.g. %r)" % (order, k, d[:1])
                if k not in FIELD_KEYS:
                    return msg
                field_only = field_only or msg
    if field_only:
        where = {c["name"]: k for k, part in enumerate(case["dex"]) for c in part}
        crossing = [i for k, c, m, off, i in sites_of(case) if i[0] == "field" and i[2] in where and where[i[2]] != k]
        if crossing:
            return "CROSS-DEX-FIELD: " + field_only
        return field_only
    return None


def classify_c16(case, res, why):
    return "KF-C16-cross-dex-field" if "CROSS-DEX-FIELD" in why else None


def stats_c16(cases, results):
    d = stats(cases, [])
    d["add_orders_run"] = sum(len(r["runs"]) for r in results if not isinstance(r, Err))
    d["splits_with_a_dex_without_code"] = sum(1 for c in cases if any(all(m.get("abstract") for k in part for m in k["methods"]) for part in c["dex"]))
    d["split_sizes"] = {}
    for c in cases:
        d["split_sizes"][str(len(c["dex"]))] = d["split_sizes"].get(str(len(c["dex"])), 0) + 1
    return d


def STREAM16():
    return {"name": "splits", "gen": gen_c16, "impl": impl_c16, "canon": canon_c16, "coq_header": COQ_HEADER, "coq_type": "program",
            "coq_input": coq_program, "coq_obs": "obs_xref", "model_vo": "Analysis/XrefModel.vo", "pinned": False,
            "oracle": oracle_c16, "classify": classify_c16, "stats": stats_c16, "shard": 10, "case_timeout": 240}
