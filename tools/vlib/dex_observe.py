"""Everything the DEX object model reports about a parsed file, as plain lists (used by C05 and C07)."""


def observe(d):
    out = {"strings": [[ord(ch) for ch in s] for s in d.get_strings()], "classes": []}
    for c in d.get_classes():
        fields = []
        for f in c.get_fields():
            iv = f.get_init_value()
            fields.append([f.get_class_name(), f.get_name(), f.get_descriptor(), f.get_access_flags(),
                           None if iv is None else [iv.get_value_type(), repr(iv.get_value())]])
        methods = []
        for m in c.get_methods():
            code = m.get_code()
            cd = None
            if code is not None:
                tries = []
                for t in code.get_tries():
                    tries.append([t.get_start_addr(), t.get_insn_count(), t.get_handler_off()])
                handlers = []
                hl = code.get_handlers()
                if hl is not None:
                    for h in hl.get_list():
                        handlers.append([h.get_size(), [[x.get_type_idx(), x.get_addr()] for x in h.get_handlers()],
                                         h.get_catch_all_addr() if h.get_size() <= 0 else None])
                cd = [code.get_registers_size(), code.get_ins_size(), code.get_outs_size(), code.get_bc().get_raw().hex(), tries, handlers]
            methods.append([m.get_class_name(), m.get_name(), m.get_descriptor(), m.get_access_flags(), cd])
        out["classes"].append({"name": c.get_name(), "super": c.get_superclassname(), "interfaces": list(c.get_interfaces()),
                               "access": c.get_access_flags(), "source": c.get_source_file_idx(),
                               "fields": fields, "methods": methods})
    return out
