"""Shared by C10 C11 C12 C40: generated methods (tools/vlib/dalvik_asm.py), the DEX built from them, the observation of
the real MethodAnalysis, the rendering of a method as input of coq/Analysis/CfgModel.v, and the facts about a generated
method computed directly from its description (used by the oracles)."""
from tools.vlib import dalvik_asm
from tools.vlib.coqfmt import Err, z, coq_list

COQ_HEADER = "Require Import V.Analysis.CfgModel."
COQ_TYPE = "list (list ins * (list try_item * list handler))"
REFSIZE = {"str": 2, "invoke": 3, "new": 2, "sget": 2}


# ---------------------------------------------------------------------------------------------------------- generation
def gen_method(rng, big=False):
    """-> (items, tries, handlers):  tries = [(start item, end item (exclusive), handler id)], handlers = [([(type, item)], catch_all item|None)]"""
    nb = rng.randint(3, 40 if big else 16)
    body = []
    pays = []          # payload items to append: (kind, owner position, ...)
    for pos in range(nb):
        r = rng.random()

        def tgt():
            q = rng.random()
            if q < 0.80:
                return ("i", rng.randrange(0, nb + 1))          # any body item, 0 and the final exit included
            if q < 0.86:
                return ("i", 0)
            if q < 0.92:
                return ("i", pos)                               # itself
            if q < 0.96:
                return ("i", pos + 1)                           # both sides coincide
            return ("u", rng.choice((-1000, 1000, 1, -1, 0, 3, 7)))   # outside the method or inside an instruction
        if r < 0.38:
            body.append(("plain", rng.choice((1, 1, 1, 2, 3, 5))))
        elif r < 0.46:
            body.append(("ref", rng.choice(("str", "invoke", "new", "sget"))))
        elif r < 0.54:
            body.append(("exit", rng.randrange(3)))
        elif r < 0.66:
            body.append(("goto", rng.choice((1, 2, 2, 3)), tgt()))
        elif r < 0.84:
            body.append(("if", rng.random() < 0.5, tgt()))
        elif r < 0.94:
            packed = rng.random() < 0.5
            share = [p for p in pays if p[0] in ("ppay", "spay")]
            if share and rng.random() < 0.25:
                body.append(("switch", packed, ("pay", pays.index(rng.choice(share)))))       # a shared payload
            else:
                k = rng.choice((0, 1, 2, 3, 3, 5))
                ts = [tgt() for _ in range(k)]
                if ts and rng.random() < 0.3:
                    ts.append(ts[0])                                                            # duplicate case target
                pays.append(("ppay", pos, rng.randrange(-5, 5), ts) if packed else ("spay", pos, ts))
                body.append(("switch", packed, ("pay", len(pays) - 1)))
        else:
            pays.append(("fpay", rng.choice((1, 2, 4, 8)), rng.randrange(0, 7)))
            body.append(("fill", ("pay", len(pays) - 1)))
    # the payloads usually come last; in a third of the methods the code goes on behind them (the body jumps over them)
    tail_after = bool(pays) and rng.random() < 0.33
    body.append(("exit", 0))
    items = list(body)
    payidx = []
    for p in pays:
        if rng.random() < 0.85:
            items.append(("align",))
        payidx.append(len(items))
        items.append(p)
    if tail_after:
        t0 = len(items)
        items[nb] = ("goto", rng.choice((2, 3)), ("i", t0))
        items.append(("plain", rng.choice((1, 2))))
        items.append(("if", rng.random() < 0.5, ("i", rng.randrange(0, nb))))
        items.append(("plain", 1))
        if rng.random() < 0.5:
            items.append(("goto", 1, ("i", t0 + 2)))
        items.append(("exit", rng.randrange(3)))
    # resolve ("pay", k) references to item indices
    fixed = []
    for it in items:
        if it[0] == "switch" and it[2][0] == "pay":
            it = ("switch", it[1], ("i", payidx[it[2][1]]))
        elif it[0] == "fill" and it[1][0] == "pay":
            it = ("fill", ("i", payidx[it[1][1]]))
        fixed.append(it)
    items = fixed
    # try ranges over the body (disjoint, sorted), handlers at body items
    tries, handlers = [], []
    if rng.random() < 0.65:
        nh = rng.choice((1, 1, 2, 3))
        for _ in range(nh):
            typed = [(rng.randrange(1, 5), rng.randrange(0, nb + 1)) for _ in range(rng.choice((0, 1, 1, 2)))]
            ca = rng.randrange(0, nb + 1) if (not typed or rng.random() < 0.4) else None
            if (tuple(typed), ca) not in [(tuple(h[0]), h[1]) for h in handlers]:
                handlers.append((typed, ca))
        cuts = sorted(rng.sample(range(0, nb + 1), min(nb + 1, rng.choice((2, 2, 4, 4, 6)))))
        for a, b in zip(cuts[0::2], cuts[1::2]):
            if a < b:
                tries.append((a, b, rng.randrange(len(handlers))))
        if tries and not pays and rng.random() < 0.4:       # the last range runs to the very end of the code (start + count = insns_size)
            a, b, h = tries[-1]
            tries[-1] = (a, nb + 1, h)
        if len(tries) >= 2 and rng.random() < 0.3:        # adjacent ranges
            a, b, h = tries[1]
            tries[1] = (tries[0][1], b, h)
        if len(tries) >= 3 and rng.random() < 0.5:        # A B A: two ranges share a handler around a third
            tries[2] = (tries[2][0], tries[2][1], tries[0][2])
    # a fifth of the methods with a switch: its table in front of the switch (the table offset of 31t is signed), the entry jumps over it
    sw = [k for k, it in enumerate(items) if it[0] == "switch" and it[2][0] == "i" and it[2][1] < len(items) and items[it[2][1]][0] in ("ppay", "spay")]
    if sw and not tail_after and rng.random() < 0.2:
        pi = items[rng.choice(sw)][2][1]                 # the item index of the table to move
        table = items[pi]
        si = lambda n_: 2 if n_ == pi else n_ + 3 - (1 if n_ > pi else 0)
        sh = lambda t: ("i", si(t[1])) if t[0] == "i" else t

        def shift_item(it):
            if it[0] in ("goto", "if", "switch"):
                return (it[0], it[1], sh(it[2]))
            if it[0] == "fill":
                return (it[0], sh(it[1]))
            if it[0] == "ppay":
                return (it[0], si(it[1]), it[2], [sh(t) for t in it[3]])
            if it[0] == "spay":
                return (it[0], si(it[1]), [sh(t) for t in it[2]])
            return it
        rest = [shift_item(it) for k, it in enumerate(items) if k != pi]
        items = [("goto", 2, ("i", 3)), ("align",), shift_item(table)] + rest
        tries = [(si(a), si(b), h) for a, b, h in tries]
        handlers = [([(t, si(i)) for t, i in typed], (si(ca) if ca is not None else None)) for typed, ca in handlers]
    return items, tries, handlers


def method_facts(m):
    """Everything the oracles need, computed from the description alone (offsets in bytes)."""
    items, tries, handlers = m
    offs, total = dalvik_asm.layout(_strip_refs(items))
    units, desc = dalvik_asm.assemble(_strip_refs(items))
    ins = []                      # (offset, length, kind tuple)
    at = 0
    for ln, d in desc:
        ins.append((at, ln, d))
        at += ln
    ioffs = [o for o, _, _ in ins]
    by_off = {o: (ln, d) for o, ln, d in ins}

    def item_off(i):
        return 2 * (offs[i] if i < len(offs) else total)
    tr = []
    for a, b, h in tries:
        typed, ca = handlers[h]
        hs = [(t, item_off(i)) for t, i in typed] + ([(-1, item_off(ca))] if ca is not None else [])
        tr.append((item_off(a), item_off(b) - 1, hs, h))
    return {"ins": ins, "ioffs": ioffs, "by_off": by_off, "total": at, "tries": tr}


def _strip_refs(items):
    return [("plain", REFSIZE[it[1]]) if it[0] == "ref" else it for it in items]


def successors(f, o):
    """targets of the instruction at byte offset o, by the Dalvik meaning (in-method or not), None if it does not branch"""
    ln, d = f["by_off"][o]
    if d[0] == "exit":
        return []
    if d[0] == "goto":
        return [o + 2 * d[1]]
    if d[0] == "if":
        return [o + ln, o + 2 * d[1]]
    if d[0] == "switch":
        res = [o + ln]
        p = o + 2 * d[1]
        if p % 4 == 0 and p in f["by_off"] and f["by_off"][p][1][0] == "spayload":
            res += [o + 2 * t for t in f["by_off"][p][1][1]]
        return res
    return None


# ---------------------------------------------------------------------------------------------------------- the DEX
def build_dex(methods):
    from tools.writers.dexwriter import DexBuilder, Code, Try, Str, Meth, Type, Field
    b = DexBuilder()
    c = b.add_class("Lgen/C;")
    for k, (items, tries, handlers) in enumerate(methods):
        offs, total = dalvik_asm.layout(_strip_refs(items))
        units, desc = dalvik_asm.assemble(_strip_refs(items))
        # put the reference instructions in place of the placeholders
        pos = 0
        out = []
        for n, it in enumerate(items):
            sz = dalvik_asm.size(_strip_refs([it])[0], offs[n])
            if it[0] == "ref":
                out += {"str": [0x001A, Str("s%d" % k)],
                        "invoke": [0x0071, Meth("Lext/E;", "f", "V", []), 0x0000],
                        "new": [0x0022, Type("Lext/N;")],
                        "sget": [0x0060, Field("Lext/E;", "fld", "I")]}[it[1]]
            else:
                out += units[offs[n]:offs[n] + sz]
        tl = []

        def uoff(i):
            return offs[i] if i < len(offs) else total
        for a, bnd, h in tries:
            typed, ca = handlers[h]
            tl.append(Try(uoff(a), uoff(bnd) - uoff(a), [("Lexc/E%d;" % t, uoff(i)) for t, i in typed],
                          uoff(ca) if ca is not None else None))
        c.add_method("m%d" % k, "V", [], access=0x9, direct=True, code=Code(1, 0, 0, out, tries=tl))
    return b.build()


# ---------------------------------------------------------------------------------------------------------- observation
def observe(methods):
    from androguard.core.dex import DEX
    from androguard.core.analysis.analysis import Analysis
    d = DEX(build_dex(methods))
    dx = Analysis(d)
    dx.create_xref()
    out = []
    ems = {m.get_name(): m for m in d.get_encoded_methods()}
    for k in range(len(methods)):
        em = ems["m%d" % k]
        ma = dx.get_method(em)
        ioff = {}
        for idx, ins in em.get_instructions_idx():
            ioff[id(ins)] = idx

        def tag(t):
            return -1 if t == "Ljava/lang/Throwable;" else int(t[6:-1]) if t.startswith("Lexc/E") else -99
        blocks = []
        for bb in ma.get_basic_blocks().get():
            next(iter(bb.get_instructions()), None)          # a look at the head of the block, given up at once
        for bb in ma.get_basic_blocks().get():
            ea = bb.get_exception_analysis()
            exc = None
            if ea is not None:
                exc = [ea.start, ea.end, [[tag(e[0]), e[1], e[2].get_start() if e[2] is not None else None] for e in ea.exceptions]]
            spec = [[idx, (ioff.get(id(v)) if v is not None else None)] for idx, v in sorted(bb.special_ins.items())]
            blocks.append([bb.get_start(), bb.get_end(), bb.get_nb_instructions(),
                           [[c[0], c[1], c[2].get_start()] for c in bb.childs],
                           [[c[0], c[1], c[2].get_start()] for c in bb.fathers], exc, spec,
                           [sum(1 for _ in bb.get_instructions()), sum(i.get_length() for i in bb.get_instructions()),
                            bb.get_last().get_length() if bb.get_nb_instructions() else None]])
        out.append([blocks, _xref_offsets(dx, ma)])
    return out


def _xref_offsets(dx, ma):
    """offsets at which the analysis reports references made by this method: calls, field reads, new-instance, strings"""
    calls = sorted(o for _, _, o in ma.get_xref_to())
    reads = sorted(o for _, _, o in ma.get_xref_read())
    news = sorted(o for _, o in ma.get_xref_new_instance())
    strs = []
    for sa in dx.get_strings():
        for _, m, off in sa.get_xref_from(with_offset=True):
            if m is ma:
                strs.append(off)
    return [calls, reads, news, sorted(strs)]


# ---------------------------------------------------------------------------------------------------------- model input
def coq_kind(d):
    k = d[0]
    if k == "plain":
        return "KPlain"
    if k == "exit":
        return "KExit"
    if k == "goto":
        return "(KGoto %s)" % z(d[1])
    if k == "if":
        return "(KIf %s)" % z(d[1])
    if k == "switch":
        return "(KSwitch %s)" % z(d[1])
    if k == "fill":
        return "(KFill %s)" % z(d[1])
    if k == "spayload":
        return "(KSwitchPayload %s)" % coq_list([z(t) for t in d[1]])
    return "KFillPayload"


def coq_method(m):
    items, tries, handlers = m
    offs, total = dalvik_asm.layout(_strip_refs(items))
    units, desc = dalvik_asm.assemble(_strip_refs(items))
    insl = coq_list(["{| ilen := %d; ikind := %s |}" % (ln, coq_kind(d)) for ln, d in desc])

    def uoff(i):
        return offs[i] if i < len(offs) else total
    # the writer emits one encoded handler per distinct (typed, catch-all) in first-use order; the model keys them by index
    used = []
    for a, b, h in tries:
        if h not in used:
            used.append(h)
    tl = coq_list(["{| t_start := %d; t_count := %d; t_hoff := %d |}" % (uoff(a), uoff(b) - uoff(a), used.index(h))
                   for a, b, h in tries])
    hl = coq_list(["{| h_off := %d; h_typed := %s; h_catch_all := %s |}" % (
        j, coq_list(["(%s, %s)" % (z(t), z(uoff(i))) for t, i in handlers[h][0]]),
        "None" if handlers[h][1] is None else "(Some %s)" % z(uoff(handlers[h][1]))) for j, h in enumerate(used)])
    return "(%s, (%s, %s))" % (insl, tl, hl)


def coq_input(case):
    return coq_list([coq_method(m) for m in case])


def canon(res):
    return [[b[:7] for b in blocks] for blocks, xo in res]


# ---------------------------------------------------------------------------------------------------------- streams
def gen(rng, tier, ctx):
    n = 160 if tier == "thorough" else 28
    cases = []
    # fixed shapes: a switch in a loop whose head is the first instruction; goto/32 forwards, backwards, to itself;
    # two try ranges in one straight-line run; outer range split around an inner one (handlers A B A)
    cases.append([
        ([("plain", 1), ("switch", True, ("i", 5)), ("plain", 1), ("exit", 0), ("align",), ("ppay", 1, 0, [("i", 0), ("i", 2)])], [], []),
        ([("plain", 1), ("switch", False, ("i", 5)), ("plain", 1), ("exit", 0), ("align",), ("spay", 1, [("i", 0), ("i", 2), ("i", 0)])], [], []),
        ([("goto", 3, ("i", 2)), ("plain", 1), ("goto", 3, ("i", 1)), ("goto", 3, ("i", 3)), ("exit", 0)], [], []),
        ([("plain", 1), ("plain", 2), ("plain", 1), ("plain", 1), ("plain", 3), ("exit", 0)], [(0, 2, 0), (2, 4, 1)],
         [([(1, 5)], None), ([(2, 5)], None)]),
        ([("plain", 1), ("plain", 2), ("plain", 1), ("plain", 1), ("plain", 3), ("plain", 1), ("exit", 0), ("plain", 1), ("exit", 0)],
         [(0, 2, 0), (2, 4, 1), (4, 6, 0)], [([], 7), ([(3, 8)], None)]),
        ([("plain", 1), ("if", True, ("i", 3)), ("plain", 1), ("plain", 2), ("exit", 0)], [(1, 3, 0)], [([], 0)]),
    ])
    for k in range(n):
        cases.append([gen_method(rng, big=(k % 7 == 0)) for _ in range(8)])
    return cases


def impl(case):
    return observe(case)


def stats(cases, results):
    d = {"dex_files": len(cases), "methods": 0, "instructions": 0, "blocks": 0, "with_tries": 0, "switches": 0,
         "blocks_with_exception_info": 0, "fill_array": 0, "misaligned_payload": 0}
    for case, res in zip(cases, results):
        for m in case:
            f = method_facts(m)
            d["methods"] += 1
            d["instructions"] += len(f["ins"])
            d["with_tries"] += bool(f["tries"])
            for o, ln, k in f["ins"]:
                d["switches"] += k[0] == "switch"
                d["fill_array"] += k[0] == "fill"
                if k[0] == "switch" and (o + 2 * k[1]) % 4:
                    d["misaligned_payload"] += 1
        if not isinstance(res, Err):
            for blocks, xo in res:
                d["blocks"] += len(blocks)
                d["blocks_with_exception_info"] += sum(1 for b in blocks if b[5] is not None)
    return d


def STREAM(oracle):
    return {"name": "generated-methods", "gen": gen, "impl": impl, "canon": canon, "coq_header": COQ_HEADER,
            "coq_type": COQ_TYPE, "coq_input": coq_input, "coq_obs": "(fun l => VList (map obs_method l))",
            "model_vo": "Analysis/CfgModel.vo", "pinned": False, "oracle": oracle, "stats": stats, "shard": 4,
            "case_timeout": 120}


def per_method(check):
    def oracle(case, res):
        if isinstance(res, Err):
            return "analysis of a generated DEX failed: %s %s" % (res.name, res.msg[:160])
        for k, (m, (blocks, xo)) in enumerate(zip(case, res)):
            why = check(method_facts(m), blocks, xo)
            if why:
                return "method m%d: %s" % (k, why)
        return None
    return oracle


# ---- C10 ----
def check_partition(f, blocks, xo):
    ioffs, total = f["ioffs"], f["total"]
    if not f["ins"]:
        return None
    if not blocks:
        return "no basic blocks for %d instructions" % len(f["ins"])
    if blocks[0][0] != 0:
        return "the first block starts at %d" % blocks[0][0]
    for a, b in zip(blocks, blocks[1:]):
        if a[1] != b[0]:
            return "block %d..%d is followed by a block starting at %d" % (a[0], a[1], b[0])
    if blocks[-1][1] != total:
        return "the last block ends at %d, the code ends at %d" % (blocks[-1][1], total)
    for b in blocks:
        inside = [o for o in ioffs if b[0] <= o < b[1]]
        if b[0] not in ioffs or (b[1] not in ioffs and b[1] != total) or len(inside) != b[2] or b[2] == 0:
            return "block %d..%d does not consist of whole instructions (%d reported, %d inside)" % (b[0], b[1], b[2], len(inside))
        if len(b) > 7 and (b[7][0] != len(inside) or b[7][1] != b[1] - b[0]):
            return "block %d..%d: get_instructions() yields %d instructions of %d bytes, the block holds %d instructions" % (b[0], b[1], b[7][0], b[7][1], len(inside))
        for o in inside[:-1]:
            if successors(f, o) is not None:
                return "the %s at %d is not the last instruction of its block %d..%d" % (f["by_off"][o][1][0], o, b[0], b[1])
    starts = {b[0] for b in blocks}
    want = {}
    for o in ioffs:
        s = successors(f, o)
        if s:
            kind = f["by_off"][o][1][0]
            for t in (s if kind in ("goto",) else s[1:] if kind == "if" else s[1:]):
                want.setdefault(t, "%s target of @%d" % (kind, o))
            if kind in ("if", "switch"):
                want.setdefault(s[0], "instruction after the %s at @%d" % (kind, o))
    for (st, en, hs, h) in f["tries"]:
        want.setdefault(st, "try start")
        for t, a in hs:
            want.setdefault(a, "handler address")
    for t, why in sorted(want.items()):
        if t in ioffs and t not in starts:
            return "offset %d (%s) does not begin a basic block" % (t, why)
    return None


# ---- C11 ----
def check_successors(f, blocks, xo):
    ioffs, total = f["ioffs"], f["total"]
    starts = {b[0]: b for b in blocks}

    def block_of(o):
        for b in blocks:
            if b[0] <= o < b[1]:
                return b[0]
        return None
    edges = []
    for b in blocks:
        inside = [o for o in ioffs if b[0] <= o < b[1]]
        if not inside:
            continue
        last = inside[-1]
        s = successors(f, last)
        if s is None:
            s = [b[1]]                              # fall through
        want = sorted((t, block_of(t)) for t in s if block_of(t) is not None)
        got = sorted((c[1], c[2]) for c in b[3])
        if got != want:
            return "block %d..%d ends with %s at %d: successors (target, block) %r, the bytecode allows %r" % (
                b[0], b[1], f["by_off"][last][1][0], last, got, want)
        for c in b[3]:
            if c[0] != last:
                return "block %d..%d: successor %r is attributed to offset %d, the last instruction is at %d" % (b[0], b[1], c, c[0], last)
            edges.append((b[0], c[1], c[0], c[2]))
    for b in blocks:
        want = sorted((tgt, src, fa) for (fa, tgt, src, ch) in edges if ch == b[0])
        got = sorted((c[0], c[1], c[2]) for c in b[4])
        if got != want:
            return "block %d..%d: predecessors %r, the inverse of the successor relation is %r" % (b[0], b[1], got, want)
    return None


# ---- C12 ----
def check_exceptions(f, blocks, xo):
    ioffs = f["ioffs"]
    tries = f["tries"]
    for i, a in enumerate(tries):
        for b in tries[i + 1:]:
            if a[0] <= b[1] and b[0] <= a[1]:
                return None                         # overlapping ranges: not a well-formed try table, outside the property

    def block_start_of(o):
        for b in blocks:
            if b[0] <= o < b[1]:
                return b[0]
        return None
    for b in blocks:
        inside = [o for o in ioffs if b[0] <= o < b[1]]
        cover = [t for t in tries if any(t[0] <= o <= t[1] for o in inside)]
        got = b[5]
        if not cover:
            if got is not None:
                return "block %d..%d reports the try range %d..%d which covers none of its instructions" % (b[0], b[1], got[0], got[1])
            continue
        if got is None:
            return "block %d..%d has an instruction inside the try range %d..%d but reports no exception information" % (
                b[0], b[1], cover[0][0], cover[0][1])
        if len(cover) > 1:
            return "block %d..%d holds instructions of the try ranges %r; it can report only one of them (%d..%d)" % (
                b[0], b[1], [(t[0], t[1]) for t in cover], got[0], got[1])
        match = [t for t in cover if (t[0], t[1]) == (got[0], got[1])]
        if not match:
            return "block %d..%d reports the range %d..%d, its instructions are covered by %r" % (
                b[0], b[1], got[0], got[1], [(t[0], t[1]) for t in cover])
        want = [[ty, ad, block_start_of(ad)] for ty, ad in match[0][2]]
        if not any([[ty, ad, block_start_of(ad)] for ty, ad in t[2]] == got[2] for t in match):
            return "block %d..%d (range %d..%d) reports the handlers %r, the try item has %r" % (b[0], b[1], got[0], got[1], got[2], want)
        for ty, ad, hb in got[2]:
            if ad in ioffs and hb != ad:
                return "handler at %d is reported in the block starting at %r" % (ad, hb)
    return None


# ---- C40 ----
def check_offsets(f, blocks, xo):
    ioffs, total = set(f["ioffs"]), f["total"]
    for b in blocks:
        if b[0] not in ioffs or (b[1] not in ioffs and b[1] != total):
            return "block boundary %d..%d is not an instruction offset" % (b[0], b[1])
        for c in b[3]:
            if c[0] not in ioffs:
                return "successor %r is attributed to offset %d where no instruction starts" % (c, c[0])
        for c in b[4]:
            if c[1] not in ioffs:
                return "predecessor %r names offset %d where no instruction starts" % (c, c[1])
        want = []
        for o in sorted(ioffs):
            if b[0] <= o < b[1] and f["by_off"][o][1][0] in ("switch", "fill"):
                p = o + 2 * f["by_off"][o][1][1]
                want.append([o, p if p in ioffs else None])
        if b[6] != want:
            return "block %d..%d links the payloads %r, the instructions encode %r" % (b[0], b[1], b[6], want)
    names = ["call", "field read", "new-instance", "string"]
    for nm, offs in zip(names, xo):
        for o in offs:
            if o not in ioffs:
                return "a %s cross-reference is reported at offset %d where no instruction starts" % (nm, o)
    return None


# ---------------------------------------------------------------------------------------------------------- shipped files
SHIPPED = ["tests/data/APK/classes.dex", "tests/data/APK/ExceptionHandling.dex", "tests/data/APK/FillArrays.dex",
           "tests/data/APK/AnalysisTest.dex", "tests/data/APK/Test.dex", "tests/data/APK/StringTests.dex",
           "tests/data/APK/TestActivity.apk", "tests/data/APK/com.teleca.jamendo_35.apk", "tests/data/APK/a2dp.Vol_137.apk",
           "tests/data/APK/hello-world.apk", "tests/data/APK/Annotation_classes.dex"]
_cache = {}


def _load(rel):
    import os
    if rel in _cache:
        return _cache[rel]
    from androguard.core.dex import DEX
    from androguard.core.analysis.analysis import Analysis
    path = os.path.join(os.environ.get("VERIF_REPO", "/repo"), rel)
    raw = open(path, "rb").read()
    if rel.endswith(".apk"):
        from androguard.core.apk import APK
        raw = bytes(APK(raw, raw=True, skip_analysis=True).get_dex())
    d = DEX(raw)
    dx = Analysis(d)
    ms = [m for m in d.get_encoded_methods() if m.get_code() is not None]
    _cache.clear()
    _cache[rel] = (d, dx, ms)
    return _cache[rel]


def gen_shipped(rng, tier, ctx):
    """case = (file, start, step, count): the methods with code number start, start+step, ... of that file"""
    cases = []
    for rel in SHIPPED:
        big = rel.endswith(("classes.dex", ".apk")) and "Annotation" not in rel
        if tier == "thorough":
            for s in range(0, 6000 if big else 40, 40):
                cases.append((rel, s, 1, 40))
        else:
            cases.append((rel, rng.randrange(0, 7), rng.choice((53, 61, 67, 71)) if big or "Annotation" in rel else 1, 30))
    return cases


def describe_real(d, em):
    """description of a parsed method in the vocabulary of the model (lengths, kinds, try table), read through the public API"""
    from androguard.core.dex import PackedSwitch, SparseSwitch, FillArrayData
    ins = []
    for idx, i in em.get_instructions_idx():
        op = i.get_op_value()
        ln = i.get_length()
        if isinstance(i, (PackedSwitch, SparseSwitch)):
            k = ("spayload", list(i.get_targets()))
        elif isinstance(i, FillArrayData):
            k = ("fpayload",)
        elif op == 0x27 or 0x0E <= op <= 0x11:
            k = ("exit",)
        elif 0x28 <= op <= 0x2A:
            k = ("goto", i.get_ref_off())
        elif 0x32 <= op <= 0x3D:
            k = ("if", i.get_ref_off())
        elif op in (0x2B, 0x2C):
            k = ("switch", i.get_ref_off())
        elif op == 0x26:
            k = ("fill", i.get_ref_off())
        else:
            k = ("plain",)
        ins.append((ln, k))
    code = em.get_code()
    tries, handlers = [], []
    names = {}
    if code.get_tries_size() > 0:
        hl = code.get_handlers()
        for h in hl.get_list():
            typed = []
            for x in h.get_handlers():
                s = d.get_cm_type(x.get_type_idx())
                tag = -1 if s == "Ljava/lang/Throwable;" else names.setdefault(s, len(names) + 1)
                typed.append((tag, x.get_addr()))
            ca = h.get_catch_all_addr() if h.get_size() <= 0 else None
            handlers.append((h.get_off() - hl.get_off(), typed, ca))
        for t in code.get_tries():
            tries.append((t.get_start_addr(), t.get_insn_count(), t.get_handler_off()))
    return ins, tries, handlers, names


def impl_shipped(case):
    rel, start, step, count = case
    d, dx, ms = _load(rel)
    out = []
    for k in range(start, min(len(ms), start + step * count), step):
        em = ms[k]
        ins, tries, handlers, names = describe_real(d, em)
        ma = dx.get_method(em)
        ioff = {id(i): idx for idx, i in em.get_instructions_idx()}

        def tag(t):
            return -1 if t == "Ljava/lang/Throwable;" else names.get(t, -99)
        blocks = []
        for bb in ma.get_basic_blocks().get():
            ea = bb.get_exception_analysis()
            exc = None
            if ea is not None:
                exc = [ea.start, ea.end, [[tag(e[0]), e[1], e[2].get_start() if e[2] is not None else None] for e in ea.exceptions]]
            spec = [[idx, (ioff.get(id(v)) if v is not None else None)] for idx, v in sorted(bb.special_ins.items())]
            blocks.append([bb.get_start(), bb.get_end(), bb.get_nb_instructions(),
                           [[c[0], c[1], c[2].get_start()] for c in bb.childs],
                           [[c[0], c[1], c[2].get_start()] for c in bb.fathers], exc, spec])
        out.append([[list(map(list, [(ln, list(k)) for ln, k in ins])), [list(t) for t in tries],
                     [[o, [list(x) for x in ty], ca] for o, ty, ca in handlers]], blocks, "%s %s" % (em.get_class_name(), em.get_name())])
    return out


def facts_real(desc):
    ins, tries, handlers = desc
    lst, at = [], 0
    for ln, k in ins:
        kk = tuple(k[:1]) + tuple(k[1:])
        lst.append((at, ln, (k[0],) + tuple(k[1:])))
        at += ln
    hs = {o: (ty, ca) for o, ty, ca in handlers}
    tr = []
    for s, c, ho in tries:
        ty, ca = hs[ho]
        tr.append((2 * s, 2 * s + 2 * c - 1, [(t, 2 * a) for t, a in ty] + ([(-1, 2 * ca)] if ca is not None else []), ho))
    return {"ins": lst, "ioffs": [o for o, _, _ in lst], "by_off": {o: (ln, k) for o, ln, k in lst}, "total": at, "tries": tr}


def coq_input_shipped(case, res):
    if isinstance(res, Err):
        return "[]"
    ms = []
    for desc, blocks, name in res:
        ins, tries, handlers = desc
        insl = coq_list(["{| ilen := %d; ikind := %s |}" % (ln, coq_kind(tuple(k))) for ln, k in ins])
        tl = coq_list(["{| t_start := %d; t_count := %d; t_hoff := %d |}" % tuple(t) for t in tries])
        hl = coq_list(["{| h_off := %d; h_typed := %s; h_catch_all := %s |}" % (
            o, coq_list(["(%s, %s)" % (z(t), z(a)) for t, a in ty]), "None" if ca is None else "(Some %s)" % z(ca))
            for o, ty, ca in handlers])
        ms.append("(%s, (%s, %s))" % (insl, tl, hl))
    return coq_list(ms)


def per_method_shipped(check):
    def oracle(case, res):
        if isinstance(res, Err):
            return "analysis of %s failed: %s %s" % (case[0], res.name, res.msg[:160])
        for desc, blocks, name in res:
            why = check(facts_real(desc), blocks, [[], [], [], []])
            if why:
                return "%s %s: %s" % (case[0], name, why)
        return None
    return oracle


def stats_shipped(cases, results):
    d = {"methods": 0, "instructions": 0, "blocks": 0, "methods_with_tries": 0, "blocks_with_exception_info": 0}
    for c, r in zip(cases, results):
        if isinstance(r, Err):
            continue
        for desc, blocks, name in r:
            d["methods"] += 1
            d["instructions"] += len(desc[0])
            d["blocks"] += len(blocks)
            d["methods_with_tries"] += bool(desc[1])
            d["blocks_with_exception_info"] += sum(1 for b in blocks if b[5] is not None)
    return d


def STREAM_SHIPPED(oracle):
    return {"name": "shipped-methods", "gen": gen_shipped, "impl": impl_shipped, "canon": lambda r: [b for _, b, _ in r],
            "coq_header": COQ_HEADER, "coq_type": COQ_TYPE, "coq_input": lambda c: "[]", "coq_input_r": coq_input_shipped,
            "coq_obs": "(fun l => VList (map obs_method l))", "model_vo": "Analysis/CfgModel.vo", "pinned": False,
            "oracle": oracle, "stats": stats_shipped, "shard": 2, "case_timeout": 600}
