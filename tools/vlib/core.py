"""Check driver: proofs + correspondence + oracle -> verdict, replay and evidence.

A property is described by a module tools/props/cXX.py exporting

  ID, TITLE, LEVEL ("proof"|...), LEVEL_TEXT, LEVEL_NOTE, TECHNIQUE, DESIGN_REF
  PROPS            name of coq/Props/<PROPS>.v (the file holding only the property theorems)
  TRUSTED          list of strings (trusted base for this property)
  translate(ctx)   optional: returns {relative coq path: text} regenerated from ctx.repo
                   (raise TranslateError when the source leaves the translatable subset)
  STREAMS          list of dicts, one per correspondence stream:
      name         identifier
      gen(rng, tier, ctx) -> list of cases (picklable python values); corpus cases are prepended
      impl(case)   runs the real code (executed in a subprocess, see implrun.py)
      coq_header   "Require Import ..." text for the cases file
      coq_type     Coq type of a model input
      coq_input(case) -> Coq term of that type
      coq_input_r(case, result) -> same, for observations that depend on how far the implementation got
      coq_obs      Coq function  input -> val   (the model's observation)
      canon(result) optional, python-side canonicalisation before rendering
      pinned       True when a theorem pins the model's observation as the only value the
                   property allows: a disagreement is then a property violation with the case
                   as failing input.  False: disagreement only breaks the correspondence.
      oracle(case, result) -> None | str   optional python transcription of the specification
      classify(case, result, why) -> id of an entry of known_findings.json, or None
      nontrivial(case, result) -> bool     (for the evidence counts)
      shrink(case, still_fails) -> case    optional
      shard        cases per Coq file (default 300)
"""
import concurrent.futures as cf
import fcntl
import hashlib
import importlib
import json
import os
import pickle
import random
import re
import shutil
import subprocess
import sys
import tempfile
import time

from tools.vlib import coqfmt
from tools.vlib.coqfmt import Err, jsonable

VERIF = os.path.dirname(os.path.dirname(os.path.dirname(os.path.abspath(__file__))))
COQ = os.path.join(VERIF, "coq")
PY = "/venv/bin/python"
GUARD = "ANDROGUARD_VERIF"
COQ_WARN = ["-w", "-notation-overridden,-deprecated-hint-without-locality,-deprecated-instance-without-locality"]
FORBIDDEN = re.compile(
    r"\b(Admitted|admit|Axiom|Axioms|Parameter|Parameters|Conjecture|Conjectures|Hypothesis|Hypotheses|Variable|Variables|Abort)\b|"
    r"Admit Obligations|Unset Guard Checking|bypass_check|Unset Positivity|Unset Universe Checking|"
    r"type-in-type|impredicative-set|native_compute")


class TranslateError(Exception):
    pass


class Ctx:
    def __init__(self, pid, tier, seed, repo):
        self.pid = pid
        self.tier = tier
        self.seed = seed
        self.repo = repo
        self.verif = VERIF
        self.coq = COQ
        self.t0 = time.time()
        self.notes = []

    def src(self, rel):
        with open(os.path.join(self.repo, rel), encoding="utf-8") as f:
            return f.read()

    def scratch(self):
        d = os.path.join(VERIF, ".scratch")
        os.makedirs(d, exist_ok=True)
        return tempfile.mkdtemp(prefix=self.pid + "-", dir=d)


def load_prop(pid):
    return importlib.import_module("tools.props." + pid.lower())


def all_prop_ids():
    d = os.path.join(VERIF, "tools", "props")
    return sorted(f[:-3].upper() for f in os.listdir(d) if re.fullmatch(r"c\d\d\.py", f))


# ----------------------------------------------------------------------------- coq build

def write_if_changed(path, text):
    try:
        with open(path, encoding="utf-8") as f:
            if f.read() == text:
                return False
    except FileNotFoundError:
        pass
    os.makedirs(os.path.dirname(path), exist_ok=True)
    with open(path, "w", encoding="utf-8") as f:
        f.write(text)
    return True


class BuildLock:
    def __enter__(self):
        self.f = open(os.path.join(COQ, ".build.lock"), "w")
        fcntl.flock(self.f, fcntl.LOCK_EX)
        return self

    def __exit__(self, *a):
        fcntl.flock(self.f, fcntl.LOCK_UN)
        self.f.close()


def coq_sources():
    out = []
    for root, dirs, files in os.walk(COQ):
        dirs[:] = [d for d in dirs if not d.startswith(".")]
        for f in files:
            if f.endswith(".v") and not f.startswith("Cases_") and not f.startswith("."):
                out.append(os.path.relpath(os.path.join(root, f), COQ))
    return sorted(out)


def regen_makefile():
    """_CoqProject = fixed header + every .v file (except harness-written case files)."""
    hdr = "-R . V\n-arg -w -arg " + COQ_WARN[1] + "\n"
    text = hdr + "\n".join(coq_sources()) + "\n"
    changed = write_if_changed(os.path.join(COQ, "_CoqProject"), text)
    if changed or not os.path.exists(os.path.join(COQ, "Makefile")):
        subprocess.run(["coq_makefile", "-f", "_CoqProject", "-o", "Makefile"], cwd=COQ, check=True,
                       stdout=subprocess.DEVNULL, stderr=subprocess.DEVNULL)


def make_target(target, timeout=1500, jobs=8, locked=False):
    """Full .vo build of one target and everything it depends on."""
    def go():
        regen_makefile()
        try:
            p = subprocess.run(["timeout", str(timeout), "make", "-j%d" % jobs, target], cwd=COQ,
                               capture_output=True, text=True)
        except Exception as e:  # pragma: no cover
            return False, str(e)
        return p.returncode == 0, (p.stdout + p.stderr)[-6000:]
    if locked:
        return go()
    with BuildLock():
        return go()


def coqc_file(path, timeout=600):
    p = subprocess.run(["timeout", str(timeout), "coqc", "-R", COQ, "V"] + COQ_WARN + [path],
                       capture_output=True, text=True)
    return p.returncode, p.stdout, p.stderr


def parse_props(props_file):
    """Names of theorems stated in a Props file and the axioms Print Assumptions reports."""
    with open(props_file, encoding="utf-8") as f:
        text = f.read()
    names = re.findall(r"^\s*(?:Theorem|Lemma|Corollary|Example)\s+([A-Za-z0-9_']+)", text, re.M)
    printed = re.findall(r"^\s*Print Assumptions\s+([A-Za-z0-9_']+)", text, re.M)
    return text, names, printed


def parse_assumptions(stdout, printed):
    """Splits coqc output of a Props file into one block per Print Assumptions command."""
    blocks = re.split(r"(?m)^(?=Closed under the global context|Axioms:)", stdout)
    blocks = [b for b in blocks if b.startswith("Closed under") or b.startswith("Axioms:")]
    res = {}
    for name, b in zip(printed, blocks):
        if b.startswith("Closed"):
            res[name] = []
        else:
            res[name] = sorted(set(re.findall(r"(?m)^([A-Za-z_][A-Za-z0-9_.']*)\s*:", b)))
    return res, len(blocks)


def grep_gate():
    """No Admitted / Axiom / Parameter / unchecked flags anywhere in the development."""
    bad = []
    for rel in coq_sources():
        with open(os.path.join(COQ, rel), encoding="utf-8") as f:
            txt = f.read()
        txt = re.sub(r"\(\*.*?\*\)", " ", txt, flags=re.S)
        for i, line in enumerate(txt.split("\n"), 1):
            m = FORBIDDEN.search(line)
            if not m:
                continue
            w = m.group(0)
            # Section-local Variable / Hypothesis are allowed only inside a Section
            if w in ("Variable", "Variables", "Hypothesis", "Hypotheses"):
                if inside_section(txt, i):
                    continue
            bad.append("%s:%d: %s" % (rel, i, line.strip()[:100]))
    return bad


def inside_section(txt, lineno):
    depth = 0
    for i, line in enumerate(txt.split("\n"), 1):
        if i >= lineno:
            break
        if re.match(r"\s*Section\s+\w+\s*\.", line):
            depth += 1
        elif re.match(r"\s*End\s+\w+\s*\.", line) and depth > 0:
            depth -= 1
    return depth > 0


# ----------------------------------------------------------------------------- impl side

def run_impl(ctx, prop, stream, cases, timeout=None):
    d = ctx.scratch()
    try:
        fin, fout = os.path.join(d, "in.pickle"), os.path.join(d, "out.pickle")
        with open(fin, "wb") as f:
            pickle.dump(cases, f)
        env = dict(os.environ)
        env["PYTHONPATH"] = ctx.repo + os.pathsep + VERIF
        env["PYTHONHASHSEED"] = str(stream.get("hashseed", 0))
        env["PYTHONDONTWRITEBYTECODE"] = "1"
        env["VERIF_REPO"] = ctx.repo
        env[GUARD] = "1"
        per = int(stream.get("case_timeout", 20))
        limit = timeout or max(120, min(3000, 30 + len(cases) * per // 4))
        try:
            p = subprocess.run([PY, "-m", "tools.vlib.implrun", prop.__name__.split(".")[-1], stream["name"], fin, fout],
                               cwd=VERIF, env=env, capture_output=True, text=True, timeout=limit)
        except subprocess.TimeoutExpired:
            return None, "implementation driver exceeded %ds on %d cases" % (limit, len(cases))
        if p.returncode != 0 or not os.path.exists(fout):
            return None, "implementation driver failed: " + (p.stderr or p.stdout)[-1500:]
        with open(fout, "rb") as f:
            return pickle.load(f), None
    finally:
        shutil.rmtree(d, ignore_errors=True)


# ----------------------------------------------------------------------------- model side

def cases_file_text(stream, inputs_expected, what="mismatches"):
    hdr = "From Coq Require Import ZArith List Bool String.\nRequire Import V.Lib.Val.\n" + stream["coq_header"].strip() + \
          "\nImport ListNotations.\nOpen Scope Z_scope.\n"
    rows = ";\n ".join("(%s, %s)" % (i, e) for i, e in inputs_expected)
    body = "Definition cases : list ((%s) * val) := [\n %s\n].\n" % (stream["coq_type"], rows)
    if what == "mismatches":
        body += "Eval vm_compute in (mismatches (%s) cases).\n" % stream["coq_obs"]
    else:
        body += "Eval vm_compute in (map (fun c => (%s) (fst c)) cases).\n" % stream["coq_obs"]
    return hdr + body


def run_model(ctx, prop, stream, cases, results):
    """Returns (list of mismatching case indices, error text or None)."""
    canon = stream.get("canon", lambda r: r)
    rows, index, no_input = [], [], []
    for i, (c, r) in enumerate(zip(cases, results)):
        try:
            inp = stream["coq_input_r"](c, r) if "coq_input_r" in stream else stream["coq_input"](c)
        except Exception:
            if not isinstance(r, Err):
                raise
            # the model input is derived from what the implementation returned and it returned an exception:
            # the case cannot be put to the model and counts as a disagreement
            no_input.append(i)
            continue
        index.append(i)
        rows.append((inp, coqfmt.val(r if isinstance(r, Err) else canon(r))))
    shard = int(stream.get("shard", 300))
    d = ctx.scratch()
    jobs = []
    try:
        for k in range(0, len(rows), shard):
            name = "Cases_%s_%s_%d" % (ctx.pid, re.sub(r"\W", "_", stream["name"]), k // shard)
            path = os.path.join(d, name + ".v")
            with open(path, "w") as f:
                f.write(cases_file_text(stream, rows[k:k + shard]))
            jobs.append((k, path))
        mism, errs = [], []

        def one(job):
            k, path = job
            t0 = time.time()
            rc, out, err = coqc_file(path, timeout=int(stream.get("coq_timeout", 900)))
            if os.environ.get("VERIF_DEBUG"):
                sys.stderr.write("shard %s: %.1fs\n" % (os.path.basename(path), time.time() - t0))
            return k, rc, out, err

        with cf.ThreadPoolExecutor(max_workers=int(os.environ.get("VERIF_JOBS", "8"))) as ex:
            for k, rc, out, err in ex.map(one, jobs):
                if rc != 0:
                    errs.append("coqc failed on shard %d: %s" % (k // shard, (err or out)[-1200:]))
                    continue
                m = re.search(r"=\s*\[(.*?)\]\s*:\s*list Z", out, re.S)
                if not m:
                    errs.append("cannot parse model output of shard %d: %s" % (k // shard, out[-300:]))
                    continue
                body = m.group(1).strip()
                if body:
                    for tok in body.replace("%Z", "").split(";"):
                        mism.append(index[k + int(tok.strip().strip("()"))])
        return sorted(mism + no_input), ("\n".join(errs) if errs else None)
    finally:
        shutil.rmtree(d, ignore_errors=True)


def model_values(ctx, stream, cases, limit=3, results=None):
    """Raw text of the model's observation on a few cases (for replay files)."""
    if "coq_input_r" in stream:
        if results is None:
            return "not shown: the model input of this stream depends on the implementation's result"
        try:
            rows = [(stream["coq_input_r"](c, r), "VNone") for c, r in list(zip(cases, results))[:limit]]
        except Exception:
            return "not shown: the model input of this stream is derived from the implementation's result, which is an exception"
    else:
        rows = [(stream["coq_input"](c), "VNone") for c in cases[:limit]]
    d = ctx.scratch()
    try:
        path = os.path.join(d, "Cases_show_%s.v" % ctx.pid)
        with open(path, "w") as f:
            f.write(cases_file_text(stream, rows, what="values"))
        rc, out, err = coqc_file(path, timeout=300)
        return re.sub(r"\s+", " ", out)[:4000] if rc == 0 else "model evaluation failed: " + err[-500:]
    finally:
        shutil.rmtree(d, ignore_errors=True)


# ----------------------------------------------------------------------------- findings

def load_known():
    p = os.path.join(VERIF, "known_findings.json")
    if not os.path.exists(p):
        return {"known": [], "fixed": []}
    with open(p) as f:
        return json.load(f)


def corpus_cases(pid, sname):
    """Minimised earlier failures and regression inputs; run before generated cases."""
    d = os.path.join(VERIF, "corpus", pid)
    out = []
    if os.path.isdir(d):
        for fn in sorted(os.listdir(d)):
            if fn.endswith(".json"):
                with open(os.path.join(d, fn)) as f:
                    j = json.load(f)
                if j.get("stream") == sname:
                    out.append(coqfmt.unjson(j["case"]))
    return out


# ----------------------------------------------------------------------------- main check

def write_replay(ctx, kind, payload):
    os.makedirs(os.path.join(VERIF, "replays"), exist_ok=True)
    blob = json.dumps(payload, sort_keys=True, default=str)
    h = hashlib.sha1(blob.encode()).hexdigest()[:10]
    path = os.path.join(VERIF, "replays", "%s-%s-%s.json" % (ctx.pid, kind, h))
    with open(path, "w") as f:
        json.dump(payload, f, indent=1, default=str)
    return path


def restore_generated(pid, repo):
    """After a check of another tree (VERIF_REPO=<scratch copy>) the translated files under coq/gen are put back to what
    /repo says, so that a later full build or a check of another property does not see the other tree's tables."""
    if os.path.realpath(repo) == os.path.realpath("/repo") or not os.path.isdir("/repo"):
        return
    try:
        prop = load_prop(pid)
        if not hasattr(prop, "translate"):
            return
        ctx = Ctx(pid, "quick", 0, "/repo")
        with BuildLock():
            for rel, text in prop.translate(ctx).items():
                write_if_changed(os.path.join(COQ, rel), text)
    except Exception:
        pass


def run_check(pid, tier, seed, repo, replay=None):
    ctx = Ctx(pid, tier, seed, repo)
    prop = load_prop(pid)
    known = [k for k in load_known()["known"] if k["property"] == pid]
    violations = []      # (kind, replay payload, has_input)
    known_hits = {}
    obligations = []
    ev_streams = []
    proof_state = {"translate": "n/a", "build": None, "props": None, "gate": None}
    axioms = {}

    # 1. regenerate translated models from the working tree, 2. re-check the proofs.
    # Both happen under one build lock: a concurrent check of another tree (VERIF_REPO=...) regenerates the same files.
    translate_error = None
    props_file = os.path.join(COQ, "Props", prop.PROPS + ".v")
    text, names, printed = parse_props(props_file)
    obligations = names
    discharged = 0
    props_out = ""
    rc = out = err = None
    with BuildLock():
        if hasattr(prop, "translate"):
            try:
                gen = prop.translate(ctx)
                for rel, gtext in gen.items():
                    write_if_changed(os.path.join(COQ, rel), gtext)
                proof_state["translate"] = "ok (%s)" % ", ".join(sorted(gen))
            except TranslateError as e:
                translate_error = str(e)
                proof_state["translate"] = "FAILED: " + translate_error
        build_ok, build_log = (False, "translation failed") if translate_error else \
            make_target("Props/%s.vo" % prop.PROPS, locked=True)
        if build_ok:
            rc, out, err = coqc_file(props_file)
        gen_snapshot = None
        if hasattr(prop, "translate") and not translate_error:
            # the model streams of this run must be evaluated against the files generated for THIS tree
            gen_snapshot = {rel: gtext for rel, gtext in gen.items()}
    ctx.gen_snapshot = gen_snapshot
    proof_state["build"] = build_ok
    if build_ok:
        props_out = out
        proof_state["props"] = (rc == 0)
        if rc == 0:
            axioms, nblocks = parse_assumptions(out, printed)
            discharged = len(names)
            missing = [n for n in names if n not in printed and not n.endswith("_nonvacuous") and not n.startswith("ex_")]
            if missing:
                ctx.notes.append("theorems without Print Assumptions: " + ", ".join(missing))
        else:
            build_log = (err or out)[-3000:]
    gate = grep_gate()
    proof_state["gate"] = not gate
    own_axioms = sorted({a for v in axioms.values() for a in v})
    allowed = getattr(prop, "ALLOWED_AXIOMS", [])
    bad_axioms = [a for a in own_axioms if not any(re.fullmatch(p, a) for p in allowed)]
    proofs_ok = bool(build_ok and proof_state["props"] and not gate and not bad_axioms)
    if not proofs_ok:
        why = ("translator rejected the source: " + translate_error) if translate_error else \
              ("forbidden construct: " + "; ".join(gate[:5])) if gate else \
              ("unexpected axioms: " + ", ".join(bad_axioms)) if bad_axioms else \
              "proof obligation no longer checks"
        violations.append(("proof", {"property": pid, "kind": "proof-broken", "why": why,
                                     "theorems_file": "coq/Props/%s.v" % prop.PROPS,
                                     "log": build_log[-3000:]}, False))

    # 3./4. correspondence and oracle, stream by stream
    total_eval = 0
    nontrivial_keys = set()
    samples = []
    for stream in prop.STREAMS:
        sname = stream["name"]
        rng = random.Random("%s/%s/%d" % (pid, sname, seed))
        if replay is not None:
            if replay.get("stream") != sname:
                continue
            cases = [coqfmt.unjson(replay["case"])]
        else:
            cases = corpus_cases(pid, sname) + list(stream["gen"](rng, tier, ctx))
        t1 = time.time()
        results, ierr = run_impl(ctx, prop, stream, cases)
        st = {"stream": sname, "cases": len(cases), "pinned": bool(stream.get("pinned")),
              "impl_s": round(time.time() - t1, 2)}
        if ierr:
            violations.append(("harness", {"property": pid, "kind": "implementation-driver-failed",
                                           "stream": sname, "why": ierr}, False))
            st["error"] = ierr[-300:]
            ev_streams.append(st)
            continue
        total_eval += len(cases)
        # python oracle (specification transcription) on the implementation's results
        oracle = stream.get("oracle")
        failing = {}
        if oracle:
            for i, (c, r) in enumerate(zip(cases, results)):
                why = oracle(c, r)
                if why:
                    failing[i] = "oracle: " + why
        # model vs implementation
        mism, merr = [], None
        if stream.get("coq_obs"):
            # the model files are separate from the proofs, so the model still runs when a proof breaks
            mok, mlog = (True, "") if build_ok else make_target(stream.get("model_vo", "Props/%s.vo" % prop.PROPS))
            if getattr(ctx, "gen_snapshot", None):
                # another check (of another tree) may have regenerated the translated files meanwhile: put ours back
                with BuildLock():
                    stale = [rel for rel, gtext in ctx.gen_snapshot.items() if write_if_changed(os.path.join(COQ, rel), gtext)]
                    if stale:
                        mok, mlog = make_target(stream.get("model_vo", "Props/%s.vo" % prop.PROPS), locked=True)
            if mok:
                t2 = time.time()
                mism, merr = run_model(ctx, prop, stream, cases, results)
                st["model_s"] = round(time.time() - t2, 2)
            else:
                merr = "model not evaluated, it does not build: " + mlog[-800:]
        st["mismatches"] = len(mism)
        st["oracle_failures"] = len(failing)
        if merr:
            st["model_error"] = merr[-400:]
            violations.append(("corr", {"property": pid, "kind": "model-evaluation-failed", "stream": sname,
                                        "why": merr[-2000:]}, False))
        for i in mism:
            if stream.get("pinned"):
                failing.setdefault(i, "implementation differs from the proven model")
        # classification against the known findings
        classify = stream.get("classify")
        fresh = []
        for i in sorted(failing):
            kid = classify(cases[i], results[i], failing[i]) if classify else None
            if kid and any(k["id"] == kid for k in known):
                known_hits.setdefault(kid, (sname, cases[i], results[i], failing[i]))
            else:
                fresh.append(i)
        # a case that only reproduces a known finding must still agree with the model (which has the finding in it)
        unpinned_mism = [i for i in mism if i not in fresh]
        if fresh:
            i = fresh[0]
            case = cases[i]
            shrink = stream.get("shrink")
            if shrink and replay is None:
                def still(c2):
                    r2, e2 = run_impl(ctx, prop, stream, [c2])
                    if e2:
                        return False
                    if oracle and oracle(c2, r2[0]):
                        return True
                    if stream.get("pinned") and stream.get("coq_obs"):
                        mm, ee = run_model(ctx, prop, stream, [c2], r2)
                        return bool(mm)
                    return False
                try:
                    case = shrink(case, still)
                except Exception as e:  # shrinking is best effort
                    ctx.notes.append("shrink failed: %r" % e)
            r1, _ = run_impl(ctx, prop, stream, [case])
            payload = {"property": pid, "kind": "failing-input", "stream": sname, "case": jsonable(case),
                       "implementation_result": jsonable(r1[0] if r1 else None), "why": failing[i],
                       "other_failing_cases": len(fresh) - 1}
            if stream.get("coq_obs") and not merr:
                payload["model_says"] = model_values(ctx, stream, [case], 1, r1[:1] if r1 else None)
            violations.append(("input", payload, True))
        if unpinned_mism:
            i = unpinned_mism[0]
            payload = {"property": pid, "kind": "correspondence-broken", "stream": sname,
                       "why": "model and implementation disagree on an observable no theorem pins",
                       "case": jsonable(cases[i]), "implementation_result": jsonable(results[i]),
                       "model_says": model_values(ctx, stream, [cases[i]], 1, [results[i]]), "disagreements": len(unpinned_mism)}
            violations.append(("corr", payload, False))
        nt = stream.get("nontrivial", lambda c, r: not isinstance(r, Err))
        for c, r in zip(cases, results):
            if nt(c, r):
                nontrivial_keys.add(hashlib.sha1(repr((sname, jsonable(c))).encode()).hexdigest())
        for c, r in list(zip(cases, results))[:2] + list(zip(cases, results))[-1:]:
            samples.append({"stream": sname, "case": jsonable(c), "implementation_result": jsonable(r)})
        if "stats" in stream:
            try:
                st["distribution"] = stream["stats"](cases, results)
            except Exception as e:
                st["distribution"] = "stats failed: %r" % e
        ev_streams.append(st)

    # 5. verdict
    lines = []
    for k in known:
        if k["id"] in known_hits:
            lines.append("KNOWN-FINDING: property=%s %s" % (pid, k["what"]))
        elif replay is None:
            ctx.notes.append("known finding %s was not reproduced in this run" % k["id"])
    exit_code = 0
    with_input = [v for v in violations if v[2]]
    without = [v for v in violations if not v[2]]
    if with_input:
        for kind, payload, _ in with_input:
            path = write_replay(ctx, kind, payload)
            lines.append("VIOLATION property=%s replay=%s" % (pid, path))
        exit_code = 1
    elif without:
        payload = {"property": pid, "kind": "no-failing-input-found",
                   "broken": [p for _, p, _ in without]}
        path = write_replay(ctx, "unproved", payload)
        lines.append("VIOLATION property=%s replay=%s no-failing-input-found" % (pid, path))
        exit_code = 1

    # 6. evidence
    if replay is None:
        wall = round(time.time() - ctx.t0, 2)
        trusted = ["Coq 8.16.1 kernel (coqc, vm_compute; no native_compute)"] + list(getattr(prop, "TRUSTED", []))
        cov = {
            "obligations": len(obligations),
            "discharged": discharged if proofs_ok else 0,
            "checker_cmd": "make -C coq Props/%s.vo && coqc -R coq V coq/Props/%s.v" % (prop.PROPS, prop.PROPS),
            "trusted_base": trusted,
            "theorems": obligations,
            "axioms": {k: (v or "closed under the global context") for k, v in axioms.items()},
            "proof_state": proof_state,
            "evaluations": total_eval,
            "distinct_nontrivial": len(nontrivial_keys),
            "rule": getattr(prop, "RULE", "cases generated per stream from VERIF_SEED (corpus first); a case counts as "
                                          "non-trivial when the implementation produced a result (not an error) and as "
                                          "distinct by the hash of its canonical input"),
            "samples": samples[:8],
            "streams": ev_streams,
            "known_findings_reproduced": sorted(known_hits),
            "notes": ctx.notes,
        }
        level = prop.LEVEL
        if level == "translation_validation":
            # each case is one "program" (input of the validated function); the proved specification is evaluated on it
            cov["programs"] = total_eval
            cov["disagreements_checked"] = sum(st.get("mismatches", 0) + st.get("oracle_failures", 0) for st in ev_streams)
        ev = {"property_id": pid, "tier": tier, "seed": seed, "level": level, "coverage": cov,
              "assumptions": list(getattr(prop, "ASSUMPTIONS", [])) + [prop.LEVEL_NOTE],
              "wall_s": wall, "violations": len(with_input) + (1 if (without and not with_input) else 0)}
        # runs against a scratch copy of the repository (VERIF_REPO=<mutant>) must not overwrite the
        # evidence of the real tree
        evdir = os.path.join(VERIF, "evidence") if os.path.realpath(repo) == "/repo" else \
            os.path.join(VERIF, ".scratch", "evidence-other-tree")
        os.makedirs(evdir, exist_ok=True)
        with open(os.path.join(evdir, pid + ".json"), "w") as f:
            json.dump(ev, f, indent=1, default=str)
    for l in lines:
        print(l)
    print("%s %s tier=%s seed=%d: %d theorems %s, %d cases, %d stream(s), %.1fs" % (
        pid, "FAIL" if exit_code else "ok", tier, seed, len(obligations),
        "checked" if proofs_ok else "NOT CHECKED", total_eval, len(ev_streams), time.time() - ctx.t0))
    return exit_code


# ----------------------------------------------------------------------------- setup / manifest

def setup():
    """Translate everything, then a full .vo build of the development."""
    for pid in all_prop_ids():
        prop = load_prop(pid)
        if hasattr(prop, "translate"):
            ctx = Ctx(pid, "quick", 0, os.environ.get("VERIF_REPO", "/repo"))
            try:
                for rel, text in prop.translate(ctx).items():
                    write_if_changed(os.path.join(COQ, rel), text)
            except TranslateError as e:
                print("setup: translator for %s failed: %s" % (pid, e))
    with BuildLock():
        regen_makefile()
        p = subprocess.run(["timeout", "3400", "make", "-j16", "-k"], cwd=COQ)
    return p.returncode


def manifest():
    props = {}
    with open(os.path.join(VERIF, "properties.jsonl")) as f:
        for line in f:
            j = json.loads(line)
            props[j["id"]] = j
    have = all_prop_ids()
    checks, na = [], []
    pending = {}
    pp = os.path.join(VERIF, "tools", "pending.json")
    if os.path.exists(pp):
        with open(pp) as f:
            pending = json.load(f)
    for pid in sorted(props):
        if pid in have:
            m = load_prop(pid)
            checks.append({
                "property_id": pid,
                "quick_cmd": "./check %s --tier quick" % pid,
                "thorough_cmd": "./check %s --tier thorough" % pid,
                "evidence_file": "/verif/evidence/%s.json" % pid,
                "replay_cmd_template": "./check %s --replay {path}" % pid,
                "engine": "coq-model+correspondence",
                "level_claimed": {"category": m.LEVEL, "text": m.LEVEL_TEXT, "design_ref": m.DESIGN_REF},
                "level_note": m.LEVEL_NOTE,
                "technique": m.TECHNIQUE,
            })
        else:
            na.append({"property_id": pid, "reason": pending.get(pid, "no check built yet for this property; it is not claimed")})
    man = {
        "version": 1,
        "setup_cmd": "cd /verif && ./check --setup",
        "hooks": {"guard": GUARD, "enable": "no source hooks: the harness sets %s=1 in the processes that import androguard and monkey-patches from there" % GUARD,
                  "baseline_off_cmd": "cd /repo && /venv/bin/python -m pytest -ra -q -p no:cacheprovider --timeout=900 --continue-on-collection-errors",
                  "source_commits": [], "add_only": True},
        "engines": [{"name": "coq-model+correspondence", "path": "/verif/check",
                     "serves_properties": [c["property_id"] for c in checks],
                     "kind_free_text": "Coq 8.16 theorems about executable models (coq/), models regenerated from the source by tools/tr where "
                                       "possible, and a differential correspondence check (implementation vs model evaluated by vm_compute)"}],
        "checks": checks,
        "notes": "See DESIGN.md. ./check <ID> [--tier quick|thorough] [--replay file]; VERIF_SEED, VERIF_TIER, VERIF_REPO are honoured.",
        "not_applicable": na,
    }
    with open(os.path.join(VERIF, "MANIFEST.json"), "w") as f:
        json.dump(man, f, indent=1)
    print("MANIFEST.json: %d checks, %d not claimed" % (len(checks), len(na)))


def main(argv):
    if "--setup" in argv:
        return setup()
    if "--manifest" in argv:
        manifest()
        return 0
    pid = argv[0].upper()
    tier = os.environ.get("VERIF_TIER", "quick")
    replay = None
    i = 1
    while i < len(argv):
        if argv[i] == "--tier":
            tier = argv[i + 1]; i += 2
        elif argv[i] == "--replay":
            with open(argv[i + 1]) as f:
                replay = json.load(f)
            i += 2
        else:
            i += 1
    seed = int(os.environ.get("VERIF_SEED", "0") or 0)
    repo = os.environ.get("VERIF_REPO", "/repo")
    try:
        rc = run_check(pid, tier, seed, repo, replay)
        restore_generated(pid, repo)
        return rc
    except Exception:
        import traceback
        traceback.print_exc()
        print("check machinery failed (internal error)")
        return 2
