"""Small helpers for the implementation side (imported only inside implrun subprocesses)."""
import io


class FakeCM:
    """The only thing the byte-level readers use of a ClassManager is its packer."""

    def __init__(self):
        from androguard.core.dex import DalvikPacker
        self.packer = DalvikPacker(0x12345678)


_cm = None


def cm():
    global _cm
    if _cm is None:
        _cm = FakeCM()
    return _cm


def bio(bs):
    return io.BytesIO(bytes(bs))
