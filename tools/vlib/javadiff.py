"""C21: random structured int/long methods as Dalvik bytecode, an independent interpreter for them, and the
javac-compiled decompiler output as the candidate.

A method = {"ret": "I"|"J", "params": ["I"|"J", ...], "body": [stmt]}.  Registers: i0..i3 = v0..v3 (int), l0, l1 = v4/v5, v6/v7
(long), c0, c1 = v8, v9 (loop counters, int), s0 = v10 (scratch of switch); parameters follow from v11.  Statements:
  ("bin", op, form, dst, a, b|lit)   form in 3 (three registers), 2 (2addr), 16 (lit16), 8 (lit8); int ops on int registers
  ("binl", op, form, dst, a, b)      long ops, form 3 or 2; for shifts b is an int register
  ("un", op, dst, src)               neg-int not-int neg-long not-long int-to-long long-to-int int-to-byte int-to-char int-to-short
  ("const", dst, value)              dst int or long register
  ("cmpl", dst_int, a_long, b_long)
  ("if", cmp, a, b|None, then, else)  cmp in eq ne lt ge gt le; b None = compare with zero; int registers
  ("loop", counter, n, body)         counter = n; while (counter > 0) { body; counter -= 1 }
  ("switch", reg, [case bodies; an int k = the same target as case k], default body)   packed switch on (reg & 3) copied to the scratch register s0 (never a loop counter: a switch inside a loop must not clobber the counter)
  ("ret", reg)
"""
import os
import re
import shutil
import struct
import subprocess
import tempfile

INT_REGS = {"i0": 0, "i1": 1, "i2": 2, "i3": 3, "c0": 8, "c1": 9, "s0": 10}      # s0: scratch of the switch statement
LONG_REGS = {"l0": 4, "l1": 6}
NLOCALS = 11
BINOPS = ["add", "sub", "mul", "div", "rem", "and", "or", "xor", "shl", "shr", "ushr"]
LIT16 = {"add": 0xD0, "rsub": 0xD1, "mul": 0xD2, "div": 0xD3, "rem": 0xD4, "and": 0xD5, "or": 0xD6, "xor": 0xD7}
LIT8 = {"add": 0xD8, "rsub": 0xD9, "mul": 0xDA, "div": 0xDB, "rem": 0xDC, "and": 0xDD, "or": 0xDE, "xor": 0xDF, "shl": 0xE0, "shr": 0xE1, "ushr": 0xE2}
UNOPS = {"neg-int": 0x7B, "not-int": 0x7C, "neg-long": 0x7D, "not-long": 0x7E, "int-to-long": 0x81, "long-to-int": 0x84, "int-to-byte": 0x8D,
         "int-to-char": 0x8E, "int-to-short": 0x8F}
CMPS = {"eq": 0, "ne": 1, "lt": 2, "ge": 3, "gt": 4, "le": 5}
M32, M64 = 2**32, 2**64


def s32(x):
    x &= M32 - 1
    return x - M32 if x >= 2**31 else x


def s64(x):
    x &= M64 - 1
    return x - M64 if x >= 2**63 else x


# ---------------------------------------------------------------------------------------------------------- generation
def gen_method(rng, idx):
    params = [rng.choice("IIJ") for _ in range(rng.randint(1, 3))]
    ret = rng.choice("IIJ")
    regs_i = ["i0", "i1", "i2", "i3"]
    regs_l = ["l0", "l1"]
    pi = ["p%d" % k for k, t in enumerate(params) if t == "I"]
    pl = ["p%d" % k for k, t in enumerate(params) if t == "J"]
    state = {"depth": 0, "counters": ["c0", "c1"]}

    def anyi(write=False):
        return rng.choice(regs_i + ([] if write and rng.random() < 0.7 else pi) or regs_i)

    def anyl(write=False):
        return rng.choice(regs_l + ([] if write and rng.random() < 0.7 else pl) or regs_l)

    def stmt():
        r = rng.random()
        if r < 0.34:
            op = rng.choice(BINOPS)
            form = rng.choice((3, 3, 2, 16, 8))
            if form == 16 and op not in LIT16 or form == 8 and op not in LIT8:
                form = 3
            dst = anyi(True)
            if form == 2:
                return ("bin", op, 2, dst, dst, anyi())
            if form in (16, 8):
                if rng.random() < 0.15 and op in ("add", "mul", "and", "or", "xor") or op == "sub":
                    op = "rsub" if op in ("add", "sub") else op
                lim = 2**15 if form == 16 else 2**7
                lit = rng.choice((0, 1, -1, 2, 3, 7, -7, 31, 32, 33, -lim, lim - 1, rng.randrange(-lim, lim)))
                if op == "sub":
                    op = "rsub"
                return ("bin", op, form, dst, anyi(), lit)
            return ("bin", op, 3, dst, anyi(), anyi())
        if r < 0.5:
            op = rng.choice(BINOPS)
            dst = anyl(True)
            b = anyi() if op in ("shl", "shr", "ushr") else anyl()
            if rng.random() < 0.3:
                return ("binl", op, 2, dst, dst, b)
            return ("binl", op, 3, dst, anyl(), b)
        if r < 0.62:
            op = rng.choice(list(UNOPS))
            if op in ("neg-int", "not-int", "int-to-byte", "int-to-char", "int-to-short"):
                return ("un", op, anyi(True), anyi())
            if op in ("neg-long", "not-long"):
                return ("un", op, anyl(True), anyl())
            if op == "int-to-long":
                return ("un", op, anyl(True), anyi())
            return ("un", op, anyi(True), anyl())
        if r < 0.7:
            if rng.random() < 0.6:
                return ("const", rng.choice(regs_i), rng.choice((0, 1, -1, 7, -8, 100, 32767, -32768, 65536, 2**31 - 1, -2**31, rng.randrange(-2**31, 2**31))))
            return ("const", rng.choice(regs_l), rng.choice((0, 1, -1, 32767, -32768, 2**31 - 1, -2**31, 2**31, 2**63 - 1, -2**63, rng.randrange(-2**63, 2**63))))
        if r < 0.75:
            return ("cmpl", rng.choice(regs_i), anyl(), anyl())
        if state["depth"] >= 2:
            return stmt_simple()
        if r < 0.88:
            state["depth"] += 1
            s = ("if", rng.choice(list(CMPS)), anyi(), anyi() if rng.random() < 0.6 else None, block(rng.randint(1, 3)), block(rng.randint(0, 2)))
            state["depth"] -= 1
            return s
        if r < 0.95 and state["counters"]:
            c = state["counters"].pop()
            state["depth"] += 1
            s = ("loop", c, rng.randint(1, 4), block(rng.randint(1, 3)))
            state["depth"] -= 1
            state["counters"].append(c)
            return s
        state["depth"] += 1
        cases = [block(rng.randint(1, 2)) for _ in range(rng.randint(1, 3))]
        if len(cases) < 4 and rng.random() < 0.4:                   # two keys with one target block
            cases.insert(rng.randint(1, len(cases)), rng.randrange(0, 1))
        s = ("switch", anyi(), cases, block(rng.randint(0, 1)))
        state["depth"] -= 1
        return s

    def stmt_simple():
        return ("bin", rng.choice(("add", "xor", "mul")), 3, rng.choice(regs_i), anyi(), anyi())

    def block(n):
        return [stmt() for _ in range(n)]
    body = [("const", r, rng.choice((0, 1, 5, -3))) for r in regs_i] + [("const", r, rng.choice((0, 2, -9))) for r in regs_l]
    body += block(rng.randint(2, 8))
    body.append(("ret", rng.choice(regs_i + pi) if ret == "I" else rng.choice(regs_l + pl)))
    return {"name": "m%d" % idx, "ret": ret, "params": params, "body": body}


def gen_pattern(rng, idx):
    """a single-use temporary computed from a parameter, the parameter overwritten on some paths only, the temporary used after the join"""
    wide = rng.random() < 0.3
    pt = "J" if wide else "I"
    t, u = ("l0", "l1") if wide else ("i0", "i1")
    k = "binl" if wide else "bin"
    op1, op2, op3 = rng.choice(("add", "xor", "mul")), rng.choice(("mul", "add", "shr", "xor")), rng.choice(("xor", "add", "sub", "and"))
    first = (k, op1, 3, t, "p0", "p0") if wide else ("bin", op1, 8, t, "p0", rng.choice((1, 3, -2)))
    over = (k, op2, 2, "p0", "p0", "p1" if op2 == "shr" and wide else "p0") if wide else ("bin", op2, 8, "p0", "p0", rng.choice((1, 2, 3)))
    use = (k, op3, 3, u, t, "p0")
    shape = rng.choice(("if", "if", "loop"))
    body = [("const", r, 0) for r in ("i0", "i1", "i2", "i3")] + [("const", r, 0) for r in ("l0", "l1")]
    if shape == "if":
        body += [first, ("if", rng.choice(("gt", "ne", "lt")), "p1", None, [over], []), use]
    else:
        body += [("loop", "c0", rng.randint(2, 3), [first, ("if", "ne", "p1", None, [over], []), use])]
    body.append(("ret", u))
    return {"name": "m%d" % idx, "ret": pt, "params": [pt, "I"], "body": body}


def gen_cast_chain(rng, idx):
    """two conversions in a row through a single-use temporary, every pair of byte / short / char (and int-long-int around
    them): a writer that drops the outer or the inner cast changes the value for arguments with bit 7 or bit 15 set"""
    narrow = ("int-to-byte", "int-to-short", "int-to-char")
    a, b = rng.choice(narrow), rng.choice(narrow)
    body = [("const", r, 0) for r in ("i0", "i1", "i2", "i3")] + [("const", r, 0) for r in ("l0", "l1")]
    body += [("un", a, "i0", "p0"), ("un", b, "i1", "i0")]
    if rng.random() < 0.3:
        body += [("un", rng.choice(narrow), "i2", "i1"), ("bin", "add", 3, "i1", "i2", "i3")]
    body.append(("ret", "i1"))
    return {"name": "m%d" % idx, "ret": "I", "params": ["I"], "body": body}


def gen_switch_shared(rng, idx):
    """a packed switch in which two or three keys lead to the same block, with and without a default that assigns"""
    body = [("const", r, 0) for r in ("i0", "i1", "i2", "i3")] + [("const", r, 0) for r in ("l0", "l1")]
    a = [("bin", "add", 8, "i0", "p1", rng.choice((1, 2, 3)))]
    b = [("bin", "mul", 8, "i0", "p1", rng.choice((5, 7, 11)))]
    c = [("bin", "xor", 16, "i0", "p1", rng.choice((1000, 77)))]
    shape = rng.choice(([a, 0, b], [a, b, 1], [a, 0, 0, b], [a, b, 0, c], [a, 0]))
    default = rng.choice(([], [("const", "i0", rng.choice((15, -4)))]))
    body += [("switch", "p0", shape, default), ("ret", "i0")]
    return {"name": "m%d" % idx, "ret": "I", "params": ["I", "I"], "body": body}


def gen_shared_const(rng, idx):
    """a negative constant in a register used by two or more instructions, one of them an addition or subtraction with the
    constant as second operand: whatever the writer does to print `x + -5` nicely must not touch the other uses"""
    k = rng.choice((-5, -100, -1, -70000, -32768, -2147483648, 7))
    body = [("const", r, 0) for r in ("i0", "i1", "i3")] + [("const", r, 0) for r in ("l0", "l1")] + [("const", "i2", k)]
    first = ("bin", rng.choice(("add", "sub")), 3, "i0", "p0", "i2")
    other = rng.choice((("bin", "mul", 3, "i1", "p1", "i2"), ("bin", "and", 3, "i1", "p1", "i2"), ("bin", "sub", 3, "i1", "i2", "p1"),
                        ("bin", "add", 3, "i1", "p1", "i2"), ("bin", "xor", 3, "i1", "i2", "p1")))
    body += [first, other] if rng.random() < 0.7 else [other, first]
    if rng.random() < 0.5:
        body.append(("if", rng.choice(("lt", "ge")), "p1", "i2", [("bin", "add", 8, "i1", "i1", 1)], []))
    body += [("bin", "xor", 3, "i0", "i0", "i1"), ("ret", "i0")]
    return {"name": "m%d" % idx, "ret": "I", "params": ["I", "I"], "body": body}


def gen_dowhile(rng, idx):
    """a do-while loop whose exit test has three to five terms joined by && (flat code: the body, then a chain of conditional
    branches, the last one back to the top), with or without an if/else in the body"""
    n = rng.choice((3, 4, 4, 5))
    flat = [("const", r, 0) for r in ("i0", "i1", "i2", "i3")] + [("const", r, 0) for r in ("l0", "l1")] + [("const", "c0", rng.choice((2, 3)))]
    flat += [("label", "T"), ("bin", "add", 3, "i0", "i0", "p0"), ("bin", "add", 8, "c0", "c0", -1)]
    if rng.random() < 0.5:
        flat += [("br", "lt", "p1", None, "X"), ("bin", "xor", 16, "i0", "i0", 77), ("goto", "Y"), ("label", "X"), ("bin", "add", 8, "i0", "i0", 1), ("label", "Y")]
    terms = [("le", "c0", None)] + [(rng.choice(("eq", "lt")), rng.choice(("p1", "p2", "p3")), None) for _ in range(n - 2)]
    for cmp_, a, b in terms:
        flat.append(("br", cmp_, a, b, "E"))                 # leave the loop when a term fails
    flat += [("br", rng.choice(("ne", "ge")), rng.choice(("p1", "p2", "p3")), None, "T"), ("label", "E"), ("ret", "i0")]
    return {"name": "m%d" % idx, "ret": "I", "params": ["I", "I", "I", "I"], "flat": flat}


def gen_const_fold(rng, idx):
    """operations whose operands are compile-time constants (const + literal forms, const + const), accumulated into the result:
    whatever the decompiler folds or propagates has to keep Dalvik's arithmetic (truncating division, sign of the remainder,
    wrap-around, shift counts)"""
    body = [("const", r, 0) for r in ("i0", "i1", "i2", "i3")] + [("const", r, 0) for r in ("l0", "l1")]
    ks = (-7, 7, -1, 1, -32768, 2147483647, -2147483648, 5, 100, -100, 0, 65535)
    for _ in range(rng.randint(3, 6)):
        k = rng.choice(ks)
        r = rng.random()
        if r < 0.45:
            op = rng.choice(("div", "rem", "div", "rem", "add", "rsub", "mul", "and", "or", "xor", "shl", "shr", "ushr"))
            lit = rng.choice((2, -2, 3, -3, 100, 127, -128, 1, -1, 31, 33))
            if op in ("shl", "shr", "ushr"):
                lit = rng.choice((1, 5, 31, 33, -1))
            body += [("const", "i0", k), ("bin", op, 8, "i1", "i0", lit)]
        elif r < 0.7:
            op = rng.choice(("div", "rem", "add", "rsub", "mul", "and", "or", "xor"))
            body += [("const", "i0", k), ("bin", op, 16, "i1", "i0", rng.choice((2, -2, 1000, -1000, 32767, -32768, 7, -7)))]
        else:
            op = rng.choice(("div", "rem", "div", "rem", "sub", "mul", "shl", "shr", "ushr", "add"))
            body += [("const", "i0", k), ("const", "i3", rng.choice((2, -2, 3, -3, 33, -1, 7, 100))), ("bin", op, 3, "i1", "i0", "i3")]
        body += [("bin", "mul", 8, "i2", "i2", 31), ("bin", "add", 3, "i2", "i2", "i1")]
    body.append(("ret", "i2"))
    return {"name": "m%d" % idx, "ret": "I", "params": ["I"], "body": body}


# ---------------------------------------------------------------------------------------------------------- assembling
def regmap(m):
    r = dict(INT_REGS)
    r.update(LONG_REGS)
    at = NLOCALS
    for k, t in enumerate(m["params"]):
        r["p%d" % k] = at
        at += 2 if t == "J" else 1
    return r, at


def assemble(m):
    """-> (units, flat instruction list for the interpreter).  Branch targets are resolved in two passes."""
    R, nregs = regmap(m)
    ins = []          # ("op", ...) or ("label", name)
    counter = [0]

    def lab():
        counter[0] += 1
        return "L%d" % counter[0]

    def emit_block(b):
        for s in b:
            emit(s)

    def emit(s):
        k = s[0]
        if k in ("bin", "binl", "un", "const", "cmpl", "ret"):
            ins.append(s)
        elif k == "if":
            _, cmp_, a, b, th, el = s
            l_else, l_end = lab(), lab()
            neg = {"eq": "ne", "ne": "eq", "lt": "ge", "ge": "lt", "gt": "le", "le": "gt"}[cmp_]
            ins.append(("br", neg, a, b, l_else))
            emit_block(th)
            ins.append(("goto", l_end))
            ins.append(("label", l_else))
            emit_block(el)
            ins.append(("label", l_end))
        elif k == "loop":
            _, c, n, body = s
            l_top, l_end = lab(), lab()
            ins.append(("const", c, n))
            ins.append(("label", l_top))
            ins.append(("br", "le", c, None, l_end))
            emit_block(body)
            ins.append(("bin", "add", 8, c, c, -1))
            ins.append(("goto", l_top))
            ins.append(("label", l_end))
        elif k == "switch":
            _, reg, cases, default = s
            labs = []
            for body in cases:                       # a case given as an int shares the target of that earlier case
                labs.append(labs[body] if isinstance(body, int) else lab())
            l_end = lab()
            ins.append(("bin", "and", 8, "s0", reg, 3))
            ins.append(("pswitch", "s0", labs))
            emit_block(default)
            ins.append(("goto", l_end))
            for lb, body in zip(labs, cases):
                if isinstance(body, int):
                    continue
                ins.append(("label", lb))
                emit_block(body)
                ins.append(("goto", l_end))
            ins.append(("label", l_end))
    if "flat" in m:
        ins.extend(m["flat"])          # C22: a ready-made flat list (labels, br, goto, ...) for unstructured control flow
    else:
        emit_block(m["body"])

    def size(i):
        k = i[0]
        if k == "label":
            return 0
        if k == "bin":
            return 1 if i[2] == 2 else 2
        if k == "binl":
            return 1 if i[2] == 2 else 2
        if k == "un":
            return 1
        if k == "const":
            return 5 if i[1] in LONG_REGS else 3
        if k == "cmpl":
            return 2
        if k == "br":
            return 2
        if k == "goto":
            return 2
        if k == "pswitch":
            return 3
        if k == "ret":
            return 1
        raise ValueError(k)
    # layout
    pos, at, payloads = {}, 0, []
    for i in ins:
        if i[0] == "label":
            pos[i[1]] = at
        at += size(i)
    # payloads after the code (the last instruction is a return), 4-byte aligned
    pay_at = {}
    for n, i in enumerate(ins):
        if i[0] == "pswitch":
            if at % 2:
                at += 1
            pay_at[n] = at
            at += 4 + 2 * len(i[2])
    units, addr = [], 0
    u16 = lambda x: x & 0xFFFF
    for n, i in enumerate(ins):
        k = i[0]
        if k == "label":
            continue
        if k == "bin":
            _, op, form, dst, a, b = i
            if form == 3:
                units += [0x90 + BINOPS.index(op) | R[dst] << 8, R[a] | R[b] << 8]
            elif form == 2:
                units += [0xB0 + BINOPS.index(op) | R[dst] << 8 | R[b] << 12]
            elif form == 16:
                units += [LIT16[op] | R[dst] << 8 | R[a] << 12, u16(b)]
            else:
                units += [LIT8[op] | R[dst] << 8, R[a] | (b & 0xFF) << 8]
        elif k == "binl":
            _, op, form, dst, a, b = i
            if form == 3:
                units += [0x9B + BINOPS.index(op) | R[dst] << 8, R[a] | R[b] << 8]
            else:
                units += [0xBB + BINOPS.index(op) | R[dst] << 8 | R[b] << 12]
        elif k == "un":
            units += [UNOPS[i[1]] | R[i[2]] << 8 | R[i[3]] << 12]
        elif k == "const":
            v = i[2]
            if i[1] in LONG_REGS:
                units += [0x18 | R[i[1]] << 8] + list(struct.unpack("<4H", struct.pack("<q", v)))
            else:
                units += [0x14 | R[i[1]] << 8] + list(struct.unpack("<2H", struct.pack("<i", v)))
        elif k == "cmpl":
            units += [0x31 | R[i[1]] << 8, R[i[2]] | R[i[3]] << 8]
        elif k == "br":
            _, cmp_, a, b, lb = i
            off = pos[lb] - addr
            if b is None:
                units += [0x38 + CMPS[cmp_] | R[a] << 8, u16(off)]
            else:
                units += [0x32 + CMPS[cmp_] | R[a] << 8 | R[b] << 12, u16(off)]
        elif k == "goto":
            units += [0x29, u16(pos[i[1]] - addr)]
        elif k == "pswitch":
            off = pay_at[n] - addr
            units += [0x2B | R[i[1]] << 8, off & 0xFFFF, (off >> 16) & 0xFFFF]
        elif k == "ret":
            units += [(0x10 if m["ret"] == "J" else 0x0F) | R[i[1]] << 8]
        addr += size(i)
    for n, i in enumerate(ins):
        if i[0] == "pswitch":
            while len(units) < pay_at[n]:
                units.append(0)
            src = sum(size(x) for x in ins[:n])
            units += [0x0100, len(i[2]), 0, 0]
            for lb in i[2]:
                off = pos[lb] - src
                units += [off & 0xFFFF, (off >> 16) & 0xFFFF]
    return units, ins, nregs


# ---------------------------------------------------------------------------------------------------------- reference semantics
class Arith(Exception):
    pass


def interpret(m, args):
    """the value the bytecode returns, or "ArithmeticException" - an interpreter over the flat instruction list"""
    _, ins, _ = assemble(m)
    regs = {}
    for k, (t, v) in enumerate(zip(m["params"], args)):
        regs["p%d" % k] = v
    labels = {i[1]: n for n, i in enumerate(ins) if i[0] == "label"}
    pc, steps = 0, 0

    def binop(op, a, b, wide):
        bits, wrap = (64, s64) if wide else (32, s32)
        if op == "add":
            return wrap(a + b)
        if op == "sub":
            return wrap(a - b)
        if op == "rsub":
            return wrap(b - a)
        if op == "mul":
            return wrap(a * b)
        if op in ("div", "rem"):
            if b == 0:
                raise Arith()
            q = abs(a) // abs(b)
            if (a < 0) != (b < 0):
                q = -q
            return wrap(q) if op == "div" else wrap(a - q * b)
        if op == "and":
            return wrap(a & b)
        if op == "or":
            return wrap(a | b)
        if op == "xor":
            return wrap(a ^ b)
        sh = b & (bits - 1)
        if op == "shl":
            return wrap(a << sh)
        if op == "shr":
            return wrap(a >> sh)
        return wrap((a & (2**bits - 1)) >> sh)
    try:
        while True:
            steps += 1
            if steps > 100000:
                return "LOOP"
            i = ins[pc]
            k = i[0]
            pc += 1
            if k == "label":
                continue
            if k == "bin":
                _, op, form, dst, a, b = i
                bv = b if form in (16, 8) else regs[b]
                regs[dst] = binop(op, regs[a], bv, False)
            elif k == "binl":
                _, op, form, dst, a, b = i
                regs[dst] = binop(op, regs[a], regs[b], True)
            elif k == "un":
                _, op, dst, src = i
                v = regs[src]
                regs[dst] = {"neg-int": lambda: s32(-v), "not-int": lambda: s32(~v), "neg-long": lambda: s64(-v), "not-long": lambda: s64(~v),
                             "int-to-long": lambda: v, "long-to-int": lambda: s32(v), "int-to-byte": lambda: ((v & 0xFF) ^ 0x80) - 0x80,
                             "int-to-char": lambda: v & 0xFFFF, "int-to-short": lambda: ((v & 0xFFFF) ^ 0x8000) - 0x8000}[op]()
            elif k == "const":
                regs[i[1]] = i[2]
            elif k == "cmpl":
                a, b = regs[i[2]], regs[i[3]]
                regs[i[1]] = (a > b) - (a < b)
            elif k == "br":
                _, cmp_, a, b, lb = i
                x, y = regs[a], (0 if b is None else regs[b])
                if {"eq": x == y, "ne": x != y, "lt": x < y, "ge": x >= y, "gt": x > y, "le": x <= y}[cmp_]:
                    pc = labels[lb]
            elif k == "goto":
                pc = labels[i[1]]
            elif k == "pswitch":
                v = regs[i[1]]
                if 0 <= v < len(i[2]):
                    pc = labels[i[2][v]]
            elif k == "ret":
                return regs[i[1]]
    except Arith:
        return "ArithmeticException"


# ---------------------------------------------------------------------------------------------------------- the candidate
def build_dex(methods):
    from tools.writers.dexwriter import DexBuilder, Code
    b = DexBuilder()
    k = b.add_class("Lt/T;")
    for m in methods:
        units, _, nregs = assemble(m)
        nins = nregs - NLOCALS
        k.add_method(m["name"], m["ret"], tuple(m["params"]), access=0x9, direct=True, code=Code(nregs, nins, 0, units))
    return b.build()


def decompile(raw):
    from androguard.core.dex import DEX
    from androguard.core.analysis.analysis import Analysis
    from androguard.decompiler.decompile import DvClass
    d = DEX(raw)
    dx = Analysis(d)
    dx.create_xref()
    dc = DvClass(d.get_classes()[0], dx)
    dc.process()
    return dc.get_source()


def jlit(t, v):
    return "%dL" % v if t == "J" else str(v)


def run_java(source, methods, argsets):
    """compile the decompiled class and call every method on every argument tuple: -> {name: [results]} or an error text"""
    top = tempfile.mkdtemp(prefix="c21-", dir=os.environ.get("VERIF_TMP", "/var/tmp"))
    try:
        os.makedirs(os.path.join(top, "t"))
        with open(os.path.join(top, "t", "T.java"), "w") as f:
            f.write(source)
        drv = ["public class Driver { public static void main(String[] a) {"]
        for m in methods:
            for args in argsets[m["name"]]:
                call = "t.T.%s(%s)" % (m["name"], ", ".join(jlit(t, v) for t, v in zip(m["params"], args)))
                drv.append('try { System.out.println("%s " + %s); } catch (ArithmeticException e) { System.out.println("%s ArithmeticException"); }' % (
                    m["name"], call, m["name"]))
        drv.append("} }")
        with open(os.path.join(top, "Driver.java"), "w") as f:
            f.write("\n".join(drv))
        env = dict(os.environ, JAVA_TOOL_OPTIONS="-Xshare:auto")
        p = subprocess.run(["javac", "-nowarn", "-d", top, os.path.join(top, "t", "T.java"), os.path.join(top, "Driver.java")],
                           capture_output=True, text=True, timeout=120, env=env)
        if p.returncode != 0:
            return "javac: " + re.sub(r"/var/tmp/c21-\w+/", "", p.stderr)[:800]
        p = subprocess.run(["java", "-Xss4m", "-cp", top, "Driver"], capture_output=True, text=True, timeout=120, env=env)
        if p.returncode != 0:
            return "java: " + p.stderr[:600]
        out = {m["name"]: [] for m in methods}
        for line in p.stdout.splitlines():
            nm, v = line.split(" ", 1)
            out[nm].append(v if v == "ArithmeticException" else int(v))
        return out
    finally:
        shutil.rmtree(top, ignore_errors=True)
