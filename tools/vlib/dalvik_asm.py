"""A tiny Dalvik assembler for control-flow shapes, independent of androguard.

A method body is a list of items; targets are given as ("i", item index) or ("u", signed offset in 16-bit units relative to
the instruction that uses it).

  ("plain", n)               an ordinary instruction of n units, n in 1, 2, 3, 5  (nop/const4, const/16, const, const-wide)
  ("exit", k)                k in 0, 1, 2: return-void, return v0, throw v0
  ("goto", w, tgt)           w in 1, 2, 3: goto, goto/16, goto/32
  ("if", z, tgt)             z False: if-eq v0, v0 ; True: if-eqz v0
  ("switch", packed, tgt)    packed-switch / sparse-switch v0, payload at tgt
  ("fill", tgt)              fill-array-data v0, payload at tgt
  ("ppay", owner, first_key, [tgt...])   packed-switch-payload; targets relative to the switch at item index owner
  ("spay", owner, [tgt...])              sparse-switch-payload (keys 0, 10, 20, ...)
  ("fpay", width, n)                     fill-array-data-payload
  ("align",)                 a nop if needed so that the next item starts on a 4-byte boundary

layout(items) -> unit offset of every item (and the total);  assemble(items) -> list of 16-bit units;
describe(items) -> [(length in bytes, kind tuple)] per emitted instruction, kind tuple being
  ("plain",) ("exit",) ("goto", off) ("if", off) ("switch", off) ("fill", off) ("spayload", [targets]) ("fpayload",)
with offsets in units relative to the instruction, exactly as encoded.
"""


def size(it, at):
    k = it[0]
    if k == "plain":
        return it[1]
    if k == "exit":
        return 1
    if k == "goto":
        return it[1]
    if k == "if":
        return 2
    if k in ("switch", "fill"):
        return 3
    if k == "ppay":
        return 4 + 2 * len(it[3])
    if k == "spay":
        return 2 + 4 * len(it[2])
    if k == "fpay":
        return 4 + (it[1] * it[2] + 1) // 2
    if k == "align":
        return at % 2
    raise ValueError(k)


def layout(items):
    offs, at = [], 0
    for it in items:
        offs.append(at)
        at += size(it, at)
    return offs, at


def _rel(tgt, here, offs, total):
    if tgt[0] == "u":
        return tgt[1]
    i = tgt[1]
    return (offs[i] if i < len(offs) else total) - here


def _u32(v):
    v &= 0xFFFFFFFF
    return [v & 0xFFFF, v >> 16]


def assemble(items):
    offs, total = layout(items)
    units, desc = [], []
    for n, it in enumerate(items):
        here = offs[n]
        k = it[0]
        if k == "plain":
            u = {1: [0x0012], 2: [0x0013, 0x0001], 3: [0x0014, 0x0002, 0x0000], 5: [0x0018, 3, 0, 0, 0]}[it[1]]
            d = ("plain",)
        elif k == "exit":
            u = [[0x000E], [0x000F], [0x0027]][it[1]]
            d = ("exit",)
        elif k == "goto":
            r = _rel(it[2], here, offs, total)
            if it[1] == 1:
                r = ((r + 128) % 256) - 128
                u = [0x28 | ((r & 0xFF) << 8)]
            elif it[1] == 2:
                r = ((r + 32768) % 65536) - 32768
                u = [0x0029, r & 0xFFFF]
            else:
                u = [0x002A] + _u32(r)
            d = ("goto", r)
        elif k == "if":
            r = _rel(it[2], here, offs, total)
            r = ((r + 32768) % 65536) - 32768
            u = [0x0038 if it[1] else 0x0032, r & 0xFFFF]
            d = ("if", r)
        elif k == "switch":
            r = _rel(it[2], here, offs, total)
            u = [0x002B if it[1] else 0x002C] + _u32(r)
            d = ("switch", r)
        elif k == "fill":
            r = _rel(it[1], here, offs, total)
            u = [0x0026] + _u32(r)
            d = ("fill", r)
        elif k == "ppay":
            owner = offs[it[1]]
            ts = [_rel(t, owner, offs, total) for t in it[3]]
            u = [0x0100, len(ts)] + _u32(it[2])
            for t in ts:
                u += _u32(t)
            d = ("spayload", ts)
        elif k == "spay":
            owner = offs[it[1]]
            ts = [_rel(t, owner, offs, total) for t in it[2]]
            u = [0x0200, len(ts)]
            for j in range(len(ts)):
                u += _u32(j * 10)
            for t in ts:
                u += _u32(t)
            d = ("spayload", ts)
        elif k == "fpay":
            nbytes = it[1] * it[2]
            data = [(7 * j + 1) & 0xFF for j in range(nbytes)] + [0] * (nbytes % 2)
            u = [0x0300, it[1]] + _u32(it[2]) + [data[2 * j] | (data[2 * j + 1] << 8) for j in range(len(data) // 2)]
            d = ("fpayload",)
        elif k == "align":
            if here % 2 == 0:
                continue
            u = [0x0000]
            d = ("plain",)
        else:
            raise ValueError(k)
        assert len(u) == size(it, here), (it, len(u))
        units += u
        desc.append((2 * len(u), d))
    return units, desc
