"""Runs the implementation side of one correspondence stream in a separate process.

usage: python -m tools.vlib.implrun <props module> <stream name> <cases.pickle> <results.pickle>

The process is started by the driver with PYTHONPATH=<repo under test>:/verif, a fixed
PYTHONHASHSEED and the hook guard set.  Every case is run under an alarm; an exception becomes
the canonical value Err(<class name>).
"""
import importlib
import os
import pickle
import signal
import sys
import traceback

from tools.vlib.coqfmt import Err


class CaseTimeout(Exception):
    pass


def _alarm(signum, frame):
    raise CaseTimeout()


def quiet():
    try:
        from loguru import logger
        logger.remove()
    except Exception:
        pass
    import logging
    logging.disable(logging.CRITICAL)


def main():
    modname, sname, fin, fout = sys.argv[1:5]
    quiet()
    repo = os.environ.get("VERIF_REPO", "/repo")
    import androguard
    here = os.path.realpath(os.path.dirname(androguard.__file__))
    want = os.path.realpath(os.path.join(repo, "androguard"))
    if here != want:
        sys.stderr.write("implrun: androguard imported from %s, expected %s\n" % (here, want))
        sys.exit(3)
    mod = importlib.import_module("tools.props." + modname)
    stream = [s for s in mod.STREAMS if s["name"] == sname][0]
    impl = stream["impl"]
    limit = int(stream.get("case_timeout", 20))
    with open(fin, "rb") as f:
        cases = pickle.load(f)
    setup = stream.get("impl_setup")
    state = setup() if setup else None
    signal.signal(signal.SIGALRM, _alarm)
    out = []
    for c in cases:
        signal.alarm(limit)
        try:
            r = impl(c, state) if setup else impl(c)
        except CaseTimeout:
            # wall-clock alarm: on a machine busy with other work a harmless case can overrun it.  The case is run once more
            # with three times the limit; only if it overruns that too it counts as not ending (a loop that does not end still does not).
            signal.alarm(3 * limit)
            try:
                r = impl(c, state) if setup else impl(c)
            except CaseTimeout:
                r = Err("Timeout")
            except RecursionError as e:
                r = Err("RecursionError", str(e))
            except BaseException as e:  # noqa: BLE001
                if isinstance(e, (KeyboardInterrupt, SystemExit)):
                    raise
                r = Err(type(e).__name__, "".join(traceback.format_exception_only(type(e), e))[-300:])
        except RecursionError as e:
            r = Err("RecursionError", str(e))
        except BaseException as e:  # noqa
            if isinstance(e, (KeyboardInterrupt, SystemExit)):
                raise
            name = type(e).__name__
            r = Err(name, "".join(traceback.format_exception_only(type(e), e))[-300:])
        finally:
            signal.alarm(0)
        out.append(r)
    with open(fout, "wb") as f:
        pickle.dump(out, f)


if __name__ == "__main__":
    main()
