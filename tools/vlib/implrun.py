"""Runs the implementation side of one correspondence stream in a separate process.

usage: python -m tools.vlib.implrun <props module> <stream name> <cases.pickle> <results.pickle>

The process is started by the driver with PYTHONPATH=<repo under test>:/verif, a fixed
PYTHONHASHSEED and the hook guard set.  Every case is run under an alarm; an exception becomes
the canonical value Err(<class name>).
"""
import importlib
import os
import pickle
import signal
import sys
import traceback

from tools.vlib.coqfmt import Err


class CaseTimeout(BaseException):
    """not an Exception: code under test that catches Exception (or a logging sink that swallows what is raised inside it) must
    not be able to swallow the alarm; the timer also repeats every second until the exception has got out"""


def _alarm(signum, frame):
    raise CaseTimeout()


def quiet():
    try:
        from loguru import logger
        logger.remove()
    except Exception:
        pass
    import logging
    logging.disable(logging.CRITICAL)


def main():
    modname, sname, fin, fout = sys.argv[1:5]
    quiet()
    repo = os.environ.get("VERIF_REPO", "/repo")
    import androguard
    here = os.path.realpath(os.path.dirname(androguard.__file__))
    want = os.path.realpath(os.path.join(repo, "androguard"))
    if here != want:
        sys.stderr.write("implrun: androguard imported from %s, expected %s\n" % (here, want))
        sys.exit(3)
    mod = importlib.import_module("tools.props." + modname)
    stream = [s for s in mod.STREAMS if s["name"] == sname][0]
    impl = stream["impl"]
    limit = int(stream.get("case_timeout", 20))
    with open(fin, "rb") as f:
        cases = pickle.load(f)
    setup = stream.get("impl_setup")
    state = setup() if setup else None
    signal.signal(signal.SIGALRM, _alarm)
    out = []
    confirmed = 0      # cases that overran the limit and three times the limit
    short = 0          # further cases that overran the short limit
    for c in cases:
        if short >= 20:
            # more than twenty inputs of this run do not end: the remaining ones are not run any more (the run has failed;
            # the first failing input is what the report replays)
            out.append(Err("Timeout"))
            continue
        if confirmed >= 2:
            # two cases of this run have been shown not to end: the run fails whatever the rest does, so the rest is given a
            # short limit and no second chance (otherwise every further looping case costs four times the limit)
            signal.setitimer(signal.ITIMER_REAL, max(1, min(5, limit // 10)), 1.0)
            try:
                r = impl(c, state) if setup else impl(c)
            except CaseTimeout:
                r = Err("Timeout")
                short += 1
            except RecursionError as e:
                r = Err("RecursionError", str(e))
            except BaseException as e:  # noqa: BLE001
                if isinstance(e, (KeyboardInterrupt, SystemExit)):
                    raise
                r = Err(type(e).__name__, "".join(traceback.format_exception_only(type(e), e))[-300:])
            finally:
                signal.setitimer(signal.ITIMER_REAL, 0)
            out.append(r)
            continue
        signal.setitimer(signal.ITIMER_REAL, limit, 1.0)
        try:
            r = impl(c, state) if setup else impl(c)
        except CaseTimeout:
            # wall-clock alarm: on a machine busy with other work a harmless case can overrun it.  The case is run once more
            # with three times the limit; only if it overruns that too it counts as not ending (a loop that does not end still does not).
            signal.setitimer(signal.ITIMER_REAL, 3 * limit, 1.0)
            try:
                r = impl(c, state) if setup else impl(c)
            except CaseTimeout:
                r = Err("Timeout")
                confirmed += 1
            except RecursionError as e:
                r = Err("RecursionError", str(e))
            except BaseException as e:  # noqa: BLE001
                if isinstance(e, (KeyboardInterrupt, SystemExit)):
                    raise
                r = Err(type(e).__name__, "".join(traceback.format_exception_only(type(e), e))[-300:])
        except RecursionError as e:
            r = Err("RecursionError", str(e))
        except BaseException as e:  # noqa
            if isinstance(e, (KeyboardInterrupt, SystemExit)):
                raise
            name = type(e).__name__
            r = Err(name, "".join(traceback.format_exception_only(type(e), e))[-300:])
        finally:
            signal.setitimer(signal.ITIMER_REAL, 0)
        out.append(r)
    with open(fout, "wb") as f:
        pickle.dump(out, f)


if __name__ == "__main__":
    main()
