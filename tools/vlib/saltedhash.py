"""C22: controllable hashes for the decompiler's nodes and IR objects (installed from the harness process only).

Node, Interval and IRForm objects hash by address; a Python set of them is walked in an order that depends on the memory
layout.  With these hashes the order depends on a salt instead, so one process can replay many layouts: the k-th object that
is hashed after reset(salt) gets crc32(salt, k)."""
import zlib

STATE = {"salt": 0, "count": 0, "epoch": 0}


def _hash(self):
    k = self.__dict__.get("_vk")
    if k is None or k[0] != STATE["epoch"]:
        STATE["count"] += 1
        k = self.__dict__["_vk"] = (STATE["epoch"], STATE["count"])
    return zlib.crc32(b"%d:%d" % (STATE["salt"], k[1]))


def install():
    from androguard.decompiler import node as N, instruction as I
    N.Node.__hash__ = _hash
    N.Interval.__hash__ = _hash
    I.IRForm.__hash__ = _hash


def reset(salt):
    STATE["salt"] = salt
    STATE["count"] = 0
    STATE["epoch"] += 1
