"""Rendering of Python values as Coq terms (Z, lists, the universal `val` type of Lib/Val.v)."""

ERR_CODES = {
    "Other": 0, "StructError": 1, "error": 1, "InvalidInstruction": 2, "ValueError": 3,
    "IndexError": 4, "KeyError": 5, "TypeError": 6, "OutOfFuel": 7, "EOFError": 8,
    "ResParserError": 9, "FileNotPresent": 10, "RecursionError": 11, "Timeout": 12,
    "UnicodeDecodeError": 13, "UnicodeEncodeError": 13, "UnicodeError": 13,
    "AssertionError": 14, "BrokenAPKError": 15, "OverflowError": 16, "IntegrityError": 17,
}


class Err:
    """Canonical form of an exception raised by the implementation."""

    def __init__(self, name, msg=""):
        self.name = name
        self.msg = msg

    def __eq__(self, o):
        return isinstance(o, Err) and o.name == self.name

    def __hash__(self):
        return hash(("Err", self.name))

    def __repr__(self):
        return "Err(%s)" % self.name


def z(n):
    n = int(n)
    return "(%d)" % n if n < 0 else "%d" % n


def zlist(xs):
    return "[" + "; ".join(z(x) for x in xs) + "]"


def codes(s):
    if isinstance(s, str):
        return [ord(c) for c in s]
    return list(s)


def coq_bool(b):
    return "true" if b else "false"


def coq_list(items):
    return "[" + "; ".join(items) + "]"


def coq_option(x, f=z):
    return "None" if x is None else "(Some %s)" % f(x)


def coq_pair(*xs):
    return "(" + ", ".join(xs) + ")"


def val(x):
    """Python value -> term of type Val.val."""
    if isinstance(x, Err):
        return "(VErr %d)" % ERR_CODES.get(x.name, 0)
    if isinstance(x, bool):
        return "(VB %s)" % coq_bool(x)
    if isinstance(x, int):
        return "(VZ %s)" % z(x)
    if x is None:
        return "VNone"
    if isinstance(x, (str, bytes, bytearray)):
        return "(VStr %s)" % zlist(codes(x))
    if isinstance(x, (list, tuple)):
        return "(VList %s)" % coq_list([val(e) for e in x])
    raise TypeError("cannot render %r as val (canonicalise floats/sets/dicts first)" % (x,))


def jsonable(x):
    """Make a case or result printable in evidence / replay files."""
    if isinstance(x, Err):
        return {"err": x.name, "msg": x.msg[:200]}
    if isinstance(x, (bytes, bytearray)):
        return {"hex": bytes(x).hex()}
    if isinstance(x, (list, tuple)):
        return [jsonable(e) for e in x]
    if isinstance(x, dict):
        return {str(k): jsonable(v) for k, v in x.items()}
    if isinstance(x, (set, frozenset)):
        return sorted((jsonable(e) for e in x), key=repr)
    if isinstance(x, float):
        return x.hex()
    return x


def unjson(x):
    """Inverse of jsonable for replay files."""
    if isinstance(x, dict):
        if set(x) == {"hex"}:
            return bytes.fromhex(x["hex"])
        if "err" in x and set(x) <= {"err", "msg"}:
            return Err(x["err"], x.get("msg", ""))
        return {k: unjson(v) for k, v in x.items()}
    if isinstance(x, list):
        return [unjson(e) for e in x]
    return x
