"""Fail-closed translator: the arithmetic part of androguard/decompiler/opcode_ins.py (class Op, the instruction functions
of opcodes 0x7b-0x8f and 0x90-0xe2 as listed in INSTRUCTION_SET) -> coq/gen/Gen_OpTable.v.

Accepted shapes of an instruction function (after an optional logger.debug statement):
  return assign_binary_exp(ins, Op.X, 'I'|'J', vmap)                        -> Bin3 X ty
  return assign_binary_2addr_exp(ins, Op.X, 'I'|'J', vmap)                  -> Bin2 X ty
  return assign_lit(Op.X, ins.CCCC|ins.CC, ins.A|ins.AA, ins.B|ins.BB, vmap) -> Lit X
  literal, op = [(ins.CC, Op.X), (-ins.CC, Op.Y)][ins.CC < 0]; return assign_lit(op, literal, ...)  -> LitFlip X Y
  ...; cst = Constant(ins.CCCC|ins.CC, 'I'); return AssignExpression(var_a, BinaryExpressionLit(Op.X, cst, var_b)) -> RLit X
  a, b = get_variables(...); exp = UnaryExpression(Op.X, b, ty); return AssignExpression(a, exp)   -> Un X ty
  return assign_cast_exp(ins.A, ins.B, '(t)', ty, vmap)                      -> Cast "(t)"
Anything else among the listed opcodes raises TranslateError.  Other opcodes are not translated.
"""
import ast

from tools.vlib.core import TranslateError

SRC = "androguard/decompiler/opcode_ins.py"
ISRC = "androguard/decompiler/instruction.py"
WANTED = list(range(0x7B, 0x7F)) + [0x81, 0x84, 0x8D, 0x8E, 0x8F] + list(range(0x90, 0xA6)) + list(range(0xB0, 0xC6)) + list(range(0xD0, 0xE3))


def fail(node, why):
    raise TranslateError("%s: line %s: %s" % (why, getattr(node, "lineno", "?"), ast.unparse(node)[:120]))


def translate(ctx):
    tree = ast.parse(ctx.src(SRC))
    ops, funcs, iset = {}, {}, None
    for n in tree.body:
        if isinstance(n, ast.ClassDef) and n.name == "Op":
            for a in n.body:
                if isinstance(a, ast.Assign) and isinstance(a.value, ast.Constant) and isinstance(a.value.value, str):
                    ops[a.targets[0].id] = a.value.value
        elif isinstance(n, ast.FunctionDef):
            funcs[n.name] = n
        elif isinstance(n, ast.Assign) and isinstance(n.targets[0], ast.Name) and n.targets[0].id == "INSTRUCTION_SET":
            if not isinstance(n.value, ast.List) or not all(isinstance(e, ast.Name) for e in n.value.elts):
                fail(n, "INSTRUCTION_SET is not a list of names")
            iset = [e.id for e in n.value.elts]
    if iset is None or not ops:
        raise TranslateError("INSTRUCTION_SET or class Op not found")

    def opsym(e):
        if isinstance(e, ast.Attribute) and isinstance(e.value, ast.Name) and e.value.id == "Op" and e.attr in ops:
            return ops[e.attr]
        fail(e, "not an Op member")

    def sconst(e):
        if isinstance(e, ast.Constant) and isinstance(e.value, str):
            return e.value
        fail(e, "not a string literal")

    def insattr(e, names):
        if isinstance(e, ast.Attribute) and isinstance(e.value, ast.Name) and e.value.id == "ins" and e.attr in names:
            return e.attr
        fail(e, "not ins.<field>")
    rows = []
    for opc in WANTED:
        if opc >= len(iset) or iset[opc] not in funcs:
            raise TranslateError("opcode 0x%x has no instruction function" % opc)
        fn = funcs[iset[opc]]
        body = [s for s in fn.body if not (isinstance(s, ast.Expr) and isinstance(s.value, ast.Call) and ast.unparse(s.value.func) == "logger.debug")]
        ret = body[-1]
        if not isinstance(ret, ast.Return) or not isinstance(ret.value, ast.Call):
            fail(fn, "no final return of a call")
        call = ret.value
        cname = ast.unparse(call.func)
        if cname in ("assign_binary_exp", "assign_binary_2addr_exp") and len(body) == 1:
            if len(call.args) != 4 or ast.unparse(call.args[0]) != "ins" or ast.unparse(call.args[3]) != "vmap":
                fail(call, "unexpected arguments")
            rows.append((opc, "%s %s %s" % ("Bin3" if cname == "assign_binary_exp" else "Bin2", cstr(opsym(call.args[1])), ty(sconst(call.args[2]), call))))
        elif cname == "assign_lit" and len(body) == 1:
            insattr(call.args[1], ("CCCC", "CC")); insattr(call.args[2], ("A", "AA")); insattr(call.args[3], ("B", "BB"))
            rows.append((opc, "Lit %s" % cstr(opsym(call.args[0]))))
        elif cname == "assign_lit" and len(body) == 2:
            a = body[0]
            want = "literal, op = [(ins.CC, Op.%s), (-ins.CC, Op.%s)][ins.CC < 0]"
            if not (isinstance(a, ast.Assign) and ast.unparse(call.args[0]) == "op" and ast.unparse(call.args[1]) == "literal"):
                fail(fn, "literal flip outside the subset")
            try:
                pair = a.value.value.elts
                x, y = opsym(pair[0].elts[1]), opsym(pair[1].elts[1])
                ok = ast.unparse(a) == want % (pair[0].elts[1].attr, pair[1].elts[1].attr)
            except Exception:
                ok = False
            if not ok:
                fail(a, "literal flip outside the subset")
            rows.append((opc, "LitFlip %s %s" % (cstr(x), cstr(y))))
        elif cname == "AssignExpression" and len(body) == 3 and isinstance(call.args[1], ast.Call) and ast.unparse(call.args[1].func) == "BinaryExpressionLit":
            if ast.unparse(body[0]) not in ("var_a, var_b = get_variables(vmap, ins.A, ins.B)", "var_a, var_b = get_variables(vmap, ins.AA, ins.BB)") or \
               ast.unparse(body[1]) not in ("cst = Constant(ins.CCCC, 'I')", "cst = Constant(ins.CC, 'I')") or \
               [ast.unparse(x) for x in call.args[1].args[1:]] != ["cst", "var_b"] or ast.unparse(call.args[0]) != "var_a":
                fail(fn, "reverse literal form outside the subset")
            rows.append((opc, "RLit %s" % cstr(opsym(call.args[1].args[0]))))
        elif cname == "AssignExpression" and len(body) == 3 and ast.unparse(call) == "AssignExpression(a, exp)":
            e = body[1]
            if ast.unparse(body[0]) != "a, b = get_variables(vmap, ins.A, ins.B)" or not (isinstance(e, ast.Assign) and isinstance(e.value, ast.Call)
                                                                                       and ast.unparse(e.value.func) == "UnaryExpression" and ast.unparse(e.value.args[1]) == "b"):
                fail(fn, "unary form outside the subset")
            rows.append((opc, "Un %s %s" % (cstr(opsym(e.value.args[0])), ty(sconst(e.value.args[2]), e))))
        elif cname == "assign_cast_exp" and len(body) == 1:
            insattr(call.args[0], ("A",)); insattr(call.args[1], ("B",))
            rows.append((opc, "Cast %s" % cstr(sconst(call.args[2]))))
        else:
            fail(fn, "instruction function outside the subset")
    # ---- the conditional branches 0x32-0x3d and the table of complementary operators (instruction.py: CONDS)
    crows = []
    for opc in range(0x32, 0x3E):
        if opc >= len(iset) or iset[opc] not in funcs:
            raise TranslateError("opcode 0x%x has no instruction function" % opc)
        fn = funcs[iset[opc]]
        body = [s_ for s_ in fn.body if not (isinstance(s_, ast.Expr) and isinstance(s_.value, ast.Call) and ast.unparse(s_.value.func) == "logger.debug")]
        ret = body[-1]
        if not isinstance(ret, ast.Return) or not isinstance(ret.value, ast.Call):
            fail(fn, "no final return of a call")
        call = ret.value
        cname = ast.unparse(call.func)
        if cname == "ConditionalExpression" and len(body) == 2 and ast.unparse(body[0]) == "a, b = get_variables(vmap, ins.A, ins.B)" \
                and [ast.unparse(x) for x in call.args[1:]] == ["a", "b"]:
            crows.append((opc, "Cond %s" % cstr(opsym(call.args[0]))))
        elif cname == "ConditionalZExpression" and len(body) == 1 and len(call.args) == 2 and ast.unparse(call.args[1]) == "get_variables(vmap, ins.AA)":
            crows.append((opc, "CondZ %s" % cstr(opsym(call.args[0]))))
        else:
            fail(fn, "conditional instruction function outside the subset")
    itree = ast.parse(ctx.src(ISRC))
    conds = None
    for n in itree.body:
        if isinstance(n, ast.Assign) and isinstance(n.targets[0], ast.Name) and n.targets[0].id == "CONDS":
            if not isinstance(n.value, ast.Dict) or not all(isinstance(k, ast.Constant) and isinstance(v, ast.Constant) and isinstance(k.value, str) and isinstance(v.value, str)
                                                             for k, v in zip(n.value.keys, n.value.values)):
                fail(n, "CONDS is not a dict of string literals")
            conds = [(k.value, v.value) for k, v in zip(n.value.keys, n.value.values)]
            if len({k for k, _ in conds}) != len(conds):
                fail(n, "CONDS has a repeated key")
    if conds is None:
        raise TranslateError("CONDS not found in %s" % ISRC)
    ctext = ["(* GENERATED by tools/tr/optable_tr.py from %s and %s - do not edit. *)" % (SRC, ISRC),
             "From Coq Require Import ZArith List.", "Require Import V.Dad.OpSemantics.", "Import ListNotations.", "Open Scope Z_scope.", "",
             "Definition cond_table : list (Z * centry) := [", ";\n".join("  (%d, %s)" % (o, e) for o, e in crows), "].",
             "Definition conds : list (list Z * list Z) := [", ";\n".join("  (%s, %s)" % (cstr(k), cstr(v)) for k, v in conds), "]."]
    text = ["(* GENERATED by tools/tr/optable_tr.py from %s - do not edit. *)" % SRC,
            "From Coq Require Import ZArith List.", "Require Import V.Dad.OpSemantics.", "Import ListNotations.", "Open Scope Z_scope.", "",
            "Definition op_table : list (Z * entry) := ["]
    text.append(";\n".join("  (%d, %s)" % (o, e) for o, e in rows))
    text.append("].")
    return {"gen/Gen_OpTable.v": "\n".join(text) + "\n", "gen/Gen_CondTable.v": "\n".join(ctext) + "\n"}


def cstr(s):
    return "[" + "; ".join(str(ord(c)) for c in s) + "]"


def ty(t, node):
    if t not in ("I", "J"):
        fail(node, "type is neither I nor J")
    return "TI" if t == "I" else "TJ"
