"""Fail-closed inventory of the places where androguard/decompiler/*.py walks over a set (or takes an arbitrary element of
one): the order of such a walk depends on the hashes of the elements - for decompiler nodes and IR objects on their addresses.

An expression counts as set-typed when it is built by set()/frozenset(), a set display or comprehension, a set-only method
(union, intersection, difference, symmetric_difference), `|`, `&`, `-`, `^` with a set-typed side, .copy() of a set-typed
value, a local name or an attribute that is assigned a set-typed value somewhere in the package, a subscript of a
defaultdict(set) (two levels for defaultdict(lambda: defaultdict(set))), `d.get(k, <set>)`, or a call of a package function
that returns a set-typed value.  A site is a `for` statement, a comprehension clause, or an argument of list(), tuple(),
max(), min(), next(iter()), .extend(), .join(), `*`, or a `.pop()` on such an expression.  sorted() is not a site.

Each site is looked up in tools/tr/setsites_expected.json, which records its class (and thereby the Coq lemma that speaks
about it).  A site that is not listed gets the class Unknown and the generated theorem no longer checks.  For the class
`PerElement` the loop body is checked too: every statement may only write to the loop variable's own attributes, call a
method on the loop variable, or remove the loop variable from the set that is being walked (over a copy).
"""
import ast
import json
import os

from tools.vlib.core import TranslateError

DIR = "androguard/decompiler"
EXPECTED = os.path.join(os.path.dirname(os.path.abspath(__file__)), "setsites_expected.json")
SET_METHODS = {"union", "intersection", "difference", "symmetric_difference"}
CLASSES = ("IntElements", "PerElement", "Membership", "FollowScan", "CommonDominator", "DominatorTree")


class Info:
    def __init__(self):
        self.set_attrs, self.dict_attrs, self.dict2_attrs, self.set_funcs = set(), set(), set(), set()


def is_defaultdict_of(e, inner):
    return isinstance(e, ast.Call) and ast.unparse(e.func) in ("defaultdict", "collections.defaultdict") and len(e.args) == 1 and inner(e.args[0])


def dd_set(e):
    return is_defaultdict_of(e, lambda a: isinstance(a, ast.Name) and a.id in ("set", "frozenset"))


def dd_dd_set(e):
    return is_defaultdict_of(e, lambda a: isinstance(a, ast.Lambda) and dd_set(a.body))


class Typer:
    """set-typedness of expressions inside one function"""

    def __init__(self, info, local_sets, local_dicts):
        self.info, self.local_sets, self.local_dicts = info, local_sets, local_dicts

    def is_set(self, e):
        i = self.info
        if isinstance(e, (ast.Set, ast.SetComp)):
            return True
        if isinstance(e, ast.Call):
            f = e.func
            if isinstance(f, ast.Name) and f.id in ("set", "frozenset"):
                return True
            if isinstance(f, ast.Name) and f.id in i.set_funcs:
                return True
            if isinstance(f, ast.Attribute):
                if f.attr in SET_METHODS:
                    return True
                if f.attr == "copy" and self.is_set(f.value):
                    return True
                if f.attr == "get" and len(e.args) == 2 and self.is_set(e.args[1]):
                    return True
                if f.attr in i.set_funcs:
                    return True
            return False
        if isinstance(e, ast.BinOp) and isinstance(e.op, (ast.BitOr, ast.BitAnd, ast.Sub, ast.BitXor)):
            return self.is_set(e.left) or self.is_set(e.right)
        if isinstance(e, ast.Name):
            return e.id in self.local_sets
        if isinstance(e, ast.Attribute):
            return e.attr in i.set_attrs
        if isinstance(e, ast.Subscript):
            v = e.value
            if isinstance(v, ast.Attribute) and v.attr in i.dict_attrs:
                return True
            if isinstance(v, ast.Name) and v.id in self.local_dicts:
                return True
            if isinstance(v, ast.Subscript) and isinstance(v.value, ast.Attribute) and v.value.attr in i.dict2_attrs:
                return True
            return False
        if isinstance(e, ast.IfExp):
            return self.is_set(e.body) or self.is_set(e.orelse)
        if isinstance(e, ast.BoolOp):
            return any(self.is_set(x) for x in e.values)
        return False


def functions(tree):
    """(qualified name, node) for every function, module-level code as '<module>'"""
    out = []

    def walk(n, prefix):
        for c in ast.iter_child_nodes(n):
            if isinstance(c, (ast.FunctionDef, ast.AsyncFunctionDef)):
                out.append((prefix + c.name, c))
                walk(c, prefix + c.name + ".")
            elif isinstance(c, ast.ClassDef):
                walk(c, prefix + c.name + ".")
            else:
                walk(c, prefix)
    walk(tree, "")
    return out


def own_nodes(fn):
    """nodes of a function without those of nested functions"""
    stack = list(ast.iter_child_nodes(fn))
    while stack:
        n = stack.pop()
        yield n
        if not isinstance(n, (ast.FunctionDef, ast.AsyncFunctionDef, ast.ClassDef)):
            stack.extend(ast.iter_child_nodes(n))


def assignments(fn):
    for n in own_nodes(fn):
        if isinstance(n, ast.Assign):
            for t in n.targets:
                if isinstance(t, (ast.Tuple, ast.List)) and isinstance(n.value, (ast.Tuple, ast.List)) and len(t.elts) == len(n.value.elts):
                    for a, b in zip(t.elts, n.value.elts):
                        yield a, b
                else:
                    yield t, n.value
        elif isinstance(n, ast.AnnAssign) and n.value is not None:
            yield n.target, n.value
        elif isinstance(n, ast.AugAssign):
            yield n.target, n.value


def local_tables(info, fn, outer=()):
    sets, dicts = set(outer), set()
    changed = True
    while changed:
        changed = False
        ty = Typer(info, sets, dicts)
        for t, v in assignments(fn):
            if isinstance(t, ast.Name):
                if ty.is_set(v) and t.id not in sets:
                    sets.add(t.id)
                    changed = True
                if dd_set(v) and t.id not in dicts:
                    dicts.add(t.id)
                    changed = True
    return sets, dicts


def collect_info(trees):
    info = Info()
    changed = True
    while changed:
        changed = False
        for _, tree in trees:
            for qn, fn in functions(tree):
                sets, dicts = local_tables(info, fn)
                ty = Typer(info, sets, dicts)
                for t, v in assignments(fn):
                    if isinstance(t, ast.Attribute):
                        for test, table in ((ty.is_set, info.set_attrs), (dd_set, info.dict_attrs), (dd_dd_set, info.dict2_attrs)):
                            if test(v) and t.attr not in table:
                                table.add(t.attr)
                                changed = True
                for n in own_nodes(fn):
                    if isinstance(n, ast.Return) and n.value is not None and ty.is_set(n.value) and fn.name not in info.set_funcs:
                        info.set_funcs.add(fn.name)
                        changed = True
    return info


PURE_CALLS = {"len", "min", "max", "abs", "int", "bool", "isinstance"}


def per_element_ok(loop, walked):
    """the body of `for x in S` (or `in S.copy()`) touches x only: it may write to x's own attributes and items, call a method
    on x, remove x from S while walking a copy of S, and use names that are assigned before they are read in every pass"""
    if not isinstance(loop.target, ast.Name):
        return False
    x = loop.target.id

    def rooted(e):
        while isinstance(e, (ast.Attribute, ast.Subscript)):
            e = e.value
        return isinstance(e, ast.Name) and e.id == x

    assigned = {t.id for n in ast.walk(ast.Module(body=loop.body, type_ignores=[])) if isinstance(n, ast.Assign) for t in n.targets if isinstance(t, ast.Name)}
    if x in assigned or (walked is not None and walked in assigned):
        return False

    def pure(e, defined):
        for n in ast.walk(e):
            if isinstance(n, (ast.NamedExpr, ast.Yield, ast.Await)):
                return False
            if isinstance(n, ast.Call) and not (isinstance(n.func, ast.Name) and n.func.id in PURE_CALLS):
                return False
            if isinstance(n, ast.Name) and isinstance(n.ctx, ast.Load) and n.id in assigned and n.id not in defined:
                return False                             # a value left over from an earlier pass
        return True

    def block_ok(stmts, defined):
        defined = set(defined)
        for s in stmts:
            if isinstance(s, ast.If):
                if not (pure(s.test, defined) and block_ok(s.body, defined) and block_ok(s.orelse, defined)):
                    return False
            elif isinstance(s, ast.Assign):
                if not pure(s.value, defined):
                    return False
                for t in s.targets:
                    if isinstance(t, ast.Name):
                        defined.add(t.id)
                    elif not (isinstance(t, (ast.Attribute, ast.Subscript)) and rooted(t) and pure(t, defined)):
                        return False
            elif isinstance(s, ast.Expr) and isinstance(s.value, ast.Call) and isinstance(s.value.func, ast.Attribute):
                c = s.value
                if rooted(c.func.value) and all(pure(a, defined) for a in c.args) and not c.keywords:
                    continue                                 # x.method(...)
                if c.func.attr in ("remove", "discard") and len(c.args) == 1 and isinstance(c.args[0], ast.Name) and c.args[0].id == x \
                        and walked is not None and ast.unparse(c.func.value) == walked:
                    continue                                 # S.remove(x) while walking S.copy()
                return False
            else:
                return False
        return True
    return block_ok(loop.body, set()) and not loop.orelse


ORDER_CARRIERS = {"append", "extend", "insert", "setdefault", "add_edge", "add_node", "add_catch_edge", "write", "appendleft"}


def carried_order(body, loopvar_names):
    """statements inside a walk over a set that put something into an ordered container: `d[k] = v`, l.append(...), ..."""
    out = []
    for n in ast.walk(ast.Module(body=body, type_ignores=[])):
        if isinstance(n, ast.Assign):
            for t in n.targets:
                for u in (t.elts if isinstance(t, (ast.Tuple, ast.List)) else [t]):
                    if isinstance(u, ast.Subscript):
                        root = u.value
                        while isinstance(root, (ast.Attribute, ast.Subscript)):
                            root = root.value
                        if not (isinstance(root, ast.Name) and root.id in loopvar_names):
                            out.append(ast.unparse(u))
        if isinstance(n, ast.Call) and isinstance(n.func, ast.Attribute) and n.func.attr in ORDER_CARRIERS:
            root = n.func.value
            while isinstance(root, (ast.Attribute, ast.Subscript)):
                root = root.value
            if not (isinstance(root, ast.Name) and root.id in loopvar_names):
                out.append(ast.unparse(n.func))
    return sorted(set(out))


def sites_of(info, rel, tree):
    out = []
    parents = {}
    for n in ast.walk(tree):
        for c in ast.iter_child_nodes(n):
            parents[c] = n
    for qn, fn in functions(tree) + [("<module>", tree)]:
        sets, dicts = local_tables(info, fn)
        ty = Typer(info, sets, dicts)
        for n in list(own_nodes(fn)):
            found = []
            if isinstance(n, (ast.For, ast.AsyncFor)) and ty.is_set(n.iter):
                found.append(("for", n.iter, n))
            if isinstance(n, ast.comprehension) and ty.is_set(n.iter):
                found.append(("comprehension", n.iter, n))
            if isinstance(n, ast.Starred) and ty.is_set(n.value):
                found.append(("star", n.value, None))
            if isinstance(n, ast.Call):
                f = n.func
                if isinstance(f, ast.Name) and f.id in ("list", "tuple", "max", "min", "iter", "enumerate", "zip", "sum", "map", "filter", "reversed") and any(ty.is_set(a) for a in n.args):
                    found.append((f.id, [a for a in n.args if ty.is_set(a)][0], None))
                if isinstance(f, ast.Attribute) and f.attr in ("extend", "join") and any(ty.is_set(a) for a in n.args):
                    found.append((f.attr, n.args[0], None))
                if isinstance(f, ast.Attribute) and f.attr == "pop" and not n.args and ty.is_set(f.value):
                    found.append(("pop", f.value, n))
            for kind, e, ctxnode in found:
                site = {"file": rel, "function": qn, "kind": kind, "iterable": ast.unparse(e), "line": getattr(e, "lineno", 0)}
                if kind == "for":
                    loop = ctxnode
                    walked = None
                    if isinstance(loop.iter, ast.Call) and isinstance(loop.iter.func, ast.Attribute) and loop.iter.func.attr == "copy":
                        walked = ast.unparse(loop.iter.func.value)
                    site["per_element_shape"] = per_element_ok(loop, walked)
                    site["body"] = " ; ".join(ast.unparse(s).replace("\n", " ") for s in loop.body)[:400]
                    names = {t.id for t in ast.walk(loop.target) if isinstance(t, ast.Name)}
                    site["carries_order_into"] = carried_order(loop.body, names)
                elif kind == "comprehension":
                    comp = parents.get(ctxnode)                 # the ListComp / GeneratorExp / SetComp / DictComp
                    user = parents.get(comp)
                    site["comprehension"] = type(comp).__name__
                    site["consumer"] = ast.unparse(user.func) if isinstance(user, ast.Call) and comp in user.args else None
                elif kind == "pop":
                    # `while S: v = S.pop(); ...` - what the loop does with the elements
                    w = ctxnode
                    while w is not None and not isinstance(w, ast.While):
                        w = parents.get(w)
                    if w is not None:
                        stmt = parents.get(ctxnode)
                        names = {t.id for t in ast.walk(stmt) if isinstance(t, ast.Name) and isinstance(t.ctx, ast.Store)} if isinstance(stmt, ast.Assign) else set()
                        site["carries_order_into"] = carried_order(w.body, names)
                        site["body"] = " ; ".join(ast.unparse(s).replace("\n", " ") for s in w.body)[:400]
                out.append(site)
    return out


def key(site):
    return "%s::%s::%s::%s" % (site["file"], site["function"], site["kind"], site["iterable"])


def inventory(ctx):
    trees = []
    base = os.path.join(ctx.repo, DIR)
    for name in sorted(os.listdir(base)):
        if name.endswith(".py"):
            rel = DIR + "/" + name
            try:
                trees.append((rel, ast.parse(ctx.src(rel))))
            except SyntaxError as e:
                raise TranslateError("%s does not parse: %s" % (rel, e))
    info = collect_info(trees)
    sites = []
    for rel, tree in trees:
        sites.extend(sites_of(info, rel, tree))
    return sites, info


def coq_string(s):
    return '"' + s.replace('"', '""') + '"'


def translate(ctx):
    sites, info = inventory(ctx)
    expected = json.load(open(EXPECTED))["sites"] if os.path.exists(EXPECTED) else {}
    rows, unknown = [], []
    for s in sites:
        k = key(s)
        cls = expected.get(k, {}).get("class", "Unknown")
        if cls not in CLASSES:
            cls = "Unknown"
        if cls == "PerElement" and not (s.get("per_element_shape") and not s.get("carries_order_into")):
            cls = "Unknown"
        if cls == "Membership" and not (s["kind"] == "comprehension" and s.get("consumer") in ("any", "all", "set", "frozenset", "sorted", "len")):
            cls = "Unknown"
        if cls == "Unknown":
            unknown.append(k)
        s["class"] = cls
        rows.append("  (%s, %s)" % (coq_string(k), cls))
    text = ("(* generated by tools/tr/setsites_tr.py from %s/*.py - do not edit *)\nFrom Coq Require Import String List.\n"
            "Require Import V.Dad.OrderModel.\nImport ListNotations.\nOpen Scope string_scope.\n\n"
            "Definition set_sites : list (string * site_class) := [\n%s\n].\n" % (DIR, ";\n".join(rows)))
    ctx.set_sites = {"sites": sites, "unknown": unknown, "set_attributes": sorted(info.set_attrs),
                     "dict_of_set_attributes": sorted(info.dict_attrs | info.dict2_attrs), "set_returning_functions": sorted(info.set_funcs),
                     "listed_but_not_in_source": sorted(set(expected) - {key(s) for s in sites})}
    return {"gen/Gen_SetSites.v": text}
