"""Fail-closed serializer: Python ast -> PyLite syntax (coq/Lib/PyLite.v).
Anything outside the whitelisted subset raises TranslateError."""
import ast
from tools.vlib.core import TranslateError
Unsupported = TranslateError
def q(s): return '"%s"' % s
BIN={ast.Add:'Add',ast.Sub:'Sub',ast.BitAnd:'BAnd',ast.BitOr:'BOr',ast.LShift:'Shl',ast.RShift:'Shr'}
CMP={ast.Eq:'CEq',ast.NotEq:'CNe',ast.Lt:'CLt',ast.LtE:'CLe',ast.Gt:'CGt',ast.GtE:'CGe'}
def is_packB(n):  # cm.packer["B"].pack(x)
    return (isinstance(n,ast.Call) and isinstance(n.func,ast.Attribute) and n.func.attr=='pack'
        and isinstance(n.func.value,ast.Subscript) and ast.unparse(n.func.value.value).endswith('packer')
        and isinstance(n.func.value.slice,ast.Constant) and n.func.value.slice.value=='B' and len(n.args)==1)
def E(n):
    if isinstance(n,ast.Constant) and isinstance(n.value,int) and not isinstance(n.value,bool): return '(EInt (%d))'%n.value
    if isinstance(n,ast.Constant) and isinstance(n.value,bool): return '(EInt %d)'%int(n.value)
    if isinstance(n,ast.Name): return '(EVar %s)'%q(n.id)
    if isinstance(n,ast.BinOp) and type(n.op) in BIN: return '(EBin %s %s %s)'%(BIN[type(n.op)],E(n.left),E(n.right))
    if isinstance(n,ast.UnaryOp) and isinstance(n.op,ast.Not): return '(ENot %s)'%E(n.operand)
    if isinstance(n,ast.UnaryOp) and isinstance(n.op,ast.USub): return '(EBin Sub (EInt 0) %s)'%E(n.operand)
    if isinstance(n,ast.BoolOp):
        k='EAnd' if isinstance(n.op,ast.And) else 'EOr'
        r=E(n.values[-1])
        for v in reversed(n.values[:-1]): r='(%s %s %s)'%(k,E(v),r)
        return r
    if isinstance(n,ast.Compare) and len(n.ops)==1 and type(n.ops[0]) in CMP: return '(ECmp %s %s %s)'%(CMP[type(n.ops[0])],E(n.left),E(n.comparators[0]))
    if isinstance(n,ast.Call) and isinstance(n.func,ast.Name) and n.func.id=='get_byte' and len(n.args)==2 and isinstance(n.args[1],ast.Name): return '(EGetByte %s)'%q(n.args[1].id)
    if is_packB(n): return '(EPackB %s)'%E(n.args[0])
    if isinstance(n,ast.Call) and isinstance(n.func,ast.Name) and n.func.id=='max' and len(n.args)==2: return '(EMax %s %s)'%(E(n.args[0]),E(n.args[1]))
    if isinstance(n,ast.Call) and isinstance(n.func,ast.Name) and n.func.id=='bytearray' and not n.args: return 'ENewBytes'
    if isinstance(n,ast.Attribute) and ast.unparse(n)=='sys.maxsize': return '(EInt 9223372036854775807)'
    raise Unsupported(ast.dump(n)[:120])
def S(n):
    if isinstance(n,ast.Expr) and isinstance(n.value,ast.Constant) and isinstance(n.value.value,str): return None  # docstring
    if isinstance(n,ast.Expr) and isinstance(n.value,ast.Call) and ast.unparse(n.value.func).startswith('logger.'): return 'SPass'
    if isinstance(n,ast.Assign) and len(n.targets)==1 and isinstance(n.targets[0],ast.Name): return '(SAssign %s %s)'%(q(n.targets[0].id),E(n.value))
    if isinstance(n,ast.AugAssign) and isinstance(n.target,ast.Name) and type(n.op) in BIN: return '(SAug %s %s %s)'%(q(n.target.id),BIN[type(n.op)],E(n.value))
    if isinstance(n,ast.If): return '(SIf %s %s %s)'%(E(n.test),B(n.body),B(n.orelse))
    if isinstance(n,ast.While) and not n.orelse: return '(SWhile %s %s)'%(E(n.test),B(n.body))
    if (isinstance(n,ast.For) and not n.orelse and isinstance(n.target,ast.Name) and isinstance(n.iter,ast.Call) and ast.unparse(n.iter.func)=='range'
        and len(n.iter.args)==2 and all(isinstance(a,ast.Constant) for a in n.iter.args)):
        return '(SForRange %s (%d) (%d) %s)'%(q(n.target.id),n.iter.args[0].value,n.iter.args[1].value,B(n.body))
    if isinstance(n,ast.Return): return '(SReturn %s)'%E(n.value)
    if isinstance(n,ast.Raise) and isinstance(n.exc,ast.Call) and ast.unparse(n.exc.func) in ('ValueError',): return '(SRaise ValueError)'
    if isinstance(n,ast.Break): return 'SBreak'
    if isinstance(n,ast.Pass): return 'SPass'
    raise Unsupported(ast.dump(n)[:120])
def B(stmts):
    xs=[x for x in (S(s) for s in stmts) if x is not None]
    return '['+'; '.join(xs)+']'

HEADER = ['From Coq Require Import ZArith List String.', 'Require Import V.Lib.Result V.Lib.PyLite.', 'Import ListNotations.',
          'Open Scope Z_scope. Open Scope string_scope.']


def gen_functions(src_text, names):
    tree = ast.parse(src_text)
    out = list(HEADER)
    found = set()
    for f in tree.body:
        if isinstance(f, ast.FunctionDef) and f.name in names:
            found.add(f.name)
            params = [a.arg for a in f.args.args]
            out.append('Definition params_%s : list string := [%s].' % (f.name, '; '.join(q(p) for p in params)))
            out.append('Definition src_%s : list stmt :=\n  %s.' % (f.name, B(f.body)))
    missing = set(names) - found
    if missing:
        raise TranslateError('functions not found: %s' % sorted(missing))
    return '\n'.join(out) + '\n'


def gen_leb(ctx):
    return gen_functions(ctx.src('androguard/core/dex/__init__.py'),
                         ('readuleb128', 'readsleb128', 'writeuleb128', 'writesleb128'))
