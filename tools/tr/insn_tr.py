"""Fail-closed translator: the Instruction* classes and the two opcode tables of androguard/core/dex/__init__.py
-> coq/gen/Gen_Insn.v (shallow Gallina over coq/Lib/Struct.v).

Translated per class: `length`, `__init__` (one struct unpack of buff[:length], then assignments and raise-guards),
`get_raw` (one struct pack), `get_literals`, `get_ref_off`, `get_ref_kind`.  Per table: opcode -> class, mnemonic, kind.
Anything outside the subset listed in E/S below raises TranslateError (handled like a broken proof).
"""
import ast
import re

from tools.vlib.core import TranslateError

BIN = {ast.BitAnd: "Z.land", ast.BitOr: "Z.lor", ast.LShift: "Z.shiftl", ast.RShift: "Z.shiftr", ast.Add: "Z.add", ast.Sub: "Z.sub"}
FMT = {"B": ("FU", 1), "b": ("FS", 1), "H": ("FU", 2), "h": ("FS", 2), "I": ("FU", 4), "i": ("FS", 4), "L": ("FU", 4),
       "l": ("FS", 4), "Q": ("FU", 8), "q": ("FS", 8)}
SRC = "androguard/core/dex/__init__.py"


def fail(node, why):
    raise TranslateError("%s: line %s: %s" % (why, getattr(node, "lineno", "?"), ast.unparse(node)[:100]))


def specs(fmt, node):
    out = []
    for cnt, ch in re.findall(r"(\d*)([A-Za-z])", fmt):
        if ch not in FMT or "".join(c + h for c, h in re.findall(r"(\d*)([A-Za-z])", fmt)) != fmt:
            fail(node, "struct format outside the subset")
        out += ["%s %d" % FMT[ch]] * (int(cnt) if cnt else 1)
    return out


def var(name):
    return "v_" + name


def E(n, cls):
    if isinstance(n, ast.Constant) and isinstance(n.value, int) and not isinstance(n.value, bool):
        return "(%d)" % n.value
    if isinstance(n, ast.Name):
        return var(n.id)
    if isinstance(n, ast.Attribute) and isinstance(n.value, ast.Name) and n.value.id == "self":
        return var(n.attr)
    if isinstance(n, ast.BinOp) and type(n.op) in BIN:
        return "(%s %s %s)" % (BIN[type(n.op)], E(n.left, cls), E(n.right, cls))
    fail(n, "expression outside the subset")


def C(n, cls):
    if isinstance(n, ast.Compare) and len(n.ops) == 1:
        a, b = E(n.left, cls), E(n.comparators[0], cls)
        op = type(n.ops[0])
        if op is ast.Eq:
            return "(%s =? %s)" % (a, b)
        if op is ast.NotEq:
            return "(negb (%s =? %s))" % (a, b)
        if op is ast.Gt:
            return "(%s <? %s)" % (b, a)
        if op is ast.Lt:
            return "(%s <? %s)" % (a, b)
        if op is ast.GtE:
            return "(%s <=? %s)" % (b, a)
        if op is ast.LtE:
            return "(%s <=? %s)" % (a, b)
    fail(n, "condition outside the subset")


def is_packer_call(n, meth):
    """cm.packer["FMT"].<meth>(...) or self.cm.packer[...]"""
    return (isinstance(n, ast.Call) and isinstance(n.func, ast.Attribute) and n.func.attr == meth
            and isinstance(n.func.value, ast.Subscript) and ast.unparse(n.func.value.value) in ("cm.packer", "self.cm.packer")
            and isinstance(n.func.value.slice, ast.Constant) and isinstance(n.func.value.slice.value, str))


def target_name(t, node):
    if isinstance(t, ast.Name):
        return t.id, False
    if isinstance(t, ast.Attribute) and isinstance(t.value, ast.Name) and t.value.id == "self":
        return t.attr, True
    fail(node, "assignment target outside the subset")


def translate_class(c):
    name = c.name
    length = None
    funcs = {}
    for b in c.body:
        if isinstance(b, ast.Assign) and len(b.targets) == 1 and isinstance(b.targets[0], ast.Name) and b.targets[0].id == "length":
            if not isinstance(b.value, ast.Constant):
                fail(b, "length is not a literal")
            length = b.value.value
        elif isinstance(b, ast.FunctionDef):
            funcs[b.name] = b
        elif isinstance(b, ast.Expr) and isinstance(b.value, ast.Constant):
            pass
        else:
            fail(b, "class member outside the subset")
    if length is None or "__init__" not in funcs:
        fail(c, "class without length or __init__")
    init = funcs["__init__"]
    body = [s for s in init.body if not (isinstance(s, ast.Expr) and isinstance(s.value, ast.Constant))]
    body = [s for s in body if ast.unparse(s) not in ("super().__init__()", "self.cm = cm")]
    out = ["Definition len_%s : Z := %d." % (name, length)]
    fields = []            # self.* in order of first assignment
    lines = []             # nested lets / guards, each ends with "in" or "else"
    if len(body) == 1 and isinstance(body[0], ast.Raise):
        out.append("Definition dec_%s (bs : list Z) : result (list Z) := Err InvalidInstruction." % name)
        out.append("Definition raw_%s (f : list Z) : result (list Z) := Err OtherError." % name)
        out.append("Definition lits_%s (f : list Z) : list Z := []." % name)
        out.append("Definition refoff_%s (f : list Z) : option Z := None." % name)
        out.append("Definition refkind_%s (f : list Z) : option Z := None." % name)
        return name, out, []
    first = body[0]
    if not (isinstance(first, ast.Assign) and len(first.targets) == 1 and is_packer_call(first.value, "unpack")):
        fail(first, "__init__ does not start with a struct unpack")
    arg = first.value.args[0] if len(first.value.args) == 1 else fail(first, "unpack arguments")
    if ast.unparse(arg) not in ("buff[:self.length]", "buff[:self.get_length()]"):
        fail(first, "unpack of something else than buff[:self.length]")
    sp = specs(first.value.func.value.slice.value, first)
    tg = first.targets[0]
    tgs = list(tg.elts) if isinstance(tg, ast.Tuple) else fail(first, "unpack target is not a tuple")
    if len(tgs) != len(sp):
        fail(first, "unpack target count differs from the format")
    pat = []
    for t in tgs:
        nm, is_field = target_name(t, first)
        pat.append(var(nm))
        if is_field and nm not in fields:
            fields.append(nm)
    for s in body[1:]:
        if isinstance(s, ast.Assign) and len(s.targets) == 1 and not isinstance(s.targets[0], ast.Tuple):
            nm, is_field = target_name(s.targets[0], s)
            lines.append("let %s := %s in" % (var(nm), E(s.value, name)))
            if is_field and nm not in fields:
                fields.append(nm)
        elif isinstance(s, ast.If) and len(s.body) == 1 and isinstance(s.body[0], ast.Raise) and not s.orelse:
            exc = ast.unparse(s.body[0].exc.func) if isinstance(s.body[0].exc, ast.Call) else ""
            if exc != "InvalidInstruction":
                fail(s, "raise of something else than InvalidInstruction")
            lines.append("if %s then Err InvalidInstruction else" % C(s.test, name))
        elif isinstance(s, ast.If):
            # if / elif / else, every branch one assignment to the same target
            branches, cur, tgt = [], s, None
            while True:
                if len(cur.body) != 1 or not isinstance(cur.body[0], ast.Assign):
                    fail(cur, "if branch is not a single assignment")
                nm, is_field = target_name(cur.body[0].targets[0], cur)
                if tgt not in (None, (nm, is_field)):
                    fail(cur, "if branches assign different targets")
                tgt = (nm, is_field)
                branches.append((C(cur.test, name), E(cur.body[0].value, name)))
                if len(cur.orelse) == 1 and isinstance(cur.orelse[0], ast.If):
                    cur = cur.orelse[0]
                    continue
                if len(cur.orelse) != 1 or not isinstance(cur.orelse[0], ast.Assign):
                    fail(cur, "if without a final else assignment")
                nm2, f2 = target_name(cur.orelse[0].targets[0], cur)
                if (nm2, f2) != tgt:
                    fail(cur, "else assigns a different target")
                last = E(cur.orelse[0].value, name)
                break
            expr = last
            for cnd, val in reversed(branches):
                expr = "(if %s then %s else %s)" % (cnd, val, expr)
            lines.append("let %s := %s in" % (var(tgt[0]), expr))
            if tgt[1] and tgt[0] not in fields:
                fields.append(tgt[0])
        else:
            fail(s, "statement outside the subset")
    fl = "[%s]" % "; ".join(var(f) for f in fields)
    out.append("Definition dec_%s (bs : list Z) : result (list Z) :=" % name)
    out.append("  match unpack [%s] (firstn %d bs) with" % ("; ".join(sp), length))
    out.append("  | Err e => Err e")
    out.append("  | Ok vals => match vals with")
    out.append("      | [%s] =>" % "; ".join(pat))
    for ln in lines:
        out.append("          " + ln)
    out.append("          Ok %s" % fl)
    out.append("      | _ => Err OtherError end")
    out.append("  end.")

    def simple_return(fn, kind):
        f = funcs.get(fn)
        if f is None:
            return None
        b = [s for s in f.body if not (isinstance(s, ast.Expr) and isinstance(s.value, ast.Constant))]
        if len(b) != 1 or not isinstance(b[0], ast.Return):
            fail(f, "%s is not a single return" % fn)
        return b[0].value
    r = simple_return("get_raw", "raw")
    if r is None or not is_packer_call(r, "pack"):
        fail(funcs.get("get_raw", c), "get_raw is not a single struct pack")
    psp = specs(r.func.value.slice.value, r)
    if len(psp) != len(r.args):
        fail(r, "pack argument count differs from the format")
    out.append("Definition raw_%s (f : list Z) : result (list Z) :=" % name)
    out.append("  match f with %s => pack [%s] [%s] | _ => Err OtherError end." % (
        fl, "; ".join(psp), "; ".join(E(a, name) for a in r.args)))
    lv = simple_return("get_literals", "lits")
    if lv is None:
        out.append("Definition lits_%s (f : list Z) : list Z := []." % name)
    else:
        if not isinstance(lv, ast.List):
            fail(lv, "get_literals does not return a list display")
        out.append("Definition lits_%s (f : list Z) : list Z := match f with %s => [%s] | _ => [] end." % (
            name, fl, "; ".join(E(a, name) for a in lv.elts)))
    for fn, dn in (("get_ref_off", "refoff"), ("get_ref_kind", "refkind")):
        v = simple_return(fn, dn)
        if v is None:
            out.append("Definition %s_%s (f : list Z) : option Z := None." % (dn, name))
        else:
            out.append("Definition %s_%s (f : list Z) : option Z := match f with %s => Some %s | _ => None end." % (
                dn, name, fl, E(v, name)))
    return name, out, fields


def translate_table(node, classes):
    if not isinstance(node.value, ast.Dict):
        fail(node, "opcode table is not a dict display")
    rows = []
    for k, v in zip(node.value.keys, node.value.values):
        if not (isinstance(k, ast.Constant) and isinstance(k.value, int)):
            fail(k, "opcode key is not an int literal")
        if not (isinstance(v, ast.List) and len(v.elts) == 2 and isinstance(v.elts[0], ast.Name) and isinstance(v.elts[1], ast.List)
                and v.elts[1].elts and isinstance(v.elts[1].elts[0], ast.Constant) and isinstance(v.elts[1].elts[0].value, str)):
            fail(v, "opcode table row outside the subset")
        cls = v.elts[0].id
        if cls not in classes:
            fail(v, "opcode table names an untranslated class")
        rows.append((k.value, cls, v.elts[1].elts[0].value))
    return rows


def translate(ctx):
    src = ctx.src(SRC)
    tree = ast.parse(src)
    classes, order, fieldsof = {}, [], {}
    tables = {}
    for n in tree.body:
        if isinstance(n, ast.ClassDef) and re.fullmatch(r"Instruction\d\w+", n.name):
            nm, out, fields = translate_class(n)
            classes[nm] = out
            fieldsof[nm] = fields
            order.append(nm)
        elif isinstance(n, ast.Assign) and len(n.targets) == 1 and isinstance(n.targets[0], ast.Name) and \
                n.targets[0].id in ("DALVIK_OPCODES_FORMAT", "DALVIK_OPCODES_OPTIMIZED"):
            tables[n.targets[0].id] = n
    if set(tables) != {"DALVIK_OPCODES_FORMAT", "DALVIK_OPCODES_OPTIMIZED"}:
        raise TranslateError("opcode tables not found")
    text = ["(* GENERATED by tools/tr/insn_tr.py from %s - do not edit. *)" % SRC,
            "From Coq Require Import ZArith List Bool.", "Require Import V.Lib.Val V.Lib.Result V.Lib.Struct.",
            "Import ListNotations.", "Open Scope Z_scope.", ""]
    for nm in order:
        text.append("(* %s: fields %s *)" % (nm, " ".join(fieldsof[nm]) or "-"))
        text += classes[nm]
        text.append("")
    cid = {nm: i for i, nm in enumerate(order)}
    text.append("(* class tags *)")
    for nm, i in cid.items():
        text.append("Definition cls_%s : Z := %d." % (nm, i))
    for dn, ret, dflt in (("dec", "list Z -> result (list Z)", "fun _ => Err OtherError"), ("raw", "list Z -> result (list Z)", "fun _ => Err OtherError"),
                          ("lits", "list Z -> list Z", "fun _ => []"), ("refoff", "list Z -> option Z", "fun _ => None"),
                          ("refkind", "list Z -> option Z", "fun _ => None")):
        text.append("Definition %s_of_class (c : Z) : %s :=" % (dn, ret))
        text.append("  " + " ".join("if c =? %d then %s_%s else" % (cid[nm], dn, nm) for nm in order) + " " + dflt + ".")
    text.append("Definition len_of_class (c : Z) : Z :=")
    text.append("  " + " ".join("if c =? %d then len_%s else" % (cid[nm], nm) for nm in order) + " 0.")
    for tn, short in (("DALVIK_OPCODES_FORMAT", "format"), ("DALVIK_OPCODES_OPTIMIZED", "optimized")):
        rows = translate_table(tables[tn], classes)
        text.append("Definition table_%s : list (Z * (Z * list Z)) := [" % short)
        text.append(";\n".join("  (%d, (%d, [%s]))" % (op, cid[cls], "; ".join(str(ord(ch)) for ch in mn)) for op, cls, mn in rows))
        text.append("].")
    return {"gen/Gen_Insn.v": "\n".join(text) + "\n"}
