#!/bin/sh
# Re-checks every compiled Props file and everything it depends on with Coq's independent checker and prints the axioms,
# type-in-type uses, unsafe fixpoints and assumed positivity they rely on.  Takes about three minutes.
cd "$(dirname "$0")/../coq" || exit 2
make -j8 >/dev/null 2>&1 || { echo "build failed"; exit 2; }
exec coqchk -silent -o -R . V $(ls Props/*.vo | sed 's#Props/\(.*\)\.vo#V.Props.\1#' | tr '\n' ' ')
