"""Independent resources.arsc writer, written from the AOSP ResourceTypes.h layout (ResTable_header, ResStringPool,
ResTable_package, ResTable_typeSpec, ResTable_type, ResTable_entry, ResTable_map_entry, Res_value).

Nothing here imports androguard.

    t = Table(package="com.ex", package_id=0x7f, utf8=False)
    s = t.add_type("string")                      # type ids are 1, 2, ... in the order of add_type
    t.add_entry("string", 0, "app_name", Config(), Simple(STRING, "Hello"))
    t.add_entry("string", 0, "app_name", Config(language="de"), Simple(STRING, "Hallo"))
    t.add_entry("array", 0, "xs", Config(), Complex([(0x02000000, Simple(REFERENCE, 0x7f010000)), ...]))
    data = t.build()

Resource ids are (package_id << 24) | (type_id << 16) | entry_index.
"""
import struct

NULL, REFERENCE, ATTRIBUTE, STRING, FLOAT, DIMENSION, FRACTION = 0, 1, 2, 3, 4, 5, 6
INT_DEC, INT_HEX, INT_BOOLEAN = 0x10, 0x11, 0x12
INT_COLOR_ARGB8 = 0x1C
FLAG_COMPLEX, FLAG_PUBLIC, FLAG_WEAK, FLAG_COMPACT = 1, 2, 4, 8


def string_pool(strings, utf8=False):
    body = bytearray()
    offs = []
    for s in strings:
        offs.append(len(body))
        if utf8:
            raw = s.encode("utf-8", "surrogatepass")
            n16 = len(s.encode("utf-16-le", "surrogatepass")) // 2

            def ln(n):
                return bytes((n,)) if n < 0x80 else bytes((0x80 | (n >> 8), n & 0xFF))
            body += ln(n16) + ln(len(raw)) + raw + b"\0"
        else:
            raw = s.encode("utf-16-le", "surrogatepass")
            n = len(raw) // 2
            body += (struct.pack("<H", n) if n < 0x8000 else struct.pack("<HH", 0x8000 | (n >> 16), n & 0xFFFF)) + raw + b"\0\0"
    while len(body) % 4:
        body.append(0)
    hsize = 28
    strings_start = hsize + 4 * len(strings)
    size = strings_start + len(body)
    out = struct.pack("<HHIIIIII", 0x0001, hsize, size, len(strings), 0, 0x100 if utf8 else 0, strings_start, 0)
    out += b"".join(struct.pack("<I", o) for o in offs) + bytes(body)
    return out


class Config:
    def __init__(self, language="", region="", density=0, sdk=0, orientation=0, raw_locale=None):
        self.language, self.region, self.density, self.sdk, self.orientation = language, region, density, sdk, orientation
        self.raw_locale = raw_locale

    def key(self):
        return (self.language, self.region, self.density, self.sdk, self.orientation, self.raw_locale)

    def pack(self):
        def two(s, base):
            b = s.encode("ascii")
            if len(b) == 3:                                          # AOSP packLanguageOrRegion: five bits per character
                f, g, h = (b[0] - base) & 0x7F, (b[1] - base) & 0x7F, (b[2] - base) & 0x7F
                return bytes([(0x80 | (h << 2) | (g >> 3)) & 0xFF, ((g << 5) | f) & 0xFF])
            return b + b"\0" * (2 - len(b))
        loc = self.raw_locale if self.raw_locale is not None else two(self.language, ord("a")) + two(self.region, ord("0"))
        out = struct.pack("<I", 0)                                   # imsi (mcc, mnc)
        out += loc                                                   # language[2], country[2]
        out += struct.pack("<BBH", self.orientation, 0, self.density)  # orientation, touchscreen, density
        out += struct.pack("<I", 0)                                  # keyboard, navigation, inputFlags, pad
        out += struct.pack("<I", 0)                                  # screenWidth, screenHeight
        out += struct.pack("<HH", self.sdk, 0)                       # sdkVersion, minorVersion
        out += struct.pack("<I", 0)                                  # screenLayout, uiMode, smallestScreenWidthDp
        out += struct.pack("<I", 0)                                  # screenWidthDp, screenHeightDp
        return struct.pack("<I", 4 + len(out)) + out


class Simple:
    def __init__(self, data_type, data):
        self.data_type, self.data = data_type, data


class Complex:
    def __init__(self, items, parent=0):
        self.items, self.parent = list(items), parent     # items: (name id, Simple)


class Compact:
    def __init__(self, data_type, data):
        self.data_type, self.data = data_type, data


class Table:
    def __init__(self, package="com.example", package_id=0x7F, utf8=False, sparse=False, values=None):
        self.package, self.package_id, self.utf8 = package, package_id, utf8
        self.types = []                 # type names
        self.entries = {}               # type name -> {config key -> (Config, {index -> (key name, value)})}
        self.values = [] if values is None else values    # global string pool (one list shared by the packages of a table)
        self.modes = {}                 # (type name, config key) -> 'dense' | 'off16' | 'sparse'
        self.keys = []

    def add_type(self, name):
        if name not in self.types:
            self.types.append(name)
            self.entries[name] = {}
        return self.types.index(name) + 1

    def res_id(self, type_name, index):
        return (self.package_id << 24) | ((self.types.index(type_name) + 1) << 16) | index

    def _val(self, s):
        if s not in self.values:
            self.values.append(s)
        return self.values.index(s)

    def _key(self, s):
        if s not in self.keys:
            self.keys.append(s)
        return self.keys.index(s)

    def add_entry(self, type_name, index, key, config, value):
        self.add_type(type_name)
        d = self.entries[type_name].setdefault(config.key(), (config, {}))
        d[1][index] = (key, value)
        return self.res_id(type_name, index)

    def _res_value(self, v):
        data = v.data
        if v.data_type == STRING and isinstance(data, str):
            data = self._val(data)
        return struct.pack("<HBBI", 8, 0, v.data_type, data & 0xFFFFFFFF)

    def _entry(self, key, value):
        if isinstance(value, Compact):
            return struct.pack("<HBBI", self._key(key) & 0xFFFF, FLAG_COMPACT, value.data_type,
                               (self._val(value.data) if isinstance(value.data, str) else value.data) & 0xFFFFFFFF)
        if isinstance(value, Complex):
            out = struct.pack("<HHIII", 16, FLAG_COMPLEX, self._key(key), value.parent, len(value.items))
            for name, item in value.items:
                out += struct.pack("<I", name) + self._res_value(item)
            return out
        return struct.pack("<HHI", 8, 0, self._key(key)) + self._res_value(value)

    def package_chunk(self):
        """the RES_TABLE_PACKAGE chunk: header, type and key string pools, type specs and types, then self.extra_chunks"""
        chunks = bytearray()
        for ti, tname in enumerate(self.types):
            tid = ti + 1
            count = 1 + max([i for (_, es) in self.entries[tname].values() for i in es], default=-1)
            chunks += struct.pack("<HHIBBHI", 0x0202, 16, 16 + 4 * count, tid, 0, 0, count) + b"\0\0\0\0" * count
            for (cfg, es) in self.entries[tname].values():
                mode = self.modes.get((tname, cfg.key()), "dense")
                body = bytearray()
                present = []
                for i in range(count):
                    if i in es:
                        while len(body) % 4:
                            body.append(0)
                        present.append((i, len(body)))
                        body += self._entry(*es[i])
                pos = dict(present)
                if mode == "sparse":                      # FLAG_SPARSE: (index u16, offset/4 u16) for the present entries only
                    table = b"".join(struct.pack("<HH", i, o // 4) for i, o in present)
                    flags, n = 1, len(present)
                elif mode == "off16":                     # FLAG_OFFSET16: offset/4 as u16, 0xffff = no entry
                    table = b"".join(struct.pack("<H", pos[i] // 4 if i in pos else 0xFFFF) for i in range(count))
                    if len(table) % 4:
                        table += b"\0\0"
                    flags, n = 2, count
                else:
                    table = b"".join(struct.pack("<I", pos.get(i, 0xFFFFFFFF)) for i in range(count))
                    flags, n = 0, count
                cfgb = cfg.pack()
                hsize = 20 + len(cfgb)
                start = hsize + len(table)
                chunks += struct.pack("<HHIBBHII", 0x0201, hsize, start + len(body), tid, flags, 0, n, start) + cfgb
                chunks += table + bytes(body)
        tpool = string_pool(self.types, utf8=False)
        kpool = string_pool(self.keys, utf8=self.utf8)
        hsize = 288
        name = self.package.encode("utf-16-le")[:254]
        name = name + b"\0" * (256 - len(name))
        chunks += getattr(self, "extra_chunks", b"")
        psize = hsize + len(tpool) + len(kpool) + len(chunks)
        pkg = struct.pack("<HHII", 0x0200, hsize, psize, self.package_id) + name + \
            struct.pack("<IIIII", hsize, len(self.types), hsize + len(tpool), len(self.keys), 0)
        return pkg + tpool + kpool + bytes(chunks)

    def build(self):
        return build_tables([self])


def build_tables(tables, top_extra=b"", declared_packages=None):
    """one resource table holding the packages of several Table objects; only the first one may use the global value pool.
    top_extra: bytes of further chunks between the global pool and the packages."""
    pkgs = b"".join(t.package_chunk() for t in tables)           # building the entries fills the value pool
    for t in tables[1:]:
        assert not t.values or t.values is tables[0].values, "the packages of one table share one global string pool"
    gpool = string_pool(tables[0].values, utf8=tables[0].utf8)
    total = 12 + len(gpool) + len(top_extra) + len(pkgs)
    n = len(tables) if declared_packages is None else declared_packages
    return struct.pack("<HHII", 0x0002, 12, total, n) + gpool + top_extra + pkgs
