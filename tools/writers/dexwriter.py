"""Independent DEX (version 035) writer, written from the Dalvik executable format document.

Used to build inputs for the correspondence checks.  Nothing here imports androguard.

    b = DexBuilder()
    c = b.add_class("Lfoo/Bar;", access=1, superclass="Ljava/lang/Object;", interfaces=[], source_file=None)
    c.add_field("x", "I", access=0x8, static=True, value=("int", -1))
    c.add_method("m", "V", ["I"], access=1, direct=False,
                 code=Code(registers=2, ins=2, outs=0, insns=[0x000e], tries=[]))
    data = b.build()

`insns` is a list whose items are 16-bit code units (ints) or references resolved when the pools are laid out:
Str(s) / Type(t) / Field(cls, name, type) / Meth(cls, name, ret, params) give one unit (the 16-bit index),
Str32(s) gives two units (32-bit index, low half first).  Tries: Try(start, count, [(type, addr), ...], catch_all|None).
"""
import hashlib
import struct
import zlib

NO_INDEX = 0xFFFFFFFF


def uleb(v):
    out = bytearray()
    while True:
        b = v & 0x7F
        v >>= 7
        if v:
            out.append(b | 0x80)
        else:
            out.append(b)
            return bytes(out)


def sleb(v):
    out = bytearray()
    while True:
        b = v & 0x7F
        v >>= 7
        done = (v == 0 and not b & 0x40) or (v == -1 and b & 0x40)
        out.append(b if done else b | 0x80)
        if done:
            return bytes(out)


def uleb_wide(v, n):
    """v in n bytes (n at least the shortest length, at most 5): the shortest form followed by empty continuation groups"""
    b = bytearray(uleb(v))
    while len(b) < n:
        b[-1] |= 0x80
        b.append(0)
    return bytes(b)


def sleb_wide(v, n, trunc=False):
    """a 32-bit signed v in n bytes, sign-extended; with trunc and n = 5 the last byte carries bits 28..31 only"""
    b = bytearray(sleb(v))
    fill = 0x7F if v < 0 else 0
    while len(b) < n:
        b[-1] |= 0x80
        b.append(fill)
    if trunc and len(b) == 5:
        b[4] &= 0x0F
    return bytes(b)


def utf16_units(s):
    out = []
    for ch in s:
        c = ord(ch)
        if c >= 0x10000:
            c -= 0x10000
            out += [0xD800 | (c >> 10), 0xDC00 | (c & 0x3FF)]
        else:
            out.append(c)
    return out


def mutf8(s):
    """Modified UTF-8 of a str (each UTF-16 code unit encoded separately, U+0000 as c0 80)."""
    out = bytearray()
    for u in utf16_units(s):
        if u != 0 and u < 0x80:
            out.append(u)
        elif u < 0x800:
            out += bytes((0xC0 | (u >> 6), 0x80 | (u & 0x3F)))
        else:
            out += bytes((0xE0 | (u >> 12), 0x80 | ((u >> 6) & 0x3F), 0x80 | (u & 0x3F)))
    return bytes(out)


class Str:
    def __init__(self, s):
        self.s = s


class Str32(Str):
    pass


class Type:
    def __init__(self, t):
        self.t = t


class Field:
    def __init__(self, cls, name, typ):
        self.key = (cls, name, typ)


class Meth:
    def __init__(self, cls, name, ret, params):
        self.key = (cls, name, ret, tuple(params))


class Try:
    def __init__(self, start, count, handlers, catch_all=None):
        self.start, self.count, self.handlers, self.catch_all = start, count, list(handlers), catch_all


class Code:
    def __init__(self, registers, ins, outs, insns, tries=(), pad_unit=0, leb_seed=None, extra_lists=()):
        self.registers, self.ins, self.outs, self.insns, self.tries = registers, ins, outs, list(insns), list(tries)
        self.pad_unit = pad_unit
        self.extra_lists = list(extra_lists)   # handler lists no try item refers to: (typed handlers, catch_all, in front?)
        self.leb_seed = leb_seed      # None: every LEB128 of the handler lists in its shortest form; a seed: lengths chosen at random


class _Member:
    pass


class ClassDef:
    def __init__(self, name, access, superclass, interfaces, source_file):
        self.name, self.access, self.superclass = name, access, superclass
        self.interfaces, self.source_file = list(interfaces), source_file
        self.fields = []       # (name, type, access, static, value)
        self.methods = []      # (name, ret, params, access, direct, code)

    def add_field(self, name, typ, access=0, static=False, value=None):
        self.fields.append((name, typ, access, static, value))
        return self

    def add_method(self, name, ret, params, access=1, direct=False, code=None):
        self.methods.append((name, ret, tuple(params), access, direct, code))
        return self


def shorty(ret, params):
    return "".join("L" if t[0] in "L[" else t[0] for t in (ret,) + tuple(params))


def encode_value(kind, v, b):
    """encoded_value for static field initialisers: kind in byte short char int long boolean string type null"""
    def minimal_signed(x, n):
        raw = x.to_bytes(n, "little", signed=True)
        k = n
        while k > 1 and ((raw[k - 1] == 0x00 and not raw[k - 2] & 0x80) or (raw[k - 1] == 0xFF and raw[k - 2] & 0x80)):
            k -= 1
        return raw[:k]

    def minimal_unsigned(x, n):
        raw = x.to_bytes(n, "little")
        k = n
        while k > 1 and raw[k - 1] == 0:
            k -= 1
        return raw[:k]
    if kind == "byte":
        return bytes((0x00,)) + (v & 0xFF).to_bytes(1, "little")
    if kind == "short":
        r = minimal_signed(v, 2)
        return bytes((0x02 | (len(r) - 1) << 5,)) + r
    if kind == "char":
        r = minimal_unsigned(v, 2)
        return bytes((0x03 | (len(r) - 1) << 5,)) + r
    if kind == "int":
        r = minimal_signed(v, 4)
        return bytes((0x04 | (len(r) - 1) << 5,)) + r
    if kind == "long":
        r = minimal_signed(v, 8)
        return bytes((0x06 | (len(r) - 1) << 5,)) + r
    if kind == "boolean":
        return bytes((0x1F | (1 if v else 0) << 5,))
    if kind == "null":
        return bytes((0x1E,))
    if kind == "string":
        r = minimal_unsigned(b.string_index(v), 4)
        return bytes((0x17 | (len(r) - 1) << 5,)) + r
    if kind == "type":
        r = minimal_unsigned(b.type_index(v), 4)
        return bytes((0x18 | (len(r) - 1) << 5,)) + r
    if kind == "raw":
        return bytes(v)
    raise ValueError(kind)


class DexBuilder:
    def __init__(self, version=b"035", sort_pools=True, map_order=None, extra_strings=(), extra_types=(), strings_last=False,
                 tail=b"", string_data_order=None, extra_fields=(), extra_methods=(), share_static_values=False):
        self.classes = []
        self.share_static_values = share_static_values     # equal encoded arrays of static values are written once (as dx/d8 do)
        self.extra_fields = list(extra_fields)      # (class, name, type) referenced by nothing: they only take up field ids
        self.extra_methods = list(extra_methods)    # (class, name, return type, parameter types)
        self.string_data_order = string_data_order    # None (order of the ids) | "reverse" | function n -> permutation
        self.strings_last = strings_last    # string data after the map list, at the very end of the file
        self.tail = tail                    # bytes appended after everything else (still inside file_size)
        self.version = version
        self.sort_pools = sort_pools
        self.map_order = map_order          # optional permutation function applied to the map item list
        self.extra_strings = list(extra_strings)
        self.extra_types = list(extra_types)

    def add_class(self, name, access=1, superclass="Ljava/lang/Object;", interfaces=(), source_file=None):
        c = ClassDef(name, access, superclass, interfaces, source_file)
        self.classes.append(c)
        return c

    # ---- pools ----
    def string_index(self, s):
        return self._sidx[s]

    def type_index(self, t):
        return self._tidx[t]

    def _collect(self):
        strings, types, protos = set(self.extra_strings), set(self.extra_types), set()
        fields, methods = set(self.extra_fields), set((c, n, r, tuple(ps)) for c, n, r, ps in self.extra_methods)

        def use_proto(ret, params):
            protos.add((ret, tuple(params)))

        for c in self.classes:
            types.add(c.name)
            if c.superclass is not None:
                types.add(c.superclass)
            types.update(c.interfaces)
            if c.source_file is not None:
                strings.add(c.source_file)
            for (n, t, a, st, v) in c.fields:
                fields.add((c.name, n, t))
                if v is not None and v[0] == "string":
                    strings.add(v[1])
                if v is not None and v[0] == "type":
                    types.add(v[1])
            for (n, r, ps, a, d, code) in c.methods:
                methods.add((c.name, n, r, ps))
                if code is not None:
                    for it in code.insns:
                        if isinstance(it, Str):
                            strings.add(it.s)
                        elif isinstance(it, Type):
                            types.add(it.t)
                        elif isinstance(it, Field):
                            fields.add(it.key)
                        elif isinstance(it, Meth):
                            methods.add(it.key)
                    for t in code.tries:
                        for (ty, addr) in t.handlers:
                            types.add(ty)
        for (cl, n, t) in fields:
            types.update((cl, t))
            strings.add(n)
        for (cl, n, r, ps) in methods:
            types.add(cl)
            strings.add(n)
            use_proto(r, ps)
        for (r, ps) in protos:
            types.add(r)
            types.update(ps)
            strings.add(shorty(r, ps))
        strings.update(types)
        key = (lambda s: utf16_units(s)) if self.sort_pools else None
        self.strings = sorted(strings, key=key) if self.sort_pools else list(dict.fromkeys(
            list(self.extra_strings) + sorted(strings, key=utf16_units)))
        self._sidx = {s: i for i, s in enumerate(self.strings)}
        self.types = sorted(types, key=lambda t: self._sidx[t])
        self._tidx = {t: i for i, t in enumerate(self.types)}
        self.protos = sorted(protos, key=lambda p: (self._tidx[p[0]], [self._tidx[x] for x in p[1]]))
        self._pidx = {p: i for i, p in enumerate(self.protos)}
        self.fields = sorted(fields, key=lambda f: (self._tidx[f[0]], self._sidx[f[1]], self._tidx[f[2]]))
        self._fidx = {f: i for i, f in enumerate(self.fields)}
        self.methods = sorted(methods, key=lambda m: (self._tidx[m[0]], self._sidx[m[1]], self._pidx[(m[2], m[3])]))
        self._midx = {m: i for i, m in enumerate(self.methods)}

    def field_index(self, cls, name, typ):
        return self._fidx[(cls, name, typ)]

    def method_index(self, cls, name, ret, params):
        return self._midx[(cls, name, ret, tuple(params))]

    # ---- items ----
    def _code_item(self, code):
        units = []
        for it in code.insns:
            if isinstance(it, Str32):
                i = self._sidx[it.s]
                units += [i & 0xFFFF, i >> 16]
            elif isinstance(it, Str):
                units.append(self._sidx[it.s])
            elif isinstance(it, Type):
                units.append(self._tidx[it.t])
            elif isinstance(it, Field):
                units.append(self._fidx[it.key])
            elif isinstance(it, Meth):
                units.append(self._midx[it.key])
            else:
                units.append(it & 0xFFFF)
        out = bytearray(struct.pack("<HHHHII", code.registers, code.ins, code.outs, len(code.tries), 0, len(units)))
        out += b"".join(struct.pack("<H", u) for u in units)
        if code.tries:
            if len(units) % 2:
                out += struct.pack("<H", code.pad_unit)
            # handler lists: one encoded_catch_handler per try, in order (shared lists when equal)
            hl = bytearray()
            offs = {}
            lists = []
            for t in code.tries:
                k = (tuple(t.handlers), t.catch_all)
                if k not in lists:
                    lists.append(k)
            for hs, ca, front in code.extra_lists:
                k = (tuple(hs), ca)
                if k not in lists:
                    lists.insert(0, k) if front else lists.append(k)
            if code.leb_seed is None:
                U, S = uleb, sleb
            else:
                import random
                lr = random.Random(code.leb_seed)
                U = lambda v: uleb_wide(v, lr.randint(len(uleb(v)), 5) if lr.random() < 0.5 else 0)
                S = lambda v: sleb_wide(v, lr.randint(len(sleb(v)), 5) if lr.random() < 0.7 else 0, trunc=lr.random() < 0.5)
            hl += U(len(lists))
            for k in lists:
                offs[k] = len(hl)
                hs, ca = k
                hl += S(-len(hs) if ca is not None else len(hs))
                for (ty, addr) in hs:
                    hl += U(self._tidx[ty]) + U(addr)
                if ca is not None:
                    hl += U(ca)
            for t in code.tries:
                out += struct.pack("<IHH", t.start, t.count, offs[(tuple(t.handlers), t.catch_all)])
            out += hl
        return bytes(out)

    def build(self):
        self._collect()
        n_s, n_t, n_p, n_f, n_m, n_c = map(len, (self.strings, self.types, self.protos, self.fields, self.methods, self.classes))
        off = 0x70
        string_ids_off = off; off += 4 * n_s
        type_ids_off = off; off += 4 * n_t
        proto_ids_off = off; off += 12 * n_p
        field_ids_off = off; off += 8 * n_f
        method_ids_off = off; off += 8 * n_m
        class_defs_off = off; off += 32 * n_c
        data_off = off
        data = bytearray()

        def align(n):
            while (data_off + len(data)) % n:
                data.append(0)

        def here():
            return data_off + len(data)

        items = []        # (type, count, offset) for the map

        # type lists (proto parameters and interfaces)
        tl_off = {}
        tls = []
        for (r, ps) in self.protos:
            if ps and ps not in tls:
                tls.append(ps)
        for c in self.classes:
            if c.interfaces and tuple(c.interfaces) not in tls:
                tls.append(tuple(c.interfaces))
        first = None
        for tl in tls:
            align(4)
            tl_off[tl] = here()
            first = first if first is not None else here()
            data += struct.pack("<I", len(tl)) + b"".join(struct.pack("<H", self._tidx[t]) for t in tl)
        if tls:
            items.append((0x1001, len(tls), first))

        # code items
        code_off = {}
        n_code, first = 0, None
        for c in self.classes:
            for mi, (n, r, ps, a, d, code) in enumerate(c.methods):
                if code is not None:
                    align(4)
                    code_off[(c.name, mi)] = here()
                    first = first if first is not None else here()
                    data += self._code_item(code)
                    n_code += 1
        if n_code:
            items.append((0x2001, n_code, first))

        # class data
        cd_off = {}
        n_cd, first = 0, None
        for c in self.classes:
            if not c.fields and not c.methods:
                cd_off[c.name] = 0
                continue
            cd_off[c.name] = here()
            first = first if first is not None else here()
            n_cd += 1
            sf = sorted([f for f in c.fields if f[3]], key=lambda f: self._fidx[(c.name, f[0], f[1])])
            inf = sorted([f for f in c.fields if not f[3]], key=lambda f: self._fidx[(c.name, f[0], f[1])])
            ms = list(enumerate(c.methods))
            dm = sorted([m for m in ms if m[1][4]], key=lambda m: self._midx[(c.name, m[1][0], m[1][1], m[1][2])])
            vm = sorted([m for m in ms if not m[1][4]], key=lambda m: self._midx[(c.name, m[1][0], m[1][1], m[1][2])])
            data += uleb(len(sf)) + uleb(len(inf)) + uleb(len(dm)) + uleb(len(vm))
            for group in (sf, inf):
                prev = 0
                for f in group:
                    i = self._fidx[(c.name, f[0], f[1])]
                    data += uleb(i - prev) + uleb(f[2])
                    prev = i
            for group in (dm, vm):
                prev = 0
                for (mi, m) in group:
                    i = self._midx[(c.name, m[0], m[1], m[2])]
                    data += uleb(i - prev) + uleb(m[3]) + uleb(code_off.get((c.name, mi), 0))
                    prev = i
        if n_cd:
            items.append((0x2000, n_cd, first))

        # static values
        sv_off = {}
        sv_seen = {}
        n_sv, first = 0, None
        for c in self.classes:
            sf = sorted([f for f in c.fields if f[3]], key=lambda f: self._fidx[(c.name, f[0], f[1])])
            last = max([i for i, f in enumerate(sf) if f[4] is not None], default=-1)
            if last < 0:
                sv_off[c.name] = 0
                continue
            arr = bytearray(uleb(last + 1))
            for f in sf[:last + 1]:
                v = f[4]
                if v is None:
                    t = f[1]
                    v = ("null", None) if t[0] in "L[" else ("boolean", False) if t == "Z" else \
                        ("byte", 0) if t == "B" else ("short", 0) if t == "S" else ("char", 0) if t == "C" else \
                        ("long", 0) if t == "J" else ("int", 0)
                arr += encode_value(v[0], v[1], self)
            if self.share_static_values and bytes(arr) in sv_seen:
                sv_off[c.name] = sv_seen[bytes(arr)]
                continue
            sv_off[c.name] = here()
            sv_seen[bytes(arr)] = here()
            first = first if first is not None else here()
            n_sv += 1
            data += arr
        if n_sv:
            items.append((0x2005, n_sv, first))

        # string data (normally before the map list; with strings_last after it, ending the file)
        sd_off = []
        sdata = bytearray()
        rel = [0] * len(self.strings)
        order = list(range(len(self.strings)))
        if self.string_data_order == "reverse":
            order.reverse()
        elif self.string_data_order is not None:
            order = list(self.string_data_order(len(self.strings)))          # a function n -> permutation of range(n)
        for k in order:                                                       # the data items need not follow the order of the ids
            s = self.strings[k]
            rel[k] = len(sdata)
            sdata += uleb(len(utf16_units(s))) + mutf8(s) + b"\0"
        n_items = len(items) + 2 + sum(1 for x in (1, n_s, n_t, n_p, n_f, n_m, n_c) if x > 0)
        if not self.strings_last:
            first = here()
            sd_off = [first + r for r in rel]
            data += sdata
            align(4)
            map_off = here()
        else:
            align(4)
            map_off = here()
            first = map_off + 4 + 12 * n_items
            sd_off = [first + r for r in rel]
        items.append((0x2002, n_s, first))

        # map list
        head = [(0x0000, 1, 0), (0x0001, n_s, string_ids_off), (0x0002, n_t, type_ids_off), (0x0003, n_p, proto_ids_off),
                (0x0004, n_f, field_ids_off), (0x0005, n_m, method_ids_off), (0x0006, n_c, class_defs_off)]
        head = [h for h in head if h[1] > 0]
        allitems = sorted(head + items + [(0x1000, 1, map_off)], key=lambda x: x[2])
        assert len(allitems) == n_items
        if self.map_order:
            allitems = self.map_order(allitems)
        data += struct.pack("<I", len(allitems))
        for (ty, cnt, o) in allitems:
            data += struct.pack("<HHII", ty, 0, cnt, o)
        if self.strings_last:
            data += sdata
        data += self.tail
        self.string_data_off, self.string_data_offsets = first, sd_off

        ids = bytearray()
        for o in sd_off:
            ids += struct.pack("<I", o)
        for t in self.types:
            ids += struct.pack("<I", self._sidx[t])
        for (r, ps) in self.protos:
            ids += struct.pack("<III", self._sidx[shorty(r, ps)], self._tidx[r], tl_off[ps] if ps else 0)
        for (cl, n, t) in self.fields:
            ids += struct.pack("<HHI", self._tidx[cl], self._tidx[t], self._sidx[n])
        for (cl, n, r, ps) in self.methods:
            ids += struct.pack("<HHI", self._tidx[cl], self._pidx[(r, ps)], self._sidx[n])
        for c in self.classes:
            ids += struct.pack("<IIIIIIII", self._tidx[c.name], c.access,
                               self._tidx[c.superclass] if c.superclass is not None else NO_INDEX,
                               tl_off[tuple(c.interfaces)] if c.interfaces else 0,
                               self._sidx[c.source_file] if c.source_file is not None else NO_INDEX,
                               0, cd_off[c.name], sv_off[c.name])
        assert len(ids) == data_off - 0x70
        file_size = data_off + len(data)
        hdr = bytearray(0x70)
        hdr[0:8] = b"dex\n" + self.version + b"\0"
        struct.pack_into("<IIIIIIIIIIIIIIIIIIII", hdr, 32, file_size, 0x70, 0x12345678, 0, 0, map_off,
                         n_s, string_ids_off if n_s else 0, n_t, type_ids_off if n_t else 0, n_p, proto_ids_off if n_p else 0,
                         n_f, field_ids_off if n_f else 0, n_m, method_ids_off if n_m else 0, n_c, class_defs_off if n_c else 0,
                         len(data), data_off)
        out = bytearray(bytes(hdr) + bytes(ids) + bytes(data))
        return finish(out)


def finish(buf):
    """Recompute SHA-1 signature and Adler-32 checksum of a DEX buffer."""
    buf = bytearray(buf)
    buf[12:32] = hashlib.sha1(bytes(buf[32:])).digest()
    struct.pack_into("<I", buf, 8, zlib.adler32(bytes(buf[12:])) & 0xFFFFFFFF)
    return bytes(buf)
