"""Independent binary XML (AXML) writer, written from the AOSP ResourceTypes.h layout (ResXMLTree_header, ResStringPool,
resource map, ResXMLTree_node + namespaceExt / attrExt / endElementExt / cdataExt, ResXMLTree_attribute, Res_value).
Nothing here imports androguard.

A document is a list of nodes:
    ("ns", prefix, uri, [children])                      start/end namespace around the children
    ("el", ns_uri or None, name, [attr], [children])     attr = (ns_uri or None, name, raw_string or None, type, data)
    ("text", string)
For a string-typed attribute data is the string itself (raw_string is then set to the same string index).
Attribute names listed in `resmap` ({name: resource id}) are placed first in the string pool, as aapt does, and get an
entry in the resource map chunk.
"""
import struct

from tools.writers.arscwriter import string_pool

RES_XML_TYPE, RES_XML_RESOURCE_MAP = 0x0003, 0x0180
START_NS, END_NS, START_EL, END_EL, CDATA = 0x0100, 0x0101, 0x0102, 0x0103, 0x0104
TYPE_STRING = 3
NONE = 0xFFFFFFFF


class Pool:
    def __init__(self, first=()):
        self.l = list(first)

    def idx(self, s):
        if s is None:
            return NONE
        if s not in self.l:
            self.l.append(s)
        return self.l.index(s)


def build(nodes, utf8=False, resmap=None, extra_strings=(), line=1, pool_first=None, strip_mapped=False):
    resmap = dict(resmap or {})
    pool = Pool(list(resmap) if pool_first is None else list(pool_first))
    for s in extra_strings:
        pool.idx(s)
    body = bytearray()

    def node(kind, ext, comment=NONE):
        return struct.pack("<HHIII", kind, 16, 16 + len(ext), line, comment) + ext

    def emit(n):
        nonlocal body
        if n[0] == "ns":
            _, prefix, uri, children = n
            body += node(START_NS, struct.pack("<II", pool.idx(prefix), pool.idx(uri)))
            for c in children:
                emit(c)
            body += node(END_NS, struct.pack("<II", pool.idx(prefix), pool.idx(uri)))
        elif n[0] == "el":
            _, ns, name, attrs, children = n
            ab = bytearray()
            for (ans, aname, raw, atype, adata) in attrs:
                if atype == TYPE_STRING:
                    data = pool.idx(adata)
                    rawi = data if raw is None else pool.idx(raw)
                else:
                    data = adata & 0xFFFFFFFF
                    rawi = pool.idx(raw)
                ab += struct.pack("<IIIHBBI", pool.idx(ans), pool.idx(aname), rawi, 8, 0, atype, data)
            ext = struct.pack("<IIHHHHHH", pool.idx(ns), pool.idx(name), 20, 20, len(attrs), 0, 0, 0) + bytes(ab)
            body += node(START_EL, ext)
            for c in children:
                emit(c)
            body += node(END_EL, struct.pack("<II", pool.idx(ns), pool.idx(name)))
        elif n[0] == "text":
            body += node(CDATA, struct.pack("<IHBBI", pool.idx(n[1]), 8, 0, 0, 0))
        else:
            raise ValueError(n[0])
    for n in nodes:
        emit(n)
    # strip_mapped: the strings the resource map covers are written empty (as aapt does with attribute names when asked to)
    nmapped = len(resmap) if (strip_mapped and pool_first is None) else 0
    sp = string_pool(["" if i < nmapped else t for i, t in enumerate(pool.l)], utf8=utf8)
    rm = b""
    if resmap:
        ids = [resmap.get(s, 0) for s in pool.l[:max(i for i, s in enumerate(pool.l) if s in resmap) + 1]]
        rm = struct.pack("<HHI", RES_XML_RESOURCE_MAP, 8, 8 + 4 * len(ids)) + b"".join(struct.pack("<I", i) for i in ids)
    total = 8 + len(sp) + len(rm) + len(body)
    return struct.pack("<HHI", RES_XML_TYPE, 8, total) + sp + rm + bytes(body), pool.l
