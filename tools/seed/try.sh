#!/bin/sh
# usage: try.sh <patch.diff> <Cxx> [tier]   - runs the check of Cxx on a scratch copy of /repo with the patch applied
set -e
PATCH=$(readlink -f "$1"); ID=$2; TIER=${3:-quick}
S=/var/tmp/ag-scratch-$$
rm -rf $S; mkdir -p $S
rsync -a --exclude .git /repo/ $S/
( cd $S && patch -p1 -s < "$PATCH" )
cd /verif
set +e
VERIF_REPO=$S VERIF_SEED=${VERIF_SEED:-1} ./check $ID --tier $TIER
RC=$?
rm -rf $S
echo "exit=$RC"
