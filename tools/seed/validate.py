#!/usr/bin/env python3
"""Confirm a seeded change delivered by a sub-agent and record it under /verif/seeded/<id>-<k>/.

usage: validate.py <Cxx> <k> [--no-suite] [--check-id Cyy ...]

Reads /tmp/out-<Cxx>/{patch<k>.diff,demo<k>.py,meta<k>.json}.  On scratch copies of /repo (outside /repo and /verif,
removed afterwards) it confirms: the demo exits 0 on the unchanged tree, the patch applies, the demo exits non-zero
with the patch, the pinned suite still passes with the patch (128 passed), and runs ./check <Cxx> against the patched
copy.  Everything it ran goes into meta.json.
"""
import json
import os
import re
import shutil
import subprocess
import sys
import time

PY = "/venv/bin/python"


def sh(cmd, cwd=None, env=None, timeout=3600):
    p = subprocess.run(cmd, shell=True, cwd=cwd, env=env, capture_output=True, text=True, timeout=timeout)
    return p.returncode, (p.stdout + p.stderr)


def main():
    pid, k = sys.argv[1], sys.argv[2]
    if "--recheck" in sys.argv:
        return recheck(pid, k)
    suite = "--no-suite" not in sys.argv
    check_ids = [pid]
    if "--check-id" in sys.argv:
        check_ids = sys.argv[sys.argv.index("--check-id") + 1:]
    src = "/tmp/out-%s" % pid
    patch = os.path.join(src, "patch%s.diff" % k)
    demo = os.path.join(src, "demo%s.py" % k)
    meta = json.load(open(os.path.join(src, "meta%s.json" % k)))
    S = "/var/tmp/ag-seed-%s-%s-%d" % (pid, k, os.getpid())
    shutil.rmtree(S, ignore_errors=True)
    os.makedirs(S)
    ran = {}
    try:
        sh("rsync -a --exclude .git /repo/ %s/" % S)
        env = dict(os.environ, PYTHONPATH=S, PYTHONHASHSEED="0", PYTHONDONTWRITEBYTECODE="1")
        text = open(demo).read().replace("/tmp/wt3-%s" % pid, S).replace("/tmp/wt2-%s" % pid, S).replace("/tmp/wt-%s" % pid, S)
        dpath = os.path.join(S, "_demo.py")
        open(dpath, "w").write(text)
        rc0, out0 = sh("%s %s" % (PY, dpath), cwd=S, env=env, timeout=900)
        ran["demo_unchanged_exit"] = rc0
        rca, outa = sh("patch -p1 -s < %s" % patch, cwd=S)
        ran["patch_applies"] = (rca == 0)
        rc1, out1 = sh("%s %s" % (PY, dpath), cwd=S, env=env, timeout=900)
        ran["demo_patched_exit"] = rc1
        ran["demo_patched_tail"] = out1[-400:]
        os.remove(dpath)
        checks = {}
        for cid in check_ids:
            t = time.time()
            rc, out = sh("VERIF_REPO=%s VERIF_SEED=1 ./check %s --tier quick" % (S, cid), cwd="/verif", timeout=3000)
            lines = [l for l in out.splitlines() if l.startswith(("VIOLATION", "KNOWN-FINDING", cid))]
            checks[cid] = {"exit": rc, "lines": lines[-4:], "wall_s": round(time.time() - t, 1)}
            # keep what the replay said
            m = re.search(r"replay=(\S+)", out)
            if m and os.path.exists(m.group(1)):
                try:
                    rj = json.load(open(m.group(1)))
                    checks[cid]["replay_kind"] = rj.get("kind")
                    checks[cid]["replay_why"] = str(rj.get("why", rj.get("broken", "")))[:400]
                    checks[cid]["replay_case"] = json.dumps(rj.get("case"))[:300]
                except Exception:
                    pass
        ran["checks"] = checks
        if suite:
            t = time.time()
            rc, out = sh("%s -m pytest -q -p no:cacheprovider --timeout=900 --continue-on-collection-errors 2>&1 | tail -12"
                         % PY, cwd=S, env=dict(env, PYTHONPATH=S), timeout=3000)
            m = re.search(r"(\d+) failed, (\d+) passed", out) or re.search(r"(\d+) passed", out)
            ran["suite_summary"] = out.strip().splitlines()[-1] if out.strip() else ""
            ran["suite_failed_tests"] = sorted(set(re.findall(r"FAILED (\S+)", out)))
            ran["suite_wall_s"] = round(time.time() - t, 1)
    finally:
        shutil.rmtree(S, ignore_errors=True)
    confirmed = ran.get("demo_unchanged_exit") == 0 and ran.get("patch_applies") and ran.get("demo_patched_exit") not in (0, None)
    if suite:
        confirmed = confirmed and "128 passed" in ran.get("suite_summary", "")
    detected = {cid: (c["exit"] == 1 and any(l.startswith("VIOLATION") for l in c["lines"])) for cid, c in ran["checks"].items()}
    out = {"property": pid, "breaks": meta.get("summary"), "needs": meta.get("needs"), "agent_tests_run": meta.get("tests_run"),
           "confirmed": bool(confirmed), "what_was_run": ran, "detected_by_quick_check": detected,
           "validated_at_repo_commit": sh("git -C /repo rev-parse --short HEAD")[1].strip(),
           "validated_at_verif_commit": sh("git -C /verif rev-parse --short HEAD")[1].strip()}
    d = "/verif/seeded/%s-%s" % (pid, k)
    os.makedirs(d, exist_ok=True)
    shutil.copy(patch, os.path.join(d, "patch.diff"))
    shutil.copy(demo, os.path.join(d, "demo.py"))
    json.dump(out, open(os.path.join(d, "meta.json"), "w"), indent=1)
    print(pid, k, "confirmed" if confirmed else "NOT CONFIRMED", "detected=%s" % detected,
          ran.get("suite_summary", ""), [c["lines"][-2:] for c in ran["checks"].values()])


def recheck(pid, k):
    """Re-run only the quick check against the recorded patch (after the check was strengthened)."""
    d = "/verif/seeded/%s-%s" % (pid, k)
    meta = json.load(open(os.path.join(d, "meta.json")))
    S = "/var/tmp/ag-seed-%s-%s-%d" % (pid, k, os.getpid())
    shutil.rmtree(S, ignore_errors=True)
    os.makedirs(S)
    try:
        sh("rsync -a --exclude .git /repo/ %s/" % S)
        rca, outa = sh("patch -p1 -s < %s" % os.path.join(d, "patch.diff"), cwd=S)
        cids = sys.argv[sys.argv.index("--check-id") + 1:] if "--check-id" in sys.argv else [pid]
        res = {}
        for cid in cids:
            rc, out = sh("VERIF_REPO=%s VERIF_SEED=1 ./check %s --tier quick" % (S, cid), cwd="/verif", timeout=3000)
            lines = [l for l in out.splitlines() if l.startswith(("VIOLATION", "KNOWN-FINDING", cid))]
            res[cid] = {"patch_applies": rca == 0, "exit": rc, "lines": lines[-4:]}
            m = re.search(r"replay=(\S+)", out)
            if m and os.path.exists(m.group(1)):
                rj = json.load(open(m.group(1)))
                res[cid]["replay_kind"] = rj.get("kind")
                res[cid]["replay_why"] = str(rj.get("why", rj.get("broken", "")))[:400]
                res[cid]["replay_case"] = json.dumps(rj.get("case"))[:300]
    finally:
        shutil.rmtree(S, ignore_errors=True)
    meta.setdefault("rechecks", []).append({"verif_commit": sh("git -C /verif rev-parse --short HEAD")[1].strip(), "checks": res})
    meta["detected_by_quick_check_now"] = {cid: (c["exit"] == 1 and any(l.startswith("VIOLATION") and "no-failing-input-found" not in l
                                                                         for l in c["lines"])) for cid, c in res.items()}
    json.dump(meta, open(os.path.join(d, "meta.json"), "w"), indent=1)
    print(pid, k, "recheck", meta["detected_by_quick_check_now"], [c["lines"][-2:] for c in res.values()])


if __name__ == "__main__":
    main()
