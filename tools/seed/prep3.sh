#!/bin/sh
# usage: prep2.sh C03  -> third round: scratch worktree /tmp/wt3-C03, deliverables patch5/patch6 in /tmp/out-C03, prints the prompt
set -e
ID=$1
WT=/tmp/wt3-$ID
git -C /repo worktree add --detach $WT HEAD >/dev/null 2>&1 || true
mkdir -p /tmp/out-$ID
python3 - "$ID" <<'PY'
import json,sys,os
pid=sys.argv[1]
for l in open('/verif/properties.jsonl'):
    p=json.loads(l)
    if p['id']==pid: break
wt='/tmp/wt3-'+pid; out='/tmp/out-'+pid
known=[]
for k in (1,2,3,4):
    f='/verif/seeded/%s-%d/meta.json'%(pid,k)
    if os.path.exists(f):
        known.append(json.load(open(f))['breaks'][:450])
print(f"""You are given a scratch git worktree of the open-source Python project androguard at {wt} (a pure-Python parser for Android DEX/APK/binary-XML/ARSC formats with analysis and the DAD decompiler). Work ONLY inside {wt} and write deliverables to {out}. Never read or modify /repo or /verif. Run Python as `/venv/bin/python` with `PYTHONPATH={wt}` (and `cd {wt}`), so that `import androguard` resolves to the worktree (verify with `androguard.__file__`). There is no network. Do not use `git stash` (the stash is shared between all worktrees of the repository and other agents work in sibling worktrees): keep your changes as patch files under the deliverables directory and switch with `git apply` / `git checkout -- .`.

Here is a semantic property that the project is supposed to satisfy:

id: {p['id']}
title: {p['title']}
statement: {p['statement']}
quantified over: {p['quantifier']['text']}
why the existing tests cannot settle it: {p['why_tests_cant']}
code it is anchored in: {json.dumps(p['anchors'])}

Your task: produce TWO different, independent, realistic code changes (the kind of slip or well-meant "simplification"/"optimisation" a maintainer could plausibly commit) to androguard's source under {wt}/androguard that each BREAK this property, while the code still imports and the existing test suite still passes. Each change should need something specific to manifest - an unusual input, a boundary value, a particular multi-step sequence of operations, a particular ordering, or two cooperating sites that each look fine alone - NOT something any ordinary use would expose at once. Make the two changes different in kind (different lines / different mechanism). Do not edit tests.

Four changes for this property are already known; yours must be DIFFERENT from them in the code they touch and in the mechanism:
{chr(10).join(' (known %d) %s' % (i + 1, k) for i, k in enumerate(known))}

The test suite: `cd {wt} && /venv/bin/python -m pytest -ra -q -p no:cacheprovider --timeout=900 --continue-on-collection-errors` (about 3-6 minutes; expected on the unchanged tree: 128 passed, 6 failed - the always-failing ones are tests.test_apk.APKTest::testAPK, testCustomPermissionProtectionLevel, testFeatures, testFrameworkResAPK, testMultipleLocaleAppName and tests.test_strings.StringTest::testMUTF8). With each of your changes applied alone the same 128 tests must still pass. Run the most relevant test files first for speed, then the whole suite once per change.

For each change k in (5, 6) deliver:
 - {out}/patch<k>.diff : output of `git -C {wt} diff` with only that change applied (apply cleanly with `git apply` on the unchanged tree)
 - {out}/demo<k>.py : a small standalone program that exits 0 and prints OK on the unchanged tree and exits 1 (printing what went wrong) with the change applied; it must exercise the real androguard API named in the property (run as `cd {wt} && PYTHONPATH={wt} /venv/bin/python {out}/demo<k>.py`)
 - {out}/meta<k>.json : {{"property": "{p['id']}", "summary": "...what was changed...", "needs": "...what specific input/sequence is needed for it to manifest...", "tests_run": "...what you ran and the pass/fail counts..."}}
When done, restore the worktree to the unchanged state (`git -C {wt} checkout -- .`) and reply with a short summary of both changes. Confirm yourself that each demo passes without and fails with the change.""")
PY
