"""C40 - Disassembly and analysis agree on instruction offsets."""
from tools.vlib import cfg_common as C

ID = "C40"
TITLE = "Disassembly and analysis agree on instruction offsets"
PROPS = "C40"
LEVEL = "proof"
DESIGN_REF = "DESIGN.md section 5, C10/C11/C12/C40"
TECHNIQUE = ('Coq theorems (block boundaries are offsets of the instruction list by the partition theorem; the payload linked to a switch or fill-array-data instruction is by definition the instruction found at the encoded offset) about the hand-written model; model tied to the source by a differential run on generated methods with aligned, misaligned and shared payloads, and by checking every reported cross-reference offset against the generated instruction offsets')
LEVEL_TEXT = ('Unbounded proof: for every modelled method, every block start is the offset of an instruction, every block end is the offset of an instruction or the end of the code, every successor and predecessor entry names the offset of the branching instruction, and the payload linked to a switch or fill-array-data instruction at offset o with encoded offset r is the instruction that starts at o + 2r (none if no instruction starts there). The model is compared with the real MethodAnalysis on generated methods on every run; cross-reference offsets reported by Analysis.create_xref for calls, field reads, new-instance and const-string are checked to be instruction offsets.')
LEVEL_NOTE = ("Trusted: Coq kernel; coq/Analysis/CfgModel.v as a rendering of _create_basic_block, determineNext, "
              "determineException, get_ins_off, set_childs, get_exception (an instruction is its byte length and kind; the "
              "linear sweep that produces the instruction list is C02's subject, not this model's); the assembler "
              "tools/vlib/dalvik_asm.py, the DEX writer and the harness tools/vlib/cfg_common.py.")
TRUSTED = ["hand-written model coq/Analysis/CfgModel.v", "tools/vlib/dalvik_asm.py, tools/writers/dexwriter.py, tools/vlib/cfg_common.py "
           "(generated methods, observation of MethodAnalysis, statement of the partition rules as oracle)"]
STREAMS = [C.STREAM(C.per_method(C.check_offsets)), C.STREAM_SHIPPED(C.per_method_shipped(C.check_offsets))]
