"""C28 - resource tables resolve to the values they contain."""
import struct

from tools.vlib.coqfmt import Err, z, zlist

ID = "C28"
TITLE = "Resource tables resolve to the values they contain"
PROPS = "C28"
LEVEL = "proof"
DESIGN_REF = "DESIGN.md section 5, C28"
TECHNIQUE = ("Coq theorems (induction over the slot list for each of the three encodings of the entry-offset array, with "
             "little-endian byte lemmas; bit-level lemmas for the compact flag and data type) about a hand-written model of "
             "the reading of a RES_TABLE_TYPE chunk and of the entry records; model tied to the source by a differential run on "
             "tables written by an independent resources.arsc writer in all encodings, with the type chunks located by the "
             "harness itself; the table-level statements are decided by the oracle")
LEVEL_TEXT = ("Partial. Unbounded proof: for every slot list (entry present at an offset, or absent), any start index and any "
              "following bytes, the dense 32-bit, the 16-bit and the sparse offset arrays are read back as exactly the "
              "existing entries with their own resource ids; a plain and a compact entry record at any position of any file "
              "are read back with their key, data type and data. Not proved: the walk over table header, string pools, "
              "package header and type specs, complex entries, and the listings (packages, locales, types, key-to-id, "
              "resolved values) - they are compared with the generated table description on every run; reference resolution "
              "is C29, locale qualifiers are C30.")
LEVEL_NOTE = ("Trusted: Coq kernel; coq/Axml/ArscTypeModel.v as a rendering of the type-chunk branch of ARSCParser.__init__ "
              "(the offset array is read at chunk start + header size, where ARSCResTableConfig leaves the stream on "
              "well-formed files) and of ARSCResTableEntry/ARSCComplex/ARSCResStringPoolRef; the harness tools/props/c28.py "
              "(its own chunk walk) and tools/writers/arscwriter.py.")
TRUSTED = ["hand-written model coq/Axml/ArscTypeModel.v (+ coq/Axml/PoolModel.v readers)",
           "correspondence harness tools/props/c28.py and the independent writer tools/writers/arscwriter.py (dense, offset16, sparse chunks)"]

COQ_HEADER = "Require Import V.Axml.PoolModel V.Axml.ArscTypeModel."
PKG = 0x7F
TYPES = ["string", "integer", "bool", "array", "style", "id"]
LANGS = ["", "de", "fr", "ja"]
MODES = ["dense", "dense", "off16", "sparse"]
STRING, REFERENCE, INT_DEC, INT_BOOL = 3, 1, 0x10, 0x12


def gen(rng, tier, ctx):
    """case = {"entries": {(type, index): {lang: value}}, "modes": {(type, lang): mode}, "utf8": bool}
    value = ("s", text) | ("i", n) | ("b", 0/1) | ("r", (type, index)) | ("a", [value...]) | ("cs", text) | ("ci", n)"""
    cases = []
    # a 16-bit-offset chunk with a hole; a sparse chunk; an array naming one resource twice; compact entries of both kinds
    cases.append({"entries": {("string", 0): {"": ("s", "alpha"), "de": ("s", "Alpha")}, ("string", 1): {"": ("s", "beta")}, ("string", 2): {"": ("s", "gamma"), "de": ("s", "Gamma")},
                              ("array", 0): {"": ("a", [("r", ("string", 0)), ("r", ("string", 1)), ("r", ("string", 0))])},
                              ("integer", 0): {"": ("ci", 42)}, ("integer", 3): {"": ("i", 7)}, ("string", 4): {"": ("cs", "compact")}},
                  "modes": {("string", "de"): "off16", ("string", ""): "sparse", ("integer", ""): "off16"}, "utf8": False})
    for _ in range(150 if tier == "thorough" else 35):
        entries = {}
        ntypes = rng.randint(1, len(TYPES))
        langs = LANGS[:rng.randint(1, len(LANGS))]
        for t in TYPES[:ntypes]:
            for i in rng.sample(range(8), rng.randint(0, 5)):
                d = {}
                for lg in langs:
                    if lg == "" and rng.random() < 0.85 or lg != "" and rng.random() < 0.4:
                        d[lg] = None
                if d:
                    entries[(t, i)] = d
        keys = list(entries)
        for (t, i), d in entries.items():
            for lg in d:
                d[lg] = rand_value(rng, t, keys, (t, i))
        modes = {(t, lg): rng.choice(MODES) for t in TYPES for lg in LANGS}
        cases.append({"entries": entries, "modes": modes, "utf8": rng.random() < 0.4})
    return cases


def rand_value(rng, t, keys, me):
    strs = [k for k in keys if k[0] == "string" and k != me]
    if t == "string":
        r = rng.random()
        if r < 0.7:
            return ("s", rng.choice(["hello", "", "Grüße", "日本", "x" * 40, "a b"]))
        if r < 0.8:
            return ("cs", rng.choice(["c1", "compact"]))
        if strs:
            return ("r", rng.choice(strs))
        return ("s", "plain")
    if t == "integer":
        return rng.choice((("i", rng.choice((0, 7, 2**31 - 1, 2**32 - 1))), ("ci", rng.choice((0, 42, 65535)))))
    if t == "bool":
        return ("b", rng.randrange(2))
    if t == "id":
        return ("b", 0)
    items = []
    for _ in range(rng.randint(0, 4)):
        items.append(("r", rng.choice(strs)) if strs and rng.random() < 0.5 else rng.choice((("s", "item"), ("i", 3))))
    return ("a", items)


def build(case):
    from tools.writers.arscwriter import Table, Config, Simple, Complex, Compact
    t = Table(package="com.ex", package_id=PKG, utf8=case["utf8"])
    for ty in TYPES:
        t.add_type(ty)

    def rid(k):
        return (PKG << 24) | ((TYPES.index(k[0]) + 1) << 16) | k[1]

    def simple(v):
        k, x = v
        if k == "s":
            return Simple(STRING, x)
        if k == "i":
            return Simple(INT_DEC, x)
        if k == "b":
            return Simple(INT_BOOL, 0xFFFFFFFF if x else 0)
        if k == "r":
            return Simple(REFERENCE, rid(x))
        raise ValueError(k)
    for lg in LANGS:
        for (ty, i), d in sorted(case["entries"].items()):
            if lg not in d:
                continue
            v = d[lg]
            cfg = Config(language=lg)
            if v[0] == "a":
                val = Complex([(0x02000000 + n, simple(it)) for n, it in enumerate(v[1])])
            elif v[0] == "cs":
                val = Compact(STRING, v[1])
            elif v[0] == "ci":
                val = Compact(INT_DEC, v[1])
            else:
                val = simple(v)
            t.add_entry(ty, i, "k_%s_%d" % (ty, i), cfg, val)
            t.modes[(ty, cfg.key())] = case["modes"].get((ty, lg), "dense")
    return t.build()


def type_chunks(raw):
    """offsets of the RES_TABLE_TYPE chunks, found by walking the chunk headers"""
    hs = struct.unpack_from("<H", raw, 2)[0]
    pos, out = hs, []
    while pos + 8 <= len(raw):
        ty, h, size = struct.unpack_from("<HHI", raw, pos)
        if ty == 0x0200:
            tstr, _, kstr = struct.unpack_from("<III", raw, pos + 268)
            ksize = struct.unpack_from("<I", raw, pos + kstr + 4)[0]
            q = pos + kstr + ksize
            while q + 8 <= pos + size:
                cty, ch, csize = struct.unpack_from("<HHI", raw, q)
                if cty == 0x0201:
                    out.append(q)
                q += csize
        pos += size
    return out


def impl(case):
    from androguard.core.axml import ARSCParser, ARSCResType, ARSCResTableEntry
    raw = build(case)
    a = ARSCParser(raw)
    pkg = a.get_packages_names()[0]
    a._analyse()
    chunks, cur = [], None
    for it in a.packages[pkg]:
        if isinstance(it, ARSCResType):
            cur = [it.id, it.flags, it.entryCount, []]
            chunks.append(cur)
        elif isinstance(it, ARSCResTableEntry):
            if it.is_complex():
                pay = [2, it.item.id_parent, it.item.count, [[n, v.get_data_type(), v.get_data()] for n, v in it.item.items]]
            elif it.is_compact():
                pay = [1, it.key, it.data, it.datatype]
            else:
                pay = [0, it.key.get_data_type(), it.key.get_data()]
            cur[3].append([it.mResId, it.size, it.flags, it.index, pay])
    api = {"packages": a.get_packages_names(), "locales": sorted(a.get_locales(pkg)), "configs": {}, "resolved": {}, "keys": {}}
    for (ty, i) in sorted(case["entries"]):
        rid = (PKG << 24) | ((TYPES.index(ty) + 1) << 16) | i
        api["configs"][rid] = sorted(c.get_language_and_region() for c, _ in a.get_res_configs(rid))
        res = {}
        for c, v in a.get_resolved_res_configs(rid):
            if isinstance(v, list):           # a complex entry: plain items are strings, resolved references are (config, value) pairs
                v = [x[1] if isinstance(x, tuple) else x for x in v]
            res.setdefault(c.get_language_and_region(), []).append(v)
        api["resolved"][rid] = res
        api["keys"][rid] = a.get_res_id_by_key(pkg, ty, "k_%s_%d" % (ty, i))
    return {"chunks": chunks, "api": api, "raw": raw}


def canon(res):
    return res["chunks"]


def coq_input(case, res):
    raw = res["raw"]
    return "(%s, (%s, %s))" % (zlist(list(raw)), z(PKG), zlist(type_chunks(raw)))


# ---- the property on the description --------------------------------------------------------------------------------------
def lang_key(lg):
    return "\x00\x00" if lg == "" else lg


def fmt(v):
    k, x = v
    if k in ("s", "cs"):
        return x
    if k in ("i", "ci"):
        return str(x - 2**32 if x > 0x7FFFFFFF else x)
    if k == "b":
        return "true" if x else "false"
    raise ValueError(k)


def resolve(case, key, lg, seen=()):
    """the values of resource `key` for language lg (the default entry when there is no entry for lg), references followed"""
    d = case["entries"].get(key)
    if d is None or key in seen:
        return []
    v = d.get(lg, d.get("", None))
    if v is None:
        v = d[sorted(d)[0]]
    if v[0] == "r":
        return resolve(case, v[1], lg, seen + (key,))
    if v[0] == "a":
        out = []
        for it in v[1]:
            out += resolve(case, it[1], lg, seen + (key,)) if it[0] == "r" else [fmt(it)]
        return [out]
    return [fmt(v)]


def oracle(case, res):
    if isinstance(res, Err):
        return "parsing the generated table failed: %s %s" % (res.name, res.msg[:150])
    api = res["api"]
    if api["packages"] != ["com.ex"]:
        return "packages %r" % (api["packages"],)
    langs = sorted({lang_key(lg) for d in case["entries"].values() for lg in d})
    if api["locales"] != langs:
        return "locales %r, the table holds %r" % (api["locales"], langs)
    for key in sorted(case["entries"]):
        rid = (PKG << 24) | ((TYPES.index(key[0]) + 1) << 16) | key[1]
        want_cfgs = sorted(lang_key(lg) for lg in case["entries"][key])
        if api["configs"][rid] != want_cfgs:
            return "resource 0x%08x (%s %d): configurations %r, the table holds %r" % (rid, key[0], key[1], api["configs"][rid], want_cfgs)
        if api["keys"][rid] != rid:
            return "key of resource 0x%08x resolves to %r" % (rid, api["keys"][rid])
        if any(v[0] == "r" for v in case["entries"][key].values()):
            continue      # a reference is resolved into the configurations of its target (C29 covers that); only direct values here
        for lg, v in case["entries"][key].items():
            got = api["resolved"][rid].get(lang_key(lg))
            if v[0] == "a":
                # an array whose references all point at resources with a single, plain, default value
                def plain_target(k):
                    d = case["entries"].get(k)
                    return d is not None and list(d) == [""] and d[""][0] in ("s", "i", "b", "cs", "ci")
                if all(it[0] != "r" or plain_target(it[1]) for it in v[1]):
                    want_items = [fmt(case["entries"][it[1]][""]) if it[0] == "r" else fmt(it) for it in v[1]]
                    if got != [want_items]:
                        return "array 0x%08x (%s %d) in configuration %r resolves to %r, the table stores the items %r" % (
                            rid, key[0], key[1], lg, got, want_items)
            if v[0] in ("s", "i", "b", "cs", "ci"):
                if got != [fmt(v)]:
                    return "resource 0x%08x (%s %d) in configuration %r resolves to %r, the table stores %r" % (rid, key[0], key[1], lg, got, fmt(v))
    return None


def stats(cases, results):
    d = {"tables": len(cases), "entries": 0, "complex": 0, "compact": 0, "references": 0, "modes": {}}
    for c in cases:
        for k, dd in c["entries"].items():
            for lg, v in dd.items():
                d["entries"] += 1
                d["complex"] += v[0] == "a"
                d["compact"] += v[0] in ("cs", "ci")
                d["references"] += v[0] == "r"
                m = c["modes"].get((k[0], lg), "dense")
                d["modes"][m] = d["modes"].get(m, 0) + 1
    return d


STREAMS = [{"name": "tables", "gen": gen, "impl": impl, "canon": canon, "coq_header": COQ_HEADER, "coq_type": "list Z * (Z * list Z)",
            "coq_input": lambda c: None, "coq_input_r": coq_input, "coq_obs": "obs_types", "model_vo": "Axml/ArscTypeModel.vo", "pinned": False,
            "oracle": oracle, "stats": stats, "shard": 6, "case_timeout": 60}]
