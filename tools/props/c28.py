"""C28 - resource tables resolve to the values they contain."""
import struct

from tools.vlib.coqfmt import Err, z, zlist

ID = "C28"
TITLE = "Resource tables resolve to the values they contain"
PROPS = "C28"
LEVEL = "proof"
DESIGN_REF = "DESIGN.md section 5, C28"
TECHNIQUE = ("Coq theorems (induction over the slot list for each of the three encodings of the entry-offset array, with "
             "little-endian byte lemmas; bit-level lemmas for the compact flag and data type) about a hand-written model of "
             "the reading of a RES_TABLE_TYPE chunk and of the entry records; model tied to the source by a differential run on "
             "tables written by an independent resources.arsc writer in all encodings, with the type chunks located by the "
             "harness itself; the table-level statements are decided by the oracle")
LEVEL_TEXT = ("Partial. Unbounded proof: for every slot list (entry present at an offset, or absent), any start index and any "
              "following bytes, the dense 32-bit, the 16-bit and the sparse offset arrays are read back as exactly the existing "
              "entries with their own resource ids; a plain and a compact entry record at any position of any file are read "
              "back with their key, data type and data, a complex entry with its parent and exactly its items; the string "
              "pools are read back exactly (theorem of C26); a WHOLE type chunk (header, configuration of 52 bytes or more, dense "
              "offset array, any records of the three kinds laid out one after the other) anywhere in a file is read back as "
              "exactly its entries with the resource ids package<<24 | type<<16 | index; any sequence of type-spec and type "
              "chunks of a package is walked in order and yields exactly the types; and for a whole file - table header, "
              "package count, main string pool, one package with its header, type and key string pools (any strings, either "
              "encoding) and any such chunks - parse_table returns that package with exactly the encoded types and entries "
              "(coq/Axml/ArscTypeChunk.v, ArscTableProofs.v); the whole-chunk theorem also holds for type chunks with 16-bit "
              "offsets and for sparse type chunks (ArscTypeChunkEnc.v), and the whole-file theorem for tables with ANY number "
              "of packages, each with any sequence of type specs and type chunks in any of the three encodings, packages of "
              "one name merged as ARSCParser keeps them (ArscTablesMulti.v, tables_exact). The walk is also proved to end on "
              "every input (C35). Not proved: unknown chunks in between (library, overlayable: modelled as skipped), and the "
              "listings built on the parsed table (locales, types, key-to-id, resolved values) - these are modelled where "
              "they are part of the walk and compared with the code and with the generated table description on every "
              "run; reference resolution is C29, locale qualifiers are C30.")
LEVEL_NOTE = ("Trusted: Coq kernel; coq/Axml/ArscTypeModel.v as a rendering of the type-chunk branch of ARSCParser.__init__ "
              "(the offset array is read at chunk start + header size, where ARSCResTableConfig leaves the stream on "
              "well-formed files) and of ARSCResTableEntry/ARSCComplex/ARSCResStringPoolRef; the harness tools/props/c28.py "
              "(its own chunk walk) and tools/writers/arscwriter.py.")
TRUSTED = ["hand-written models coq/Axml/ArscTypeModel.v, coq/Axml/ArscTableModel.v (+ coq/Axml/PoolModel.v readers)",
           "correspondence harness tools/props/c28.py and the independent writer tools/writers/arscwriter.py (dense, offset16, sparse chunks)"]

COQ_HEADER = "Require Import V.Axml.PoolModel V.Axml.ArscTypeModel."
PKG = 0x7F
TYPES = ["string", "integer", "bool", "array", "style", "id"]
LANGS = ["", "de", "fr", "ja", "pt-rBR", "es-r419", "fil", "fil-rPH", "en-r001"]


def cfg_of(lg):
    """Config for a locale name: language[-rREGION]; three-letter languages and three-digit regions are packed"""
    from tools.writers.arscwriter import Config
    lang, _, region = lg.partition("-r")
    return Config(language=lang, region=region)
MODES = ["dense", "dense", "off16", "sparse"]
STRING, REFERENCE, INT_DEC, INT_BOOL = 3, 1, 0x10, 0x12


def gen(rng, tier, ctx):
    """case = {"entries": {(type, index): {lang: value}}, "modes": {(type, lang): mode}, "utf8": bool}
    value = ("s", text) | ("i", n) | ("b", 0/1) | ("r", (type, index)) | ("a", [value...]) | ("cs", text) | ("ci", n)"""
    cases = []
    # a 16-bit-offset chunk with a hole; a sparse chunk; an array naming one resource twice; compact entries of both kinds
    cases.append({"entries": {("string", 0): {"": ("s", "alpha"), "de": ("s", "Alpha")}, ("string", 1): {"": ("s", "beta")}, ("string", 2): {"": ("s", "gamma"), "de": ("s", "Gamma")},
                              ("array", 0): {"": ("a", [("r", ("string", 0)), ("r", ("string", 1)), ("r", ("string", 0))])},
                              ("integer", 0): {"": ("ci", 42)}, ("integer", 3): {"": ("i", 7)}, ("string", 4): {"": ("cs", "compact")}},
                  "modes": {("string", "de"): "off16", ("string", ""): "sparse", ("integer", ""): "off16"}, "utf8": False})
    for _ in range(150 if tier == "thorough" else 35):
        entries = {}
        ntypes = rng.randint(1, len(TYPES))
        langs = [""] + rng.sample(LANGS[1:], rng.randint(0, 4))
        for t in TYPES[:ntypes]:
            for i in rng.sample(range(8), rng.randint(0, 5)):
                d = {}
                for lg in langs:
                    if lg == "" and rng.random() < 0.85 or lg != "" and rng.random() < 0.4:
                        d[lg] = None
                if d:
                    entries[(t, i)] = d
        keys = list(entries)
        for (t, i), d in entries.items():
            for lg in d:
                d[lg] = rand_value(rng, t, keys, (t, i))
        modes = {(t, lg): rng.choice(MODES) for t in TYPES for lg in LANGS}
        cases.append({"entries": entries, "modes": modes, "utf8": rng.random() < 0.4})
    return cases


def rand_value(rng, t, keys, me):
    strs = [k for k in keys if k[0] == "string" and k != me]
    if t == "string":
        r = rng.random()
        if r < 0.7:
            return ("s", rng.choice(["hello", "", "Grüße", "日本", "x" * 40, "a b"]))
        if r < 0.8:
            return ("cs", rng.choice(["c1", "compact"]))
        if strs:
            return ("r", rng.choice(strs))
        return ("s", "plain")
    if t == "integer":
        return rng.choice((("i", rng.choice((0, 7, 2**31 - 1, 2**32 - 1))), ("ci", rng.choice((0, 42, 65535)))))
    if t == "bool":
        return ("b", rng.randrange(2))
    if t == "id":
        return ("b", 0)
    items = []
    for _ in range(rng.randint(0, 4)):
        items.append(("r", rng.choice(strs)) if strs and rng.random() < 0.5 else rng.choice((("s", "item"), ("i", 3))))
    return ("a", items)


def build(case):
    return main_table(case).build()


def main_table(case):
    from tools.writers.arscwriter import Table, Config, Simple, Complex, Compact
    t = Table(package="com.ex", package_id=PKG, utf8=case["utf8"])
    for ty in TYPES:
        t.add_type(ty)

    def rid(k):
        return (PKG << 24) | ((TYPES.index(k[0]) + 1) << 16) | k[1]

    def simple(v):
        k, x = v
        if k == "s":
            return Simple(STRING, x)
        if k == "i":
            return Simple(INT_DEC, x)
        if k == "b":
            return Simple(INT_BOOL, 0xFFFFFFFF if x else 0)
        if k == "r":
            return Simple(REFERENCE, rid(x))
        raise ValueError(k)
    for lg in LANGS:
        for (ty, i), d in sorted(case["entries"].items()):
            if lg not in d:
                continue
            v = d[lg]
            cfg = cfg_of(lg)
            if v[0] == "a":
                val = Complex([(0x02000000 + n, simple(it)) for n, it in enumerate(v[1])])
            elif v[0] == "cs":
                val = Compact(STRING, v[1])
            elif v[0] == "ci":
                val = Compact(INT_DEC, v[1])
            else:
                val = simple(v)
            t.add_entry(ty, i, "k_%s_%d" % (ty, i), cfg, val)
            t.modes[(ty, cfg.key())] = case["modes"].get((ty, lg), "dense")
    return t


def type_chunks(raw):
    """offsets of the RES_TABLE_TYPE chunks, found by walking the chunk headers"""
    hs = struct.unpack_from("<H", raw, 2)[0]
    pos, out = hs, []
    while pos + 8 <= len(raw):
        ty, h, size = struct.unpack_from("<HHI", raw, pos)
        if ty == 0x0200:
            tstr, _, kstr = struct.unpack_from("<III", raw, pos + 268)
            ksize = struct.unpack_from("<I", raw, pos + kstr + 4)[0]
            q = pos + kstr + ksize
            while q + 8 <= pos + size:
                cty, ch, csize = struct.unpack_from("<HHI", raw, q)
                if cty == 0x0201:
                    out.append(q)
                q += csize
        pos += size
    return out


def impl(case):
    from androguard.core.axml import ARSCParser, ARSCResType, ARSCResTableEntry
    raw = build(case)
    a = ARSCParser(raw)
    pkg = a.get_packages_names()[0]
    a._analyse()
    chunks, cur = [], None
    for it in a.packages[pkg]:
        if isinstance(it, ARSCResType):
            cur = [it.id, it.flags, it.entryCount, []]
            chunks.append(cur)
        elif isinstance(it, ARSCResTableEntry):
            if it.is_complex():
                pay = [2, it.item.id_parent, it.item.count, [[n, v.get_data_type(), v.get_data()] for n, v in it.item.items]]
            elif it.is_compact():
                pay = [1, it.key, it.data, it.datatype]
            else:
                pay = [0, it.key.get_data_type(), it.key.get_data()]
            cur[3].append([it.mResId, it.size, it.flags, it.index, pay])
    api = {"packages": a.get_packages_names(), "locales": sorted(a.get_locales(pkg)), "configs": {}, "resolved": {}, "keys": {}}
    for (ty, i) in sorted(case["entries"]):
        rid = (PKG << 24) | ((TYPES.index(ty) + 1) << 16) | i
        api["configs"][rid] = sorted(c.get_language_and_region() for c, _ in a.get_res_configs(rid))
        res = {}
        for c, v in a.get_resolved_res_configs(rid):
            if isinstance(v, list):           # a complex entry: plain items are strings, resolved references are (config, value) pairs
                v = [x[1] if isinstance(x, tuple) else x for x in v]
            res.setdefault(c.get_language_and_region(), []).append(v)
        api["resolved"][rid] = res
        api["keys"][rid] = a.get_res_id_by_key(pkg, ty, "k_%s_%d" % (ty, i))
    return {"chunks": chunks, "api": api, "raw": raw}


def canon(res):
    return res["chunks"]


def coq_input(case, res):
    raw = res["raw"]
    return "(%s, (%s, %s))" % (zlist(list(raw)), z(PKG), zlist(type_chunks(raw)))


# ---- the property on the description --------------------------------------------------------------------------------------
def lang_key(lg):
    return "\x00\x00" if lg == "" else lg


def fmt(v):
    k, x = v
    if k in ("s", "cs"):
        return x
    if k in ("i", "ci"):
        return str(x - 2**32 if x > 0x7FFFFFFF else x)
    if k == "b":
        return "true" if x else "false"
    raise ValueError(k)


def resolve(case, key, lg, seen=()):
    """the values of resource `key` for language lg (the default entry when there is no entry for lg), references followed"""
    d = case["entries"].get(key)
    if d is None or key in seen:
        return []
    v = d.get(lg, d.get("", None))
    if v is None:
        v = d[sorted(d)[0]]
    if v[0] == "r":
        return resolve(case, v[1], lg, seen + (key,))
    if v[0] == "a":
        out = []
        for it in v[1]:
            out += resolve(case, it[1], lg, seen + (key,)) if it[0] == "r" else [fmt(it)]
        return [out]
    return [fmt(v)]


def oracle(case, res):
    if isinstance(res, Err):
        return "parsing the generated table failed: %s %s" % (res.name, res.msg[:150])
    api = res["api"]
    if api["packages"] != ["com.ex"]:
        return "packages %r" % (api["packages"],)
    langs = sorted({lang_key(lg) for d in case["entries"].values() for lg in d})
    if api["locales"] != langs:
        return "locales %r, the table holds %r" % (api["locales"], langs)
    for key in sorted(case["entries"]):
        rid = (PKG << 24) | ((TYPES.index(key[0]) + 1) << 16) | key[1]
        want_cfgs = sorted(lang_key(lg) for lg in case["entries"][key])
        if api["configs"][rid] != want_cfgs:
            return "resource 0x%08x (%s %d): configurations %r, the table holds %r" % (rid, key[0], key[1], api["configs"][rid], want_cfgs)
        if api["keys"][rid] != rid:
            return "key of resource 0x%08x resolves to %r" % (rid, api["keys"][rid])
        if any(v[0] == "r" for v in case["entries"][key].values()):
            continue      # a reference is resolved into the configurations of its target (C29 covers that); only direct values here
        for lg, v in case["entries"][key].items():
            got = api["resolved"][rid].get(lang_key(lg))
            if v[0] == "a":
                # an array whose references all point at resources with a single, plain, default value
                def plain_target(k):
                    d = case["entries"].get(k)
                    return d is not None and list(d) == [""] and d[""][0] in ("s", "i", "b", "cs", "ci")
                if all(it[0] != "r" or plain_target(it[1]) for it in v[1]):
                    want_items = [fmt(case["entries"][it[1]][""]) if it[0] == "r" else fmt(it) for it in v[1]]
                    if got != [want_items]:
                        return "array 0x%08x (%s %d) in configuration %r resolves to %r, the table stores the items %r" % (
                            rid, key[0], key[1], lg, got, want_items)
            if v[0] in ("s", "i", "b", "cs", "ci"):
                if got != [fmt(v)]:
                    return "resource 0x%08x (%s %d) in configuration %r resolves to %r, the table stores %r" % (rid, key[0], key[1], lg, got, fmt(v))
    return None


def stats(cases, results):
    d = {"tables": len(cases), "entries": 0, "complex": 0, "compact": 0, "references": 0, "modes": {}}
    for c in cases:
        for k, dd in c["entries"].items():
            for lg, v in dd.items():
                d["entries"] += 1
                d["complex"] += v[0] == "a"
                d["compact"] += v[0] in ("cs", "ci")
                d["references"] += v[0] == "r"
                m = c["modes"].get((k[0], lg), "dense")
                d["modes"][m] = d["modes"].get(m, 0) + 1
    return d


# ---- the walk over the table: packages, their chunks, odd chunks in between ----------------------------------------------
def chunk(ty, payload, hs=8):
    return struct.pack("<HHI", ty, hs, 8 + len(payload)) + payload


def gen_walk(rng, tier, ctx):
    """case = {"main": a case of gen, "others": [{"id", "name", "ints": {index: n}, "mode", "lib": bool}], "top": [odd top-level chunk kinds],
               "declared": number of packages in the table header or None}"""
    base = gen(rng, tier, ctx)
    cases = []
    for k, c in enumerate(base[:60 if tier == "thorough" else 14]):
        others = []
        for j in range(rng.choice((0, 1, 1, 2))):
            others.append({"id": rng.choice((0x7E, 0x01, 0x10 + j, 0x7F)), "name": rng.choice(("com.lib", "org.x%d" % j, "com.ex")),
                           "ints": {i: rng.randrange(1000) for i in rng.sample(range(6), rng.randint(1, 4))}, "mode": rng.choice(MODES), "lib": rng.random() < 0.4})
        top = [rng.choice(("unknown", "second_pool", "library")) for _ in range(rng.choice((0, 0, 1, 2)))]
        cases.append({"main": c, "others": others, "top": top, "declared": None if rng.random() < 0.8 else rng.choice((0, 1, 5))})
    # more packages than the header announces: the third distinct name is refused
    cases.append({"main": base[0], "others": [{"id": 1, "name": "a.b", "ints": {0: 1}, "mode": "dense", "lib": False}, {"id": 2, "name": "c.d", "ints": {0: 2}, "mode": "dense", "lib": False},
                                              {"id": 3, "name": "e.f", "ints": {0: 3}, "mode": "dense", "lib": False}], "top": [], "declared": 1})
    return cases


def build_walk(case):
    from tools.writers.arscwriter import Table, Config, Simple, build_tables, string_pool
    tables = [main_table(case["main"])]
    for k, o in enumerate(case["others"]):
        t = Table(package=o["name"], package_id=o["id"], utf8=False, values=tables[0].values)
        t.add_type("integer")
        cfg = Config(language="")
        for i, n in sorted(o["ints"].items()):
            t.add_entry("integer", i, "n%d" % i, cfg, Simple(INT_DEC, n))
        t.modes[("integer", cfg.key())] = o["mode"]
        # string resources in the default locale: one key every package has (with its own value), one only this package has
        t.add_entry("string", 0, "shared_key", cfg, Simple(STRING, "value of %s #%d" % (o["name"], k)))
        t.add_entry("string", 1, "only_%d" % k, cfg, Simple(STRING, "own %d" % k))
        if o["lib"]:
            t.extra_chunks = chunk(0x0203, struct.pack("<I", 0) , hs=12)
        tables.append(t)
    tables[0].add_entry("id", 7, "shared_key", Config(language=""), Simple(INT_DEC, 1))     # same key name, not a string, in the first package
    top = b""
    for kind in case["top"]:
        top += {"unknown": chunk(0x0300, b"\x01\x02\x03\x04\x05\x06\x07\x08"), "second_pool": string_pool(["ignored"]), "library": chunk(0x0203, struct.pack("<I", 0), hs=12)}[kind]
    return build_tables(tables, top_extra=top, declared_packages=case["declared"])


def impl_walk(case):
    from androguard.core.axml import ARSCParser, ARSCResType, ARSCResTableEntry, ARSCResTablePackage
    raw = build_walk(case)
    try:
        a = ARSCParser(raw)
    except Exception as e:
        return {"error": type(e).__name__, "raw": raw}
    out = []
    for name, items in a.packages.items():
        pid, chunks, cur = None, [], None
        for it in items:
            if isinstance(it, ARSCResTablePackage):
                pid = it.id if pid is None else pid
            elif isinstance(it, ARSCResType):
                cur = [it.id, it.flags, it.entryCount, []]
                chunks.append(cur)
            elif isinstance(it, ARSCResTableEntry):
                if it.is_complex():
                    pay = [2, it.item.id_parent, it.item.count, [[n, v.get_data_type(), v.get_data()] for n, v in it.item.items]]
                elif it.is_compact():
                    pay = [1, it.key, it.data, it.datatype]
                else:
                    pay = [0, it.key.get_data_type(), it.key.get_data()]
                cur[3].append([it.mResId, it.size, it.flags, it.index, pay])
        out.append([pid, [ord(ch) for ch in name], chunks])
    strings = []
    if isinstance(case, dict):
        for rnd in (0, 1):                                        # twice: an answer must not depend on what was asked before
            for k, o in (list(enumerate(case["others"])) if rnd == 0 else list(reversed(list(enumerate(case["others"]))))):
                for key in ("shared_key", "only_%d" % k, "only_%d" % ((k + 1) % max(1, len(case["others"])))):
                    try:
                        v = a.get_string(o["name"], key)
                    except Exception as e:
                        v = "EXC " + type(e).__name__
                    strings.append([o["name"], key, v if v is None or isinstance(v, str) else list(v)])
    return {"packages": out, "raw": raw, "strings": strings}


def canon_walk(res):
    if "error" in res:
        return Err("ResParserError" if res["error"] == "ResParserError" else "Other")
    return res["packages"]


def oracle_walk(case, res):
    if isinstance(res, Err):
        return "harness failed: %s %s" % (res.name, res.msg[:200])
    names = ["com.ex"] + [o["name"] for o in case["others"]]
    distinct = list(dict.fromkeys(names))
    declared = len(names) if case["declared"] is None else case["declared"]
    # the third, fourth ... distinct name is refused when the header announces fewer packages (len(packages) > packageCount)
    refused = any(len(list(dict.fromkeys(names[:k]))) > declared for k in range(len(names)))
    if "error" in res:
        return None if refused and res["error"] == "ResParserError" else "the table is not parsed: %s" % res["error"]
    if refused:
        return "a table with more packages than announced (%d) is accepted" % declared
    got = res["packages"]
    if ["".join(map(chr, p[1])) for p in got] != distinct:
        return "packages listed as %s, the table holds %s" % (["".join(map(chr, p[1])) for p in got], distinct)
    ids = [PKG] + [o["id"] for o in case["others"]]
    for p, nm in zip(got, distinct):
        if p[0] != ids[names.index(nm)]:
            return "package %s has id %s, stored %s" % (nm, p[0], ids[names.index(nm)])
    # every int entry of the further packages is found under its resource id, with its value
    for o in case["others"]:
        chunks = [c for p in got if "".join(map(chr, p[1])) == o["name"] for c in p[2]]
        found = {e[0]: e[4] for c in chunks for e in c[3]}
        for i, n in o["ints"].items():
            rid = ((o["id"] & 0xFF) << 24) | (1 << 16) | i
            if rid not in found or found[rid][-1] != n:
                if names.count(o["name"]) > 1 or [x["id"] for x in case["others"] if x["name"] == o["name"]].count(o["id"]) != 1 or o["name"] == "com.ex":
                    continue          # two packages of one name share a list; ids of a later one overwrite: compared with the model only
                return "package %s: resource 0x%08x = %d is not listed (%s)" % (o["name"], rid, n, found.get(rid))
    # get_string per package: the first string entry of that name in that package (packages of one name share a list), whatever
    # was asked before
    per = {}
    for k, o in enumerate(case["others"]):
        per.setdefault(o["name"], []).extend([("shared_key", "value of %s #%d" % (o["name"], k)), ("only_%d" % k, "own %d" % k)])
    for name, key, got_v in res.get("strings", []):
        want = next(([kk, vv] for kk, vv in per.get(name, []) if kk == key), None)
        if got_v != want:
            return "get_string(%r, %r) = %r, the package stores %r" % (name, key, got_v, want)
    return None


def gen_mutated(rng, tier, ctx):
    """byte-level damage to generated multi-package tables: the walk has to fail or succeed as the model says"""
    base = gen_walk(rng, "quick", ctx)
    cases = []
    for _ in range(400 if tier == "thorough" else 90):
        c = rng.choice(base)
        kind = rng.choice(("byte", "byte", "u32", "truncate", "size"))
        cases.append({"base": c, "kind": kind, "at": rng.random(), "val": rng.choice((0, 1, 4, 8, 0xFF, 0xFFFF, 0x7FFFFFFF, 0xFFFFFFFF, rng.randrange(1 << 32)))})
    return cases


def build_mutated(case):
    raw = bytearray(build_walk(case["base"]))
    k = int(case["at"] * (len(raw) - 4))
    if case["kind"] == "byte":
        raw[k] = case["val"] & 0xFF
    elif case["kind"] == "u32":
        struct.pack_into("<I", raw, k - k % 4, case["val"])
    elif case["kind"] == "truncate":
        raw = raw[:max(12, k)]
    else:                                   # a chunk size field: the word after a plausible chunk type
        q = raw.find(b"\x01\x02", k)
        if q >= 0 and q + 8 <= len(raw):
            struct.pack_into("<I", raw, q + 4, case["val"])
    return bytes(raw)


def impl_mutated(case):
    res = impl_walk.__wrapped__(build_mutated(case))
    return res


def _impl_walk_raw(raw):
    from androguard.core.axml import ARSCParser, ARSCResType, ARSCResTableEntry, ARSCResTablePackage
    try:
        a = ARSCParser(raw)
    except Exception as e:
        return {"error": type(e).__name__, "raw": raw}
    out = []
    for name, items in a.packages.items():
        pid, chunks, cur = None, [], None
        for it in items:
            if isinstance(it, ARSCResTablePackage):
                pid = it.id if pid is None else pid
            elif isinstance(it, ARSCResType):
                cur = [it.id, it.flags, it.entryCount, []]
                chunks.append(cur)
            elif isinstance(it, ARSCResTableEntry):
                if it.is_complex():
                    pay = [2, it.item.id_parent, it.item.count, [[n, v.get_data_type(), v.get_data()] for n, v in it.item.items]]
                elif it.is_compact():
                    pay = [1, it.key, it.data, it.datatype]
                else:
                    pay = [0, it.key.get_data_type(), it.key.get_data()]
                cur[3].append([it.mResId, it.size, it.flags, it.index, pay])
        out.append([pid, [ord(ch) for ch in name], chunks])
    return {"packages": out, "raw": raw}


impl_walk.__wrapped__ = _impl_walk_raw


def canon_mutated(res):
    if "error" in res:
        return Err("Other")
    return res["packages"]


def stats_walk(cases, results):
    d = {"tables": len(cases), "packages": 0, "same_name_packages": 0, "odd_top_chunks": 0, "library_chunks": 0, "refused": 0, "type_chunks": 0}
    for c, r in zip(cases, results):
        names = ["com.ex"] + [o["name"] for o in c["others"]]
        d["packages"] += len(names)
        d["same_name_packages"] += len(names) - len(set(names))
        d["odd_top_chunks"] += len(c["top"])
        d["library_chunks"] += sum(1 for o in c["others"] if o["lib"])
        if not isinstance(r, Err):
            d["refused"] += "error" in r
            d["type_chunks"] += sum(len(p[2]) for p in r.get("packages", []))
    return d


STREAMS = [{"name": "tables", "gen": gen, "impl": impl, "canon": canon, "coq_header": COQ_HEADER, "coq_type": "list Z * (Z * list Z)",
            "coq_input": lambda c: None, "coq_input_r": coq_input, "coq_obs": "obs_types", "model_vo": "Axml/ArscTypeModel.vo", "pinned": False,
            "oracle": oracle, "stats": stats, "shard": 6, "case_timeout": 60},
           {"name": "table-walk", "gen": gen_walk, "impl": impl_walk, "canon": canon_walk, "coq_header": "Require Import V.Axml.ArscTableModel.", "coq_type": "list Z",
            "coq_input": lambda c: None, "coq_input_r": lambda c, r: zlist(list(r["raw"])), "coq_obs": "obs_table", "model_vo": "Axml/ArscTableModel.vo", "pinned": False,
            "oracle": oracle_walk, "stats": stats_walk, "shard": 4, "case_timeout": 60},
           {"name": "damaged-tables", "gen": gen_mutated, "impl": impl_mutated, "canon": canon_mutated, "coq_header": "Require Import V.Axml.ArscTableModel.", "coq_type": "list Z",
            "coq_input": lambda c: None, "coq_input_r": lambda c, r: zlist(list(r["raw"])), "coq_obs": "obs_table_loose", "model_vo": "Axml/ArscTableModel.vo", "pinned": False,
            "stats": lambda cases, results: {"tables": len(cases), "parsed": sum(1 for r in results if not isinstance(r, Err) and "packages" in r),
                                              "refused": sum(1 for r in results if not isinstance(r, Err) and "error" in r)},
            "shard": 8, "case_timeout": 60}]
