"""C38 - cleaned file names are portable."""
import os
import shutil
import tempfile

from tools.vlib.coqfmt import Err, zlist, coq_bool, coq_list

ID = "C38"
TITLE = "Cleaned file names are portable"
PROPS = "C38"
LEVEL = "proof"
DESIGN_REF = "DESIGN.md section 5, C38"
TECHNIQUE = ("Coq theorems (list lemmas about rev/take_while for posixpath.split/join and str.rpartition, length "
             "arithmetic by lia, a digit-count bound for the uniqueness suffix, and a pigeonhole argument for termination "
             "of the uniqueness loop) about a hand-written model of clean_file_name with the file system as a parameter; "
             "model tied to the source by a differential run with os.path.isfile replaced by a set and on a real scratch directory")
LEVEL_TEXT = ("Unbounded proof: for every input path (any code points, any length), every set of existing files and every "
              "allowed single-character replacement, the modelled clean_file_name returns a path whose directory part is the "
              "input's directory part and whose base name has no reserved or control character, does not end with a space or "
              "dot, has at most 230 characters, and - with uniqueness requested - is not an existing file; the uniqueness loop "
              "ends within (number of existing files + 1) probes. The model is compared with the real function on every run.")
LEVEL_NOTE = ("Trusted: Coq kernel; coq/Misc/CleanNameModel.v as a rendering of clean_file_name on a POSIX system with "
              "force_nt=False (posixpath.split/join, re.match/re.sub on the three literal patterns, str.rpartition, slicing "
              "and str(int) written as list functions; the file system is the set of paths for which os.path.isfile is true); "
              "control characters are U+0000..U+001F as in the function's own pattern; the Windows branch (force_nt / os.name "
              "== 'nt') is not modelled; the harness tools/props/c38.py.")
TRUSTED = ["hand-written model coq/Misc/CleanNameModel.v of misc.clean_file_name (POSIX, force_nt=False)",
           "correspondence harness tools/props/c38.py (os.path.isfile replaced by set membership in one stream, a real "
           "scratch directory in the other; Python statement of the five requirements as oracle)"]
ASSUMPTIONS = ["fewer than 2^200 existing files (so the decimal counter suffix stays far below 230 characters)"]

COQ_HEADER = "Require Import V.Misc.CleanNameModel."
RESERVED = set('<>:"/\\|?*') | {chr(i) for i in range(32)}
MAXLEN = 230


# ---- generator-side transcription (only used to place colliding files) -------------------------------------------------
def ref_base(fname, repl="_"):
    import re
    if re.match(r'(CON|PRN|AUX|NUL|COM[1-9]|LPT[1-9])', fname):
        fname += repl
    fname = "".join(repl if c in RESERVED else c for c in fname)
    if len(fname) > MAXLEN:
        f, dot, ext = fname.rpartition(".")
        if dot and len(ext) + 1 < MAXLEN:
            fname = f[:MAXLEN - (len(ext) + 1)] + "." + ext
        else:
            fname = fname[:MAXLEN]
    if fname and fname[-1] in " .":
        fname = fname[:-1] + repl
    return fname


def ref_candidate(orig, k):
    suffix = "_%d" % k
    f, dot, ext = orig.rpartition(".")
    if dot and len(ext) + 1 + len(suffix) < MAXLEN:
        return f[:MAXLEN - (len(ext) + 1 + len(suffix))] + suffix + "." + ext
    return orig[:MAXLEN - len(suffix)] + suffix


def _rand_char(rng, wide=True):
    r = rng.random()
    if r < 0.45:
        return rng.choice("abcxyzABC0123_-")
    if r < 0.60:
        return rng.choice(". ")
    if r < 0.72:
        return rng.choice('<>:"\\|?*')
    if r < 0.80:
        return chr(rng.randrange(0, 32)) if wide else rng.choice("\t\x01\x1f")
    if r < 0.84:
        return rng.choice("\x7f\x80\x9f\xa0")
    if not wide:
        return rng.choice("éü日")
    return chr(rng.choice((rng.randrange(0x20, 0x7f), rng.randrange(0xa0, 0x800), rng.randrange(0x800, 0xd800),
                           rng.randrange(0xe000, 0x10000), rng.randrange(0x10000, 0x110000))))


def _rand_name(rng, wide=True):
    r = rng.random()
    if r < 0.10:
        n = rng.choice((0, 0, 1, 2))
    elif r < 0.55:
        n = rng.randrange(1, 40)
    elif r < 0.8:
        n = rng.choice((225, 226, 227, 228, 229, 230, 231, 232, 233, 235, 240, 255, 256))
    else:
        n = rng.randrange(200, 601)
    s = "".join(_rand_char(rng, wide) for _ in range(n))
    if rng.random() < 0.15:
        s = rng.choice(("CON", "PRN", "AUX", "NUL", "COM1", "COM9", "COM0", "LPT5", "LPT", "CO", "con", "COM", "NULL.txt")) + s
    r = rng.random()
    if r < 0.35:                      # an extension of some length
        e = rng.choice((0, 1, 3, 3, 4, 10, 200, 226, 227, 228, 229, 230, 231, 300))
        s = s + "." + "".join(rng.choice("abctxt_7") for _ in range(e))
    elif r < 0.45:
        s = s + rng.choice((".", " ", "..", " .", ". ", "  "))
    if rng.random() < 0.15 and len(s) > 231:   # a dot or space exactly where the cut happens
        k = rng.choice((229, 230, 228))
        s = s[:k] + rng.choice(". ") + s[k + 1:]
    return s


DIRS = ["", "", "d", "d/e", "./d", "d//", "/", "//", "/abs", "a b", "..", "d/../e", "we?ird*dir", ".", "d/."]


def gen_fake(rng, tier, ctx):
    n = 3000 if tier == "thorough" else 420
    cases = []
    for i in range(n):
        wide = rng.random() < 0.7
        name = _rand_name(rng, wide)
        d = rng.choice(DIRS)
        filename = name if d == "" and rng.random() < 0.7 else d + "/" + name
        if rng.random() < 0.04:
            filename = rng.choice(("", "/", "d/", "//x", "a//b", "a/b/", ".", "..", "d/ ", "d/."))
        unique = rng.random() < 0.75
        r = rng.random()
        repl = "_" if r < 0.7 else rng.choice(("-", "x", "~", "é", "X")) if r < 0.88 else \
            rng.choice((" ", ".", "/", "<", "\x00", "\x1f", "*", "", "__", "ab", "_.", "_/"))
        fs = []
        if unique and len(repl) >= 0:
            import posixpath
            p, f = posixpath.split(filename)
            try:
                base = ref_base(f, repl) if repl else ref_base(f, "")
            except Exception:
                base = f
            k = rng.choice((0, 0, 1, 1, 2, 3, 5, 11, 12, 101)) if len(base) < 400 else 0
            if tier != "thorough":
                k = min(k, 12)
            names = [base] + [ref_candidate(base, j) for j in range(max(0, k - 1))] if k else []
            if names and rng.random() < 0.2:
                del names[rng.randrange(len(names))]          # a gap: the loop must stop there
            fs = [posixpath.join(p, x) for x in names]
            if rng.random() < 0.3:
                fs.append(posixpath.join(p, "unrelated.txt"))
            if rng.random() < 0.1:
                fs.append(base)                                # same base name in another directory
            rng.shuffle(fs)
        cases.append((fs, filename, unique, repl))
    return cases


def impl_fake(case):
    fs, filename, unique, repl = case
    from androguard import misc
    real = os.path.isfile
    s = set(fs)
    os.path.isfile = lambda p: p in s
    try:
        return misc.clean_file_name(filename, unique=unique, replace=repl)
    finally:
        os.path.isfile = real


def gen_real(rng, tier, ctx):
    """ASCII names on a real scratch directory; every path is relative to that directory."""
    n = 600 if tier == "thorough" else 120
    cases = []
    for i in range(n):
        name = "".join(ch for ch in _rand_name(rng, False) if ch not in "/\x00")[:400]
        name = name.encode("ascii", "replace").decode()
        d = rng.choice(("", "", "d", "d/e"))
        filename = (d + "/" + name) if d else name
        base = ref_base(name)
        k = rng.choice((0, 1, 1, 2, 3, 11))
        names = ([base] + [ref_candidate(base, j) for j in range(k - 1)]) if k else []
        names = [x for x in names if x not in ("", ".", "..")]
        fs = sorted({(d + "/" + x) if d else x for x in names})
        cases.append((fs, filename, True, "_"))
    return cases


def impl_real(case):
    fs, filename, unique, repl = case
    from androguard import misc
    top = tempfile.mkdtemp(prefix="c38-", dir=os.environ.get("VERIF_TMP", "/var/tmp"))
    cwd = os.getcwd()
    try:
        os.chdir(top)
        os.makedirs("d/e")
        for p in fs:
            with open(p, "w"):
                pass
        return misc.clean_file_name(filename, unique=unique, replace=repl)
    finally:
        os.chdir(cwd)
        shutil.rmtree(top, ignore_errors=True)


def allowed_repl(repl):
    return len(repl) == 1 and repl not in RESERVED and repl not in " ."


def oracle(case, res):
    """The five requirements of the property, evaluated on what the real function returned."""
    fs, filename, unique, repl = case
    import posixpath
    if not allowed_repl(repl):
        return None
    if isinstance(res, Err):
        return "raised %s on %r" % (res.name, filename)
    d, b = posixpath.split(res)
    if d != posixpath.split(filename)[0]:
        return "directory changed: %r -> %r" % (posixpath.split(filename)[0], d)
    bad = [c for c in b if c in RESERVED]
    if bad:
        return "reserved or control character %r in %r" % (bad[0], b)
    if b and b[-1] in " .":
        return "name ends with %r" % b[-1]
    if len(b) > MAXLEN:
        return "name has %d characters" % len(b)
    if unique and res in set(fs):
        return "names the existing file %r" % res
    return None


def stats(cases, results):
    d = {}
    for (fs, filename, unique, repl), r in zip(cases, results):
        import posixpath
        base = posixpath.split(filename)[1]
        key = "len<=230" if len(base) <= 230 else "len>230"
        key += "/ext" if "." in base else "/noext"
        key += "/unique:%s" % ("collide" if (not isinstance(r, Err) and unique and any(
            posixpath.split(p)[0] == posixpath.split(filename)[0] for p in fs)) else "free") if unique else "/plain"
        key += "/badrepl" if not allowed_repl(repl) else ""
        key += "/err" if isinstance(r, Err) else ""
        d[key] = d.get(key, 0) + 1
    return d


def coq_input(c):
    fs, filename, unique, repl = c
    return "((%s, %s), (%s, %s))" % (coq_list([zlist([ord(x) for x in p]) for p in fs]), zlist([ord(x) for x in filename]),
                                     coq_bool(unique), zlist([ord(x) for x in repl]))


def gen_split(rng, tier, ctx):
    out = ["", "/", "//", "a", "a/", "/a", "a/b", "a//b", "//a", "a/b/", "a/b//", "///a///b", "a/./b", "../x"]
    for _ in range(300):
        out.append("".join(rng.choice("/ab./") for _ in range(rng.randrange(0, 9))))
    return out


def impl_split(case):
    import posixpath
    from androguard import misc
    assert misc.os.path is posixpath
    return list(posixpath.split(case))


def gen_join(rng, tier, ctx):
    out = []
    for _ in range(300):
        out.append(("".join(rng.choice("/ab.") for _ in range(rng.randrange(0, 6))),
                    "".join(rng.choice("/ab.") for _ in range(rng.randrange(0, 6)))))
    return out


def impl_join(case):
    import posixpath
    return posixpath.join(case[0], case[1])


STREAMS = [
    {"name": "fake-fs", "gen": gen_fake, "impl": impl_fake, "coq_header": COQ_HEADER,
     "coq_type": "(list (list Z) * list Z) * (bool * list Z)", "coq_input": coq_input, "coq_obs": "obs_clean",
     "model_vo": "Misc/CleanNameModel.vo", "pinned": False, "oracle": oracle, "stats": stats, "shard": 60},
    {"name": "real-directory", "gen": gen_real, "impl": impl_real, "coq_header": COQ_HEADER,
     "coq_type": "(list (list Z) * list Z) * (bool * list Z)", "coq_input": coq_input, "coq_obs": "obs_clean",
     "model_vo": "Misc/CleanNameModel.vo", "pinned": False, "oracle": oracle, "stats": stats, "shard": 40},
    {"name": "posixpath-split", "gen": gen_split, "impl": impl_split, "coq_header": COQ_HEADER,
     "coq_type": "list Z", "coq_input": lambda c: zlist([ord(x) for x in c]), "coq_obs": "obs_split",
     "model_vo": "Misc/CleanNameModel.vo", "pinned": False},
    {"name": "posixpath-join", "gen": gen_join, "impl": impl_join, "coq_header": COQ_HEADER,
     "coq_type": "list Z * list Z", "coq_input": lambda c: "(%s, %s)" % (zlist([ord(x) for x in c[0]]), zlist([ord(x) for x in c[1]])),
     "coq_obs": "obs_join", "model_vo": "Misc/CleanNameModel.vo", "pinned": False},
]
