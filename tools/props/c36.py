"""C36 - concurrent sessions on one database get distinct identifiers."""
import os
import shutil
import tempfile

from tools.vlib.coqfmt import Err

ID = "C36"
TITLE = "Concurrent sessions on one database get distinct identifiers"
PROPS = "C36"
LEVEL = "proof"
DESIGN_REF = "DESIGN.md section 5, C36"
TECHNIQUE = ("Coq theorem by induction on the schedule (invariant: keys in the table are distinct and positive-bounded by the "
             "next key, finished processes hold distinct keys that are in the table) about a hand-written model of processes "
             "executing Session.__init__'s database operations one at a time under an arbitrary schedule, plus a refutation "
             "witness for the count-then-insert protocol; model tied to the source by replaying every schedule of two and "
             "three processes against the real Session() in separate processes whose dataset.Table operations are released "
             "one at a time by the harness, and by free-running concurrent processes")
LEVEL_TEXT = ("Unbounded proof: for any number of processes and every schedule of their database operations, the modelled "
              "Session.__init__ (a single database-assigned insert) completes in every process, the identifiers are pairwise "
              "distinct and each is the key of a row of table 'session'. The model is compared on every run with the real "
              "Session() constructor run in separate processes under every schedule of two and three processes (operations of "
              "dataset.Table on table 'session' released one at a time), with and without earlier sessions in the database.")
LEVEL_NOTE = ("Trusted: Coq kernel; coq/Session/SessionModel.v: each dataset.Table operation is one atomic step (SQLite "
              "serialises statements; the CREATE TABLE that dataset issues lazily inside the first insert is not interleaved "
              "separately by the schedule replay - it is exercised only by the free-running stream); a database-assigned key is "
              "1 + the largest key present (SQLite INTEGER PRIMARY KEY without AUTOINCREMENT; rows are never deleted by "
              "Session); SQLite lock time-outs under heavy contention are not modelled; the harness tools/props/c36.py.")
TRUSTED = ["hand-written model coq/Session/SessionModel.v (atomic dataset.Table operations, SQLite key assignment)",
           "correspondence harness tools/props/c36.py (forked worker processes, operation gate around dataset.Table methods)"]
ASSUMPTIONS = ["SQLite executes each statement atomically and assigns 1 + max(key) to an INTEGER PRIMARY KEY insert without key"]

COQ_HEADER = "Require Import V.Session.SessionModel."
GATED = ["insert", "insert_ignore", "insert_many", "update", "update_many", "upsert", "upsert_many", "delete", "find", "find_one",
         "count", "__len__", "distinct", "all", "__iter__", "drop"]


def gen(rng, tier, ctx):
    """case = (pre, n, schedule): pre sessions created one after the other first, then n processes under the schedule."""
    cases = []
    import itertools
    for pre in (0, 1):
        for sched in itertools.product(range(2), repeat=4):
            cases.append((pre, 2, list(sched)))
    three = list(itertools.product(range(3), repeat=4))
    if tier != "thorough":
        rng.shuffle(three)
        three = three[:24] + [(0, 1, 2, 0), (2, 1, 0, 2), (0, 0, 1, 2)]
    for sched in three:
        cases.append((rng.choice((0, 1, 2)), 3, list(sched)))
    for _ in range(30 if tier == "thorough" else 4):
        n = rng.choice((4, 5))
        cases.append((rng.choice((0, 1)), n, [rng.randrange(n) for _ in range(8)]))
    # the same schedules with some of the processes creating their session the way androguard.misc does (get_default_session() on
    # ./androguard.db); every second case
    out = []
    for k, c in enumerate(cases):
        out.append(c)
        if k % 2 == 0:
            n = c[1]
            modes = [rng.random() < 0.5 for _ in range(n)]
            if not any(modes):
                modes[rng.randrange(n)] = True
            out.append((c[0], n, c[2], modes))
    return out


def _worker(idx, db_url, to_parent, from_parent, gated, default=False):
    """Runs in a forked child: Session(db_url) with every dataset.Table operation on 'session' waiting for the parent."""
    import threading
    try:
        import dataset.table as dt
        local = threading.local()

        def wrap(name, real):
            def gate(self, *a, **kw):
                if not gated or getattr(self, "name", None) != "session" or getattr(local, "inside", False):
                    return real(self, *a, **kw)
                to_parent.send(("want", idx, name))
                from_parent.recv()
                local.inside = True
                try:
                    return real(self, *a, **kw)
                finally:
                    local.inside = False
                    to_parent.send(("did", idx, name))
            return gate
        for name in GATED:
            if hasattr(dt.Table, name):
                setattr(dt.Table, name, wrap(name, getattr(dt.Table, name)))
        if not gated:
            from_parent.recv()                      # start signal: everybody constructs at the same moment
        from androguard.session import Session
        if default:
            # the way androguard.misc creates its session: get_default_session() in the directory that holds androguard.db
            os.chdir(os.path.dirname(db_url[len("sqlite:///"):]))
            from androguard.core import androconf
            from androguard.misc import get_default_session
            androconf.CONF["SESSION"] = None
            s = get_default_session()
        else:
            s = Session(db_url=db_url)
        to_parent.send(("end", idx, "ok", s.session_id))
    except BaseException as e:  # noqa
        to_parent.send(("end", idx, "error", "%s: %s" % (type(e).__name__, str(e)[:120])))


def _rows(path):
    import sqlite3
    try:
        con = sqlite3.connect(path)
        rows = [r[0] for r in con.execute("select id from session order by rowid")]
        con.close()
        return rows
    except Exception as e:
        return ["no-table: %s" % e]


def impl(case):
    """see impl_free: a run that fails only with SQLite's 'database is locked' (a lock wait that timed out on a stalled disk)
    says nothing about the property and is repeated, at most four times"""
    for attempt in range(4):
        r = _impl_once(case)
        if isinstance(r, Err) or not any("database is locked" in str(x) for x in r[3]):
            return r
    return r


def _impl_once(case):
    import multiprocessing as mp
    import androguard.session  # noqa: imported before forking
    import androguard.misc  # noqa
    pre, n, sched = case[:3]
    modes = case[3] if len(case) > 3 else [False] * n        # which of the n processes go through get_default_session()
    ctx = mp.get_context("fork")
    top = tempfile.mkdtemp(prefix="c36-", dir=os.environ.get("VERIF_TMP", "/var/tmp"))
    path = os.path.join(top, "androguard.db")
    db_url = "sqlite:///" + path
    total = pre + n
    try:
        pipes, procs = {}, {}
        results = {}
        ops = {i: [] for i in range(total)}
        waiting = {}

        def start(i):
            a, b = ctx.Pipe()
            c, d = ctx.Pipe()
            p = ctx.Process(target=_worker, args=(i, db_url, b, c, True, i >= pre and modes[i - pre]))
            p.start()
            pipes[i] = (a, d)
            procs[i] = p

        def pump(i, want_kind, timeout=60):
            """read messages of process i until one of kind want_kind (or its end) arrives"""
            conn = pipes[i][0]
            while True:
                if not conn.poll(timeout):
                    results.setdefault(i, ("error", "timeout"))
                    return "end"
                m = conn.recv()
                if m[0] == "want":
                    waiting[i] = m[2]
                elif m[0] == "did":
                    ops[i].append(m[2])
                elif m[0] == "end":
                    results[i] = (m[2], m[3])
                if m[0] == want_kind or m[0] == "end":
                    return m[0]

        def release(i):
            """let process i perform its next database operation; False when it has finished"""
            if i in results:
                return False
            if i not in pipes:
                start(i)
            if i not in waiting:
                if pump(i, "want") == "end":
                    return False
            del waiting[i]
            pipes[i][1].send("go")
            pump(i, "did")
            return True
        for i in range(pre):                         # earlier sessions, one after the other
            start(i)
            while release(i):
                pass
        # a process begins (is forked and runs its constructor up to its first operation on the table) when the schedule
        # first lets it act: whatever a constructor does before that operation then happens at that point of the schedule
        for k in sched:
            release(pre + k)
        for i in range(pre, total):
            while release(i):
                pass
        for i in range(total):
            if i not in results:
                pump(i, "end")
        for p in procs.values():
            p.join(20)
            if p.is_alive():
                p.terminate()
        status = [[1 if results[i][0] == "ok" else 2, results[i][1] if results[i][0] == "ok" else None] for i in range(total)]
        errors = [results[i][1] for i in range(total) if results[i][0] != "ok"]
        return [status, _rows(path), [ops[i] for i in range(total)], errors]
    finally:
        shutil.rmtree(top, ignore_errors=True)


def canon(res):
    status, rows, ops, errors = res
    return [status, rows]


def coq_input(case):
    pre, n, sched = case[:3]
    full = list(range(pre)) + [pre + k for k in sched]
    return "(%d%%nat, [%s])" % (pre + n, "; ".join("%d%%nat" % k for k in full))


def oracle(case, res):
    if isinstance(res, Err):
        return "the replay harness failed: %s %s" % (res.name, res.msg[:200])
    status, rows, ops, errors = res
    if errors:
        return "a Session() constructor failed: %s" % errors[0]
    ids = [s[1] for s in status]
    if len(set(ids)) != len(ids):
        return "two sessions received the same identifier: %r (operations per process: %r)" % (ids, ops)
    if sorted(rows) != sorted(ids):
        return "session ids %r are not the keys of table 'session' %r" % (ids, rows)
    return None


def stats(cases, results):
    d = {"replays": len(cases), "processes": 0}
    for c, r in zip(cases, results):
        pre, n, sched = c[:3]
        d["through_get_default_session"] = d.get("through_get_default_session", 0) + (sum(c[3]) if len(c) > 3 else 0)
        d["processes"] += pre + n
        d["n=%d" % n] = d.get("n=%d" % n, 0) + 1
        if not isinstance(r, Err):
            for o in r[2]:
                k = "ops:" + ",".join(o)
                d[k] = d.get(k, 0) + 1
    return d


# ---- stream 2: processes that really run at the same time (no gate), decided by the property itself ---------------------
def gen_free(rng, tier, ctx):
    cases = [(pre, n) for pre in (0, 1) for n in ((2, 3, 4, 8) if tier != "thorough" else (2, 3, 4, 6, 8, 12, 16))
             for _ in range(2 if tier != "thorough" else 5)]
    # a slow peer: another connection holds the write lock of the database for a good half second while the sessions are created
    # (a session creator whose commit is slow); the others have to wait for it, not fail
    cases += [(pre, n, hold) for pre in (0, 1) for n in (1, 2, 3) for hold in ((0.7,) if tier != "thorough" else (0.3, 0.7, 1.5))]
    # some or all of the processes creating their session through androguard.misc.get_default_session()
    cases += [(pre, n, 0, k) for pre in (0, 1) for n in ((2, 4) if tier != "thorough" else (2, 3, 4, 8)) for k in sorted({1, n // 2, n})]
    return cases


def impl_free(case):
    """SQLite gives up a lock wait after five seconds; on a stalled disk (a restore or another check writing heavily) a
    constructor can then fail with 'database is locked' although nothing is wrong with the code.  Such a run says nothing
    about the property, so it is repeated; only a failure that persists over four runs is reported."""
    for attempt in range(4):
        r = _impl_free_once(case)
        if not any("database is locked" in str(x) for x in r[3]):
            return r
    return r


def _impl_free_once(case):
    import multiprocessing as mp
    import androguard.session  # noqa
    import androguard.misc  # noqa
    pre, n = case[:2]
    hold = case[2] if len(case) > 2 else 0
    ndef = case[3] if len(case) > 3 else 0          # the last ndef processes go through get_default_session()
    ctx = mp.get_context("fork")
    top = tempfile.mkdtemp(prefix="c36f-", dir=os.environ.get("VERIF_TMP", "/var/tmp"))
    path = os.path.join(top, "androguard.db")
    db_url = "sqlite:///" + path
    try:
        res = {}
        chans = []
        procs = []
        for i in range(pre + n):
            a, b = ctx.Pipe()
            c, d = ctx.Pipe()
            p = ctx.Process(target=_worker, args=(i, db_url, b, c, False, i >= pre + n - ndef))
            p.start()
            chans.append((a, d))
            procs.append(p)
            if i < pre:
                d.send("go")
                m = a.recv() if a.poll(60) else ("end", i, "error", "timeout")
                res[i] = (m[2], m[3])
        holder = None
        if hold:
            import sqlite3
            import time
            holder = sqlite3.connect(path, isolation_level=None)
            holder.execute("PRAGMA journal_mode=WAL")       # as every connection dataset opens does first (a lock held in
            holder.execute("BEGIN IMMEDIATE")               # rollback-journal mode makes that statement of a peer fail at once)
        for i in range(pre, pre + n):
            chans[i][1].send("go")
        if holder is not None:
            time.sleep(hold)
            holder.execute("ROLLBACK")
            holder.close()
        for i in range(pre, pre + n):
            a = chans[i][0]
            m = a.recv() if a.poll(120) else ("end", i, "error", "timeout")
            res[i] = (m[2], m[3])
        for p in procs:
            p.join(20)
            if p.is_alive():
                p.terminate()
        status = [[1 if res[i][0] == "ok" else 2, res[i][1] if res[i][0] == "ok" else None] for i in range(pre + n)]
        return [status, _rows(path), [], [res[i][1] for i in range(pre + n) if res[i][0] != "ok"]]
    finally:
        shutil.rmtree(top, ignore_errors=True)


def oracle_free(case, res):
    return oracle((case[0], case[1], []), res)


STREAMS = [
    {"name": "schedules", "gen": gen, "impl": impl, "canon": canon, "coq_header": COQ_HEADER,
     "coq_type": "nat * list nat", "coq_input": coq_input, "coq_obs": "obs_sessions",
     "model_vo": "Session/SessionModel.vo", "pinned": False, "oracle": oracle, "stats": stats, "case_timeout": 300},
    {"name": "free-running", "gen": gen_free, "impl": impl_free, "oracle": oracle_free, "case_timeout": 300},
]


# ---- stream 3: schedules at the level of single SQL statements (no model: the model's step is a whole table operation) ------------
def _worker_stmt(idx, db_url, to_parent, from_parent, default):
    """Session() in a forked child; every SQL statement any of its connections executes waits for the parent first"""
    try:
        from sqlalchemy import event
        from sqlalchemy.engine import Engine

        @event.listens_for(Engine, "before_cursor_execute")
        def _gate(conn, cursor, statement, parameters, context, executemany):
            to_parent.send(("want", idx, statement[:30]))
            from_parent.recv()
        from_parent.recv()                                   # the process begins when the schedule first lets it act
        from androguard.session import Session
        if default:
            os.chdir(os.path.dirname(db_url[len("sqlite:///"):]))
            from androguard.core import androconf
            from androguard.misc import get_default_session
            androconf.CONF["SESSION"] = None
            s = get_default_session()
        else:
            s = Session(db_url=db_url)
        to_parent.send(("end", idx, "ok", s.session_id))
    except BaseException as e:  # noqa
        to_parent.send(("end", idx, "error", "%s: %s" % (type(e).__name__, str(e)[:120])))


def gen_stmt(rng, tier, ctx):
    """case = (pre, n, schedule, which processes go through get_default_session())"""
    cases = []
    for _ in range(120 if tier == "thorough" else 16):
        n = rng.choice((2, 2, 3))
        sched = [rng.randrange(n) for _ in range(rng.choice((6, 12, 20)))]
        if rng.random() < 0.5:                       # one process far ahead of the other: it has opened the database and read, no more
            k = rng.randrange(n)
            sched = [k] * rng.randint(1, 8) + sched
        # the last element: the database was last closed cleanly (its write-ahead log checkpointed and removed), as after a session
        # of the sqlite3 shell - the processes that created the earlier sessions exit without closing their connections
        cases.append((rng.choice((0, 1, 1)), n, sched, [rng.random() < 0.5 for _ in range(n)], rng.random() < 0.5))
    # one process has done everything but its INSERT when the next begins (14 statements to a constructor)
    for head in (13, 14, 15):
        for modes in ([False, True], [True, True], [True, False]):
            cases.append((1, 2, [0] * head + [1] * 20, modes, True))
    return cases


def impl_stmt(case):
    for attempt in range(4):
        r = _impl_stmt_once(case)
        if not any("database is locked" in str(x) for x in r[3]):
            return r
    return r


def _impl_stmt_once(case):
    import multiprocessing as mp
    import time
    import androguard.session  # noqa
    import androguard.misc  # noqa
    pre, n, sched, modes = case[:4]
    clean = len(case) > 4 and case[4]
    ctx = mp.get_context("fork")
    top = tempfile.mkdtemp(prefix="c36s-", dir=os.environ.get("VERIF_TMP", "/var/tmp"))
    path = os.path.join(top, "androguard.db")
    db_url = "sqlite:///" + path
    total = pre + n
    try:
        chans, procs, results, wants, nstmt = {}, {}, {}, {}, {}

        def start(i):
            a, b = ctx.Pipe()
            c, d = ctx.Pipe()
            p = ctx.Process(target=_worker_stmt, args=(i, db_url, b, c, i >= pre and modes[i - pre]))
            p.start()
            chans[i], procs[i] = (a, d), p
            wants[i] = True                              # it waits for its start signal

        def drain(i, wait):
            """take what process i has sent; True when it is waiting for the parent"""
            a = chans[i][0]
            while i not in results and not wants.get(i) and a.poll(wait):
                m = a.recv()
                if m[0] == "want":
                    wants[i] = True
                    nstmt[i] = nstmt.get(i, 0) + 1
                else:
                    results[i] = (m[2], m[3])
                wait = 0
            return bool(wants.get(i)) and i not in results

        def step(i, wait):
            """let process i execute its next statement if it is waiting for the parent (a process blocked by a lock of another is not)"""
            if i not in chans:
                start(i)
            if drain(i, wait):
                wants[i] = False
                chans[i][1].send("go")
        for i in range(pre):
            start(i)
            t0 = time.time()
            while i not in results and time.time() - t0 < 60:
                step(i, 0.5)
        if clean and pre:
            import sqlite3
            for i in range(pre):
                procs[i].join(20)
            con = sqlite3.connect(path)
            con.execute("select count(*) from session").fetchall()
            con.close()
        for k in sched:
            step(pre + k, 0.3)
        t0 = time.time()
        while len(results) < total and time.time() - t0 < 90:
            for i in range(pre, total):
                if i not in results:
                    step(i, 0.05)
        for i in range(total):
            results.setdefault(i, ("error", "timeout"))
        for p in procs.values():
            p.join(5)
            if p.is_alive():
                p.terminate()
        status = [[1 if results[i][0] == "ok" else 2, results[i][1] if results[i][0] == "ok" else None] for i in range(total)]
        return [status, _rows(path), [nstmt.get(i, 0) for i in range(total)], [results[i][1] for i in range(total) if results[i][0] != "ok"]]
    finally:
        shutil.rmtree(top, ignore_errors=True)


STREAMS.append({"name": "statement-schedules", "gen": gen_stmt, "impl": impl_stmt, "oracle": oracle, "case_timeout": 400,
                "stats": lambda cases, results: {"replays": len(cases), "processes": sum(c[0] + c[1] for c in cases),
                                                  "through_get_default_session": sum(sum(c[3]) for c in cases), "database_closed_cleanly_before": sum(1 for c in cases if len(c) > 4 and c[4] and c[0]),
                                                  "statements_gated": sum(sum(r[2]) for r in results if not isinstance(r, Err))}})
