"""C37 - decompile output stays inside the output directory."""
import os
import posixpath
import shutil
import tempfile

from tools.vlib.coqfmt import Err, zlist, coq_list, z

ID = "C37"
TITLE = "Decompile output stays inside the output directory"
PROPS = "C37"
LEVEL = "proof"
DESIGN_REF = "DESIGN.md section 5, C37"
TECHNIQUE = ("Coq theorems (list lemmas about str.split and posixpath.join/split, reuse of the clean_file_name theorems of "
             "C38) about a hand-written model of valid_class_name and of the three creation sites of export_apps_to_format, "
             "with the method's short string as an unconstrained input; model tied to the source by a differential run of the "
             "real export on generated DEX files in a scratch directory (recorded create_directory/open calls and a walk of "
             "the directory tree)")
LEVEL_TEXT = ("Unbounded proof: for every output directory, every class name, every method short string (any code points, "
              "'/' and '..' included) and every set of existing files, each directory and file the modelled export creates "
              "is the output directory joined with a relative path whose components are all non-empty, free of '/', and "
              "different from '.' and '..' - hence inside the output directory. The model is compared with the real export "
              "(create_directory and open calls, and the files found on disk) on generated DEX files on every run.")
LEVEL_NOTE = ("Trusted: Coq kernel; coq/Misc/ExportPathModel.v as a rendering of valid_class_name and of the creation sites "
              "of export_apps_to_format (POSIX os.path; form=None, jar=False, no method filter; EncodedMethod.get_short_string "
              "is not modelled: the theorem holds for every string in its place); coq/Misc/CleanNameModel.v (see C38); "
              "'inside' is lexical (symbolic links inside the output directory are outside the statement); the session "
              "database androguard.db that Session() creates in the current directory is not an output of the export and is "
              "ignored; the harness tools/props/c37.py and the DEX writer tools/writers/dexwriter.py.")
TRUSTED = ["hand-written models coq/Misc/ExportPathModel.v and coq/Misc/CleanNameModel.v",
           "correspondence harness tools/props/c37.py (recorder around cli.main.create_directory/open, directory walk) and "
           "the independent DEX writer tools/writers/dexwriter.py"]

COQ_HEADER = "Require Import V.Misc.CleanNameModel V.Misc.ExportPathModel."

SEGS = ["a", "b", "Cls", "Cls a", "..", "..", ".", "", "", "x.y", ".hidden", "...", "~", "a b", "con", "été", "\\", "a:b", "*",
        "q" * 120, "w" * 300, " ", "_", "_..", "_.",
        # characters that a compatibility normalisation turns into separators and dots: fullwidth solidus and full stop, one and two dot leaders,
        # fullwidth reverse solidus, division and fraction slashes
        "..\uff0f..\uff0f..\uff0fesc", "\uff0e\uff0e", "\u2025", "\u2024\u2024", "\uff0fabs", "a\uff0fb", "\u2025\uff0f\u2025\uff0fx", "..\uff3c..", "\u2215x", "\u2044y"]
METHS = ["m", "<init>", "run", "a/../../../x", "..", "../x", "/abs", "/", "x/y", "a/b/c", ".", "", "m.", "n ", "k" * 250,
         "a/../../../../../../x", "Cls a/../../y", "q/../../../../z", "é", "con", "a\\b", "a:b?", "..\\..\\w",
         "..\uff0f..\uff0f..\uff0fm", "Cls a\uff0f..\uff0f..\uff0fy", "\u2025\uff0fx", "\uff0fabs"]
OUTS = ["out", "out", "./out", "o/p", "out/", "ABS", "ABS/", "../c/out", "out/.", "o//p"]


def _cls_name(rng):
    n = rng.choice((1, 1, 2, 2, 3, 4, 6))
    segs = [rng.choice(SEGS) for _ in range(n)]
    body = "/".join(segs)
    r = rng.random()
    if r < 0.80:
        return "L" + body + ";"
    if r < 0.86:
        return "L/" + body + ";"          # absolute-looking
    if r < 0.90:
        return body                       # no L...; wrapper
    if r < 0.93:
        return body + ";"
    if r < 0.95:
        return rng.choice(("", ";", "L;", "L/;", "L//;", "L../;", "/", "[I", "[[Lx/y;"))
    return "L" + body + "/;"


def gen(rng, tier, ctx):
    n = 300 if tier == "thorough" else 45
    cases = []
    # cooperating classes: a directory created for one class lets a '/'-bearing method name of another resolve
    cases.append(("out", [("LCls/Cls a/Q;", [("m", "V", ())]), ("LCls;", [("a/../../../x", "V", ())])]))
    cases.append(("out", [("L../../../esc;", [("m", "V", ())]), ("L/abs/olute;", [("../../../y", "V", ("I",))])]))
    cases.append(("out", [("Lpkg/..\uff0f..\uff0f..\uff0fESCAPED;", [("m", "V", ())]), ("LCls/Cls a/Q;", [("m", "V", ())]), ("LCls;", [("a\uff0f..\uff0f..\uff0f..\uff0fx", "V", ())])]))
    for _ in range(n):
        classes = []
        names = set()
        for _ in range(rng.choice((1, 2, 2, 3, 4))):
            cn = _cls_name(rng)
            if cn in names:
                continue
            names.add(cn)
            ms = []
            seen = set()
            for _ in range(rng.choice((1, 1, 2, 3))):
                mn = rng.choice(METHS)
                params = tuple(rng.choice(("I", "Ljava/lang/String;", "[J", "La/../b;")) for _ in range(rng.choice((0, 0, 1, 2))))
                ret = rng.choice(("V", "I", "Lx/../y;"))
                if (mn, ret, params) in seen:
                    continue
                seen.add((mn, ret, params))
                ms.append((mn, ret, params))
            classes.append((cn, ms))
        cases.append((rng.choice(OUTS), classes))
    return cases


def build_dex(classes):
    from tools.writers.dexwriter import DexBuilder, Code
    b = DexBuilder()
    for cn, ms in classes:
        c = b.add_class(cn)
        for (mn, ret, params) in ms:
            if ret == "V":
                code = Code(1 + len(params), 1 + len(params), 0, [0x000e])
            elif ret == "I":
                code = Code(2 + len(params), 1 + len(params), 0, [0x0012, 0x000f])       # const/4 v0, 0 ; return v0
            else:
                code = Code(2 + len(params), 1 + len(params), 0, [0x0012, 0x0011])       # const/4 v0, 0 ; return-object v0
            c.add_method(mn, ret, params, access=1, code=code)
    return b.build()


def impl(case):
    import contextlib
    import io
    out, classes = case
    data = build_dex(classes)
    from androguard import session
    from androguard.cli import main
    top = tempfile.mkdtemp(prefix="c37-", dir=os.environ.get("VERIF_TMP", "/var/tmp"))
    cwd = os.getcwd()
    work = os.path.join(top, "a", "b", "c")
    os.makedirs(work)
    outdir = out.replace("ABS", os.path.join(work, "absout"))
    trace, shorts = [], []
    real_cd, real_open = main.create_directory, open

    def rec_cd(p):
        trace.append([0, p])
        return real_cd(p)

    def rec_open(p, *a, **k):
        trace.append([1, p])
        return real_open(p, *a, **k)
    err = None
    try:
        os.chdir(work)
        s = session.Session()
        s.add("x.dex", data)
        for _, vm, vmx in s.get_objects_dex():
            for m in vm.get_encoded_methods():
                shorts.append([str(m.get_class_name()), m.get_short_string()])
        main.create_directory, main.open = rec_cd, rec_open
        try:
            with contextlib.redirect_stdout(io.StringIO()):
                main.export_apps_to_format(None, s, outdir, None, False, None, None)
        except Exception as e:   # noqa
            err = type(e).__name__
        finally:
            main.create_directory = real_cd
            del main.open
        escaped = []
        inside = os.path.normpath(os.path.join(work, outdir))
        for r, ds, fs in os.walk(top):
            for f in fs + ds:
                p = os.path.join(r, f)
                if p == inside or p.startswith(inside + os.sep) or inside.startswith(p + os.sep):
                    continue
                if f.startswith("androguard.db"):
                    continue
                escaped.append(os.path.relpath(p, work))
        return [outdir, shorts, trace, sorted(escaped), err]
    finally:
        os.chdir(cwd)
        shutil.rmtree(top, ignore_errors=True)


def canon(res):
    outdir, shorts, trace, escaped, err = res
    return trace + ([Err("IndexError")] if err == "IndexError" else [])


def coq_input_r(case, res):
    if isinstance(res, Err):
        return "(([], 0), [])"
    outdir, shorts, trace, escaped, err = res
    limit = -1 if err in (None, "IndexError") else len(trace)
    ms = coq_list(["(%s, %s)" % (zlist([ord(c) for c in a]), zlist([ord(c) for c in b])) for a, b in shorts])
    return "((%s, %s), %s)" % (zlist([ord(c) for c in outdir]), z(limit), ms)


def oracle(case, res):
    if isinstance(res, Err):
        return "the harness could not run the export: %s %s" % (res.name, res.msg)
    outdir, shorts, trace, escaped, err = res
    if escaped:
        return "created outside the output directory: %r" % escaped[:3]
    root = posixpath.normpath(outdir)
    for kind, p in trace:
        q = posixpath.normpath(p)
        if not (q == root or q.startswith(root.rstrip("/") + "/")):
            return "%s %r is outside %r" % ("create_directory" if kind == 0 else "open", p, outdir)
    return None


def stats(cases, results):
    d = {"methods": 0, "creations": 0}
    for c, r in zip(cases, results):
        if isinstance(r, Err):
            d["harness-error"] = d.get("harness-error", 0) + 1
            continue
        outdir, shorts, trace, escaped, err = r
        d["methods"] += len(shorts)
        d["creations"] += len(trace)
        k = "export:" + (err or "completed")
        d[k] = d.get(k, 0) + 1
        for cn, sh in shorts:
            if ".." in cn.split("/") or "L.." in cn:
                d["class-with-dotdot"] = d.get("class-with-dotdot", 0) + 1
            if "/" in sh:
                d["short-string-with-slash"] = d.get("short-string-with-slash", 0) + 1
    return d


def gen_vcn(rng, tier, ctx):
    out = set()
    for _ in range(1500 if tier == "thorough" else 400):
        out.add(_cls_name(rng))
    # very long names around the usual limits (name, path and buffer sizes), made of '..' segments: whatever is cut off such a
    # name, at whatever alignment, what is left must still be free of '..', '.', empty segments and a leading '/'
    for limit in (128, 255, 256, 512, 1000, 1024, 2048, 4096) if tier == "thorough" else (255, 256, 1024, 4096):
        for d in range(0, 9):
            k = (limit + d) // 4 + 1
            out.add("L" + "../" * k + "x" * ((limit + d) % 4) + ";")
            out.add("L" + "a" * ((limit + d) % 5) + "/" + "./../" * (k * 4 // 5) + "y;")
    return sorted(out)


def impl_vcn(case):
    from androguard.cli.main import valid_class_name
    return valid_class_name(case)


def oracle_vcn(case, res):
    if isinstance(res, Err):
        return None if case == "" else "valid_class_name raised %s on %r" % (res.name, case)
    parts = res.split("/")
    if res.startswith("/") or any(p in ("", ".", "..") for p in parts):
        return "valid_class_name(%r) = %r has an empty, '.' or '..' component" % (case, res)
    return None


STREAMS = [
    {"name": "export", "gen": gen, "impl": impl, "canon": canon, "coq_header": COQ_HEADER,
     "coq_type": "(list Z * Z) * list (list Z * list Z)", "coq_input": lambda c: "(([], 0), [])", "coq_input_r": coq_input_r,
     "coq_obs": "obs_export", "model_vo": "Misc/ExportPathModel.vo", "pinned": False, "oracle": oracle, "stats": stats,
     "shard": 12, "case_timeout": 120},
    {"name": "valid_class_name", "gen": gen_vcn, "impl": impl_vcn, "coq_header": COQ_HEADER,
     "coq_type": "list Z", "coq_input": lambda c: zlist([ord(x) for x in c]), "coq_obs": "obs_vcn",
     "model_vo": "Misc/ExportPathModel.vo", "pinned": False, "oracle": oracle_vcn},
]
