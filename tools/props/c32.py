"""C32 - a v1 certificate is reported only if it verifies the signature file."""
import datetime
import hashlib
import io
import zipfile

from tools.vlib.coqfmt import Err, z, coq_list, coq_option, coq_bool

ID = "C32"
TITLE = "A v1 certificate is reported only if it verifies the signature file"
PROPS = "C32"
LEVEL = "proof"
DESIGN_REF = "DESIGN.md section 5, C32"
TECHNIQUE = ("Coq theorems (induction over the list of SignerInfos that are tried and over the certificate bag; case analysis of "
             "the signed-attribute rules) about a hand-written model of the decision logic of APK.get_certificate_der, "
             "verify_signer_info_against_sig_file and find_certificate, in which the outcome of every signature verification "
             "and the identity of every digest are table entries; model tied to the source by a differential run on generated "
             "v1-signed APKs (RSA, EC, DSA, Ed25519 keys; several digests, SignerInfos, certificates and blocks; altered .SF, "
             "signature value, attributes and references), the tables being filled by the harness's own calls of the "
             "`cryptography` package")
LEVEL_TEXT = ("Unbounded proof over the model: for every certificate bag, every list of SignerInfos, every minSdk / max_sdk and "
              "every outcome table of the cryptographic primitives, a reported certificate is the first certificate of the bag "
              "whose issuer AND serial number equal those of a SignerInfo that was tried, that SignerInfo's digest algorithm is "
              "supported and its signature value verifies with the certificate's key over the .SF (no signed attributes) or "
              "over the signed attributes, which then hold no attribute twice, carry the digest of the .SF as messageDigest and "
              "(unless max_sdk < 24) the content type of the signed content; corollaries: no certificate is reported when no "
              "reference matches, when no key verifies, or when the messageDigest is not the digest of the .SF. The primitives "
              "themselves (RSA/DSA/ECDSA verification, hashing, DER decoding by asn1crypto) are outside the model.")
LEVEL_NOTE = ("Trusted: Coq kernel; coq/Apk/V1CertModel.v as a rendering of the three functions (exceptions of the caught kinds "
              "are one error value; the loop that stops with None at the first exception is modelled); the `cryptography` and "
              "`asn1crypto` packages, which both the code and the harness call for verification, hashing and DER handling; "
              "the harness tools/props/c32.py (PKCS#7 and APK writer, outcome tables). Issuer names are compared by identity "
              "of the generated names: the name canonicalisation (APK.canonical_name) is not modelled.")
TRUSTED = ["hand-written model coq/Apk/V1CertModel.v",
           "correspondence harness tools/props/c32.py (PKCS#7 / APK writer; outcome tables from the cryptography package)",
           "cryptography and asn1crypto packages as the meaning of 'verifies', 'digest' and of the DER structures"]

COQ_HEADER = "Require Import V.Apk.V1CertModel."
KEYS = ["rsa", "rsa", "ec", "ec", "dsa", "dsa", "ed"]          # key pool: index -> kind
EXT = {"rsa": "RSA", "ec": "EC", "dsa": "DSA", "ed": "EC"}
NAMES = ["signer-alpha", "signer-beta", "intermediate-ca", "somebody-else"]
HALGS = ["sha1", "sha256", "sha512", "sha224"]
MF = b"Manifest-Version: 1.0\r\nCreated-By: verif\r\n\r\n"


def sf_text(tag=b""):
    return b"Signature-Version: 1.0\r\nCreated-By: verif" + tag + b"\r\nSHA-256-Digest-Manifest: " + hashlib.sha256(MF).hexdigest().encode() + b"\r\n\r\n"


# ----------------------------------------------------------------------------- case generation (pure data)
def signer(key, cert, halg="sha256", attrs=None, sid=None, over="right", sig_damage=None):
    """cert = index into the block's certificate list that the reference is copied from; sid overrides (name, serial)"""
    return {"key": key, "cert": cert, "halg": halg, "attrs": attrs, "sid": sid, "over": over, "sig_damage": sig_damage}


def good_attrs(extra=False):
    a = [("content_type", "data"), ("message_digest", "good")]
    if extra:
        a.insert(1, ("signing_time", None))
    return a


def block(name, key, signers, certs=None, sf_damage=None, sf_tag=b"", encap="data", attached=False, decoy=False):
    """attached: the PKCS#7 object carries a copy of the signed .SF text (a non-detached signature);
    decoy: a second entry META-INF/<name up to its first dot>.SF holds the signed text (for names with several dots)"""
    kind = KEYS[key]
    return {"name": name, "ext": EXT[kind], "certs": certs if certs is not None else [(key, NAMES[key % 2], 0x51A7E5 + key)], "signers": signers,
            "sf_damage": sf_damage, "sf_tag": sf_tag, "encap": encap, "attached": attached, "decoy": decoy}


def single(key, halg, attrs, **kw):
    skw = {k: kw.pop(k) for k in ("sid", "over", "sig_damage") if k in kw}
    return {"min_sdk": kw.pop("min_sdk", None), "blocks": [block(kw.pop("name", "CERT"), key, [signer(key, 0, halg, attrs, **skw)], **kw)], "queries": [(0, None)]}


def gen(rng, tier, ctx):
    cases = []
    attr_kinds = [None, good_attrs(), good_attrs(True)]
    # the ordinary signed files and every single alteration of them
    for key in (0, 2, 4):
        for halg in ("sha1", "sha256"):
            for attrs in attr_kinds[:2]:
                cases.append(single(key, halg, attrs))
                cases.append(single(key, halg, attrs, sf_damage=(rng.randrange(100), 1 + rng.randrange(255))))
                cases.append(single(key, halg, attrs, sig_damage=(rng.randrange(40), 1 + rng.randrange(255))))
                cases.append(single(key, halg, attrs, sid=(NAMES[key % 2], 0x51A7E5 + key + 1)))          # serial altered only
                cases.append(single(key, halg, attrs, sid=(NAMES[3], 0x51A7E5 + key)))                   # issuer altered only
                cases.append(single(key, halg, attrs, sid=(NAMES[3], 77)))
                cases.append(single(key, halg, attrs, over="wrong"))
    for key in (0, 2, 4):
        cases.append(single(key, "sha256", [("content_type", "data"), ("message_digest", "bad")]))
        cases.append(single(key, "sha256", [("content_type", "data"), ("message_digest", "other_alg")]))
        cases.append(single(key, "sha256", [("content_type", "signed_data"), ("message_digest", "good")]))
        cases.append(single(key, "sha256", [("message_digest", "good")]))
        cases.append(single(key, "sha256", [("content_type", "data")]))
        cases.append(single(key, "sha256", [("content_type", "data"), ("message_digest", "good"), ("content_type", "data")]))
        cases.append(single(key, "sha256", [("signing_time", None)]))
        cases.append(single(key, "md2", None))
        cases.append(single(key, "md2", good_attrs()))
        cases.append(single(key, "sha256", good_attrs(), encap="signed_data"))
    # a block name with several dots next to a plain-named .SF that still holds the signed text; a non-detached signature that
    # carries the signed text itself: in both cases it is the block's own .SF entry that has to verify
    for key in (0, 2, 4):
        for attrs in attr_kinds[:2]:
            for dmg in (None, (rng.randrange(100), 1 + rng.randrange(255))):
                cases.append(single(key, "sha256", attrs, sf_damage=dmg, name="CERT.V1", decoy=True))
                cases.append(single(key, "sha256", attrs, sf_damage=dmg, attached=True))
    cases.append(single(0, "sha256", None, name="A.B.C", decoy=True, sf_damage=(5, 3)))
    cases.append(single(6, "sha256", None))                  # Ed25519: a key type the code does not support
    cases.append(single(6, "sha256", good_attrs()))
    for c in list(cases):
        if rng.random() < 0.25:
            c2 = dict(c, queries=[(0, rng.choice((23, 24, 30)))])
            cases.append(c2)
    # two blocks with the same .SF text, the later one damaged; queried in file order on one APK object
    for key in (0, 2, 4):
        for attrs in attr_kinds[:2]:
            for dmg in (None, (rng.randrange(100), 1 + rng.randrange(255))):
                b1 = block("ALPHA", key, [signer(key, 0, "sha256", attrs)])
                b2 = block("BETA", key + 1, [signer(key + 1, 0, "sha256", attrs)], sf_damage=dmg)
                cases.append({"min_sdk": None, "blocks": [b1, b2], "queries": [(0, None), (1, None), (0, None)]})
    n = 400 if tier == "thorough" else 90
    for _ in range(n):
        cases.append(rand_case(rng))
    return cases


def rand_case(rng):
    min_sdk = rng.choice((None, None, 21, 23, 24, 28))
    blocks = []
    for bi in range(rng.choice((1, 1, 1, 2))):
        nc = rng.choice((1, 1, 2, 3))
        certs, used = [], set()
        while len(certs) < nc:
            k = rng.randrange(7 if rng.random() < 0.1 else 6)
            nm, ser = rng.choice(NAMES[:3]), rng.choice((0x51A7E5, 0x51A7E6, 7))
            if (nm, ser) in used and rng.random() < 0.8:
                continue
            used.add((nm, ser))
            certs.append((k, nm, ser))
        signers = []
        for si in range(rng.choice((1, 1, 2, 3))):
            ci = rng.randrange(nc)
            key = certs[ci][0] if rng.random() < 0.85 else rng.randrange(6)
            r = rng.random()
            attrs = None if r < 0.4 else list(good_attrs(rng.random() < 0.3))
            if attrs is not None:
                q = rng.random()
                if q < 0.08:
                    attrs[-1] = ("message_digest", rng.choice(("bad", "other_alg")))
                elif q < 0.14:
                    attrs[0] = ("content_type", "signed_data")
                elif q < 0.18:
                    attrs.pop(rng.randrange(len(attrs)))
                elif q < 0.22:
                    attrs.append(rng.choice(attrs))
            sid = None
            q = rng.random()
            if q < 0.06:
                sid = (certs[ci][1], certs[ci][2] + 1)
            elif q < 0.12:
                sid = (NAMES[3], certs[ci][2])
            elif q < 0.15:
                sid = (NAMES[3], 99)
            signers.append(signer(key, ci, rng.choice(HALGS + ["sha256", "sha256"] + (["md2"] if rng.random() < 0.2 else [])), attrs, sid,
                                  "wrong" if rng.random() < 0.07 else "right", (rng.randrange(40), 1 + rng.randrange(255)) if rng.random() < 0.1 else None))
        first_kind = KEYS[certs[0][0]]
        blocks.append({"name": "B%d" % bi, "ext": EXT[first_kind], "certs": certs, "signers": signers,
                       "sf_damage": (rng.randrange(100), 1 + rng.randrange(255)) if rng.random() < 0.12 else None, "sf_tag": b"" if rng.random() < 0.7 else b"-%d" % bi,
                       "encap": "data" if rng.random() < 0.93 else "signed_data"})
    queries = [(rng.randrange(len(blocks)), rng.choice((None, None, 23, 24, 33))) for _ in range(rng.choice((1, 2, 3)))]
    return {"min_sdk": min_sdk, "blocks": blocks, "queries": queries}


def gen_sweep(rng, tier, ctx):
    """every single-byte corruption of the .SF and of the signature value (thorough), a sample of them (quick)"""
    cases = []
    sf_len = len(sf_text())
    combos = [(k, h, a) for k in (0, 2, 4) for h in ("sha1", "sha256") for a in (None, good_attrs())]
    if tier != "thorough":
        combos = [combos[i] for i in (1, 6, 11)] + [rng.choice(combos)]
    for key, halg, attrs in combos:
        pos_sf = range(sf_len) if tier == "thorough" else sorted(rng.sample(range(sf_len), 12))
        for p in pos_sf:
            cases.append(single(key, halg, attrs, sf_damage=(p, 1 + rng.randrange(255))))
        siglen = {"rsa": 128, "ec": 64, "dsa": 44}[KEYS[key]]
        pos_sig = range(siglen) if tier == "thorough" else sorted(rng.sample(range(siglen), 12))
        for p in pos_sig:
            cases.append(single(key, halg, attrs, sig_damage=(p, 1 + rng.randrange(255))))
    return cases


# ----------------------------------------------------------------------------- building (inside the implementation process)
_STATE = {}


def keys():
    if "keys" not in _STATE:
        from cryptography.hazmat.primitives.asymmetric import dsa, ec, ed25519, rsa
        mk = {"rsa": lambda: rsa.generate_private_key(65537, 1024), "ec": lambda: ec.generate_private_key(ec.SECP256R1()),
              "dsa": lambda: dsa.generate_private_key(1024), "ed": lambda: ed25519.Ed25519PrivateKey.generate()}
        _STATE["keys"] = [mk[k]() for k in KEYS]
        _STATE["certs"] = {}
    return _STATE["keys"]


def cert_der(key, cn, serial):
    from cryptography import x509
    from cryptography.hazmat.primitives import hashes, serialization
    from cryptography.x509.oid import NameOID
    ks = keys()
    if (key, cn, serial) not in _STATE["certs"]:
        name = x509.Name([x509.NameAttribute(NameOID.COMMON_NAME, cn), x509.NameAttribute(NameOID.ORGANIZATION_NAME, "verif")])
        now = datetime.datetime(2024, 1, 1)
        c = (x509.CertificateBuilder().subject_name(name).issuer_name(name).public_key(ks[key].public_key()).serial_number(serial)
             .not_valid_before(now).not_valid_after(now + datetime.timedelta(days=9000))
             .sign(ks[key], None if KEYS[key] == "ed" else hashes.SHA256()))
        _STATE["certs"][(key, cn, serial)] = c.public_bytes(serialization.Encoding.DER)
    return _STATE["certs"][(key, cn, serial)]


def hash_cls(halg):
    from cryptography.hazmat.primitives import hashes
    return {"md5": hashes.MD5, "sha1": hashes.SHA1, "sha224": hashes.SHA224, "sha256": hashes.SHA256, "sha384": hashes.SHA384, "sha512": hashes.SHA512}.get(halg)


def sign(key, data, halg):
    from cryptography.hazmat.primitives.asymmetric import ec, padding
    k, kind = keys()[key], KEYS[key]
    h = (hash_cls(halg) or hash_cls("sha256"))()
    if kind == "rsa":
        return k.sign(data, padding.PKCS1v15(), h)
    if kind == "ec":
        return k.sign(data, ec.ECDSA(h))
    if kind == "dsa":
        return k.sign(data, h)
    return k.sign(data)


def check(key, sig, data, halg):
    """the harness's own verification: 'ok' | 'bad' | 'err'"""
    from cryptography.exceptions import InvalidSignature
    from cryptography.hazmat.primitives.asymmetric import ec, padding
    pub, kind = keys()[key].public_key(), KEYS[key]
    hc = hash_cls(halg)
    if hc is None or kind == "ed":
        return "err"
    try:
        if kind == "rsa":
            pub.verify(sig, data, padding.PKCS1v15(), hc())
        elif kind == "ec":
            pub.verify(sig, data, ec.ECDSA(hc()))
        else:
            pub.verify(sig, data, hc())
        return "ok"
    except InvalidSignature:
        return "bad"
    except (ValueError, TypeError, OSError):
        return "err"


def build_block(b):
    """-> (pkcs7 bytes, sf bytes in the file, facts about the block for the tables)"""
    from asn1crypto import cms, core, x509 as ax509
    sf_signed = sf_text(b["sf_tag"])
    sf_file = bytearray(sf_signed)
    if b["sf_damage"]:
        p, x = b["sf_damage"]
        sf_file[p % len(sf_file)] ^= x
    sf_file = bytes(sf_file)
    ders = [cert_der(*c) for c in b["certs"]]
    acerts = [ax509.Certificate.load(d) for d in ders]
    sis, facts = [], []
    for s in b["signers"]:
        halg = s["halg"]
        hname = halg if hash_cls(halg) else "sha256"
        signed_attrs, tbs, attr_facts = None, None, []
        if s["attrs"] is not None:
            items = []
            for ty, v in s["attrs"]:
                if ty == "content_type":
                    items.append(cms.CMSAttribute({"type": "content_type", "values": [v]}))
                    attr_facts.append(("ct", v))
                elif ty == "message_digest":
                    d = {"good": hashlib.new(hname, sf_signed).digest(), "bad": hashlib.new(hname, sf_signed + b"x").digest(),
                         "other_alg": hashlib.new("sha384", sf_signed).digest()}[v]
                    items.append(cms.CMSAttribute({"type": "message_digest", "values": [d]}))
                    attr_facts.append(("md", d))
                else:
                    items.append(cms.CMSAttribute({"type": "signing_time", "values": [core.UTCTime(datetime.datetime(2024, 5, 5, tzinfo=datetime.timezone.utc))]}))
                    attr_facts.append(("other", None))
            signed_attrs = cms.CMSAttributes(items)
            tbs = b"\x31" + signed_attrs.dump()[1:]
        right = tbs if tbs is not None else sf_signed
        wrong = sf_signed if tbs is not None else sf_signed + b"x"
        sig = bytearray(sign(s["key"], right if s["over"] == "right" else wrong, halg))
        if s["sig_damage"]:
            p, x = s["sig_damage"]
            sig[p % len(sig)] ^= x
        sig = bytes(sig)
        ref = acerts[s["cert"]]
        if s["sid"] is None:
            issuer, serial, sid_name = ref.issuer, ref.serial_number, b["certs"][s["cert"]][1]
        else:
            sid_name, serial = s["sid"]
            issuer = ax509.Certificate.load(cert_der(s["key"], sid_name, 1)).issuer
        si = {"version": "v1", "sid": cms.SignerIdentifier({"issuer_and_serial_number": cms.IssuerAndSerialNumber({"issuer": issuer, "serial_number": serial})}),
              "digest_algorithm": {"algorithm": halg},
              "signature_algorithm": {"algorithm": {"rsa": "rsassa_pkcs1v15", "ec": "ecdsa", "dsa": "dsa", "ed": "ed25519"}[KEYS[s["key"]]]}, "signature": sig}
        if signed_attrs is not None:
            si["signed_attrs"] = signed_attrs
        sis.append(cms.SignerInfo(si))
        digest = hashlib.new(hname, sf_file).digest() if hash_cls(halg) else None
        facts.append({"sid": (sid_name, serial), "alg_ok": hash_cls(halg) is not None, "attrs": attr_facts if s["attrs"] is not None else None, "digest": digest,
                      "vsf": [check(c[0], sig, sf_file, halg) for c in b["certs"]],
                      "vattrs": [check(c[0], sig, tbs, halg) if tbs is not None else "err" for c in b["certs"]]})
    encap = {"content_type": b["encap"]}
    if b.get("attached"):
        encap["content"] = sf_signed
    sd = cms.SignedData({"version": "v1", "digest_algorithms": [{"algorithm": "sha256"}], "encap_content_info": encap,
                         "certificates": [cms.CertificateChoices({"certificate": c}) for c in acerts], "signer_infos": sis})
    p7 = cms.ContentInfo({"content_type": "signed_data", "content": sd}).dump()
    # SET OF: the DER encoder sorts certificates and SignerInfos by their encodings; the tables follow the order in the file
    back = cms.ContentInfo.load(p7)["content"]
    corder = order_of([c.chosen.dump() for c in back["certificates"]], ders)
    sorder = order_of([x.dump() for x in back["signer_infos"]], [x.dump() for x in sis])
    for f in facts:
        f["vsf"] = [f["vsf"][j] for j in corder]
        f["vattrs"] = [f["vattrs"][j] for j in corder]
    return p7, sf_file, {"ders": [ders[j] for j in corder], "certs": [(b["certs"][j][1], b["certs"][j][2]) for j in corder],
                         "signers": [facts[k] for k in sorder], "signer_order": sorder, "encap": b["encap"]}


def order_of(in_file, built):
    """in_file[i] = built[order[i]]; equal encodings (the same SignerInfo twice) are used once each"""
    left, out = list(range(len(built))), []
    for x in in_file:
        k = next(k for k in left if built[k] == x)
        left.remove(k)
        out.append(k)
    return out


def build_apk(case):
    entries, facts = [], []
    if case["min_sdk"] is not None:
        from tools.props import c31
        m = {"package": "com.verif.app", "vcode": 1, "vname": None, "sdk": (case["min_sdk"], None, None), "perms": [], "features": [], "libs": [], "comps": [], "ns_on_tags": False}
        entries.append(("AndroidManifest.xml", c31.render_axml(m)))
    entries.append(("META-INF/MANIFEST.MF", MF))
    for b in case["blocks"]:
        p7, sf, f = build_block(b)
        entries.append(("META-INF/%s.SF" % b["name"], sf))
        if b.get("decoy") and "." in b["name"]:
            entries.append(("META-INF/%s.SF" % b["name"].split(".", 1)[0], sf_text(b["sf_tag"])))
        entries.append(("META-INF/%s.%s" % (b["name"], b["ext"]), p7))
        facts.append(f)
    entries.append(("classes.dex", b""))
    bio = io.BytesIO()
    with zipfile.ZipFile(bio, "w", zipfile.ZIP_DEFLATED) as zf:
        for n, d in entries:
            zf.writestr(n, d)
    return bio.getvalue(), facts


def impl(case):
    from androguard.core.apk import APK
    raw, facts = build_apk(case)
    a = APK(raw, raw=True, skip_analysis=case["min_sdk"] is None)
    got = []
    for bi, mx in case["queries"]:
        b = case["blocks"][bi]
        try:
            r = a.get_certificate_der("META-INF/%s.%s" % (b["name"], b["ext"]), mx)
        except Exception as e:
            r = Err("Other", type(e).__name__ + ": " + str(e)[:100])
        got.append(r)
    fresh = APK(raw, raw=True, skip_analysis=case["min_sdk"] is None)
    try:
        v1 = [c.dump() for c in fresh.get_certificates_v1()]
        names = fresh.get_signature_names()
    except Exception as e:
        v1, names = Err("Other", type(e).__name__), []
    return {"got": got, "facts": facts, "v1": v1, "names": names, "min_sdk_seen": a.get_min_sdk_version() if case["min_sdk"] is not None else None}


# ----------------------------------------------------------------------------- model input and canonical form
class Ids(dict):
    def of(self, x):
        return self.setdefault(x, len(self))


def tables(case, res):
    """per query: (certs, encap id, min, max, signers) in numbers"""
    names, ders, digs, cts = Ids(), Ids(), Ids(), Ids()
    for f in res["facts"]:
        for d in f["ders"]:
            ders.of(d)
    out = []
    for bi, mx in case["queries"]:
        f = res["facts"][bi]
        certs = [(names.of(nm), ser, ders.of(d)) for (nm, ser), d in zip(f["certs"], f["ders"])]
        signers = []
        for s in f["signers"]:
            attrs = []
            for kind, v in (s["attrs"] or []):
                attrs.append((3, cts.of(v)) if kind == "ct" else (4, digs.of(v)) if kind == "md" else (5, 0))
            signers.append({"issuer": names.of(s["sid"][0]), "serial": s["sid"][1], "alg_ok": s["alg_ok"], "attrs": attrs,
                            "digest": digs.of(s["digest"]) if s["digest"] is not None else -1, "vsf": s["vsf"], "vattrs": s["vattrs"]})
        out.append({"certs": certs, "encap": cts.of(f["encap"]), "min": case["min_sdk"], "max": mx, "signers": signers})
    return out, ders


VR = {"ok": "VOk", "bad": "VBad", "err": "VErr_"}


def coq_input(case, res):
    qs, _ = tables(case, res)
    rows = []
    for q in qs:
        certs = coq_list(["{| c_issuer := %s; c_serial := %s; c_der := %s; c_is_cert := true |}" % (z(i), z(s), z(d)) for i, s, d in q["certs"]])
        sis = coq_list(["{| s_issuer := %s; s_serial := %s; s_alg_ok := %s; s_attrs := %s; s_sf_digest := %s; s_vsf := %s; s_vattrs := %s |}" % (
            z(s["issuer"]), z(s["serial"]), coq_bool(s["alg_ok"]), coq_list(["(%s, %s)" % (z(a), z(b)) for a, b in s["attrs"]]), z(s["digest"]),
            coq_list([VR[v] for v in s["vsf"]]), coq_list([VR[v] for v in s["vattrs"]])) for s in q["signers"]])
        rows.append("((%s, %s), ((%s, %s), %s))" % (certs, z(q["encap"]), coq_option(q["min"]), coq_option(q["max"]), sis))
    return coq_list(rows)


def canon(res):
    ders = Ids()
    for f in res["facts"]:
        for d in f["ders"]:
            ders.of(d)
    return [r if isinstance(r, Err) or r is None else ders.get(r, -1) for r in res["got"]]


# ----------------------------------------------------------------------------- the property itself, on the outcome tables
def vouched(q, d_id):
    """is there a SignerInfo among those tried that vouches for the certificate d_id (the Python reading of `accepts`)"""
    infos = q["signers"]
    tried = infos if (q["min"] is not None and q["min"] >= 24) else infos[:1]
    for s in tried:
        j = next((j for j, (i, ser, _) in enumerate(q["certs"]) if i == s["issuer"] and ser == s["serial"]), None)
        if j is None or q["certs"][j][2] != d_id or not s["alg_ok"]:
            continue
        if not s["attrs"]:
            if s["vsf"][j] == "ok":
                return True
            continue
        oids = [a for a, _ in s["attrs"]]
        if len(set(oids)) != len(oids) or dict(s["attrs"]).get(4) != s["digest"] or s["vattrs"][j] != "ok":
            continue
        if (q["max"] is None or q["max"] >= 24) and dict(s["attrs"]).get(3) != q["encap"]:
            continue
        return True
    return False


def pristine(b):
    return b["sf_damage"] is None and b["encap"] == "data" and all(
        s["sid"] is None and s["over"] == "right" and s["sig_damage"] is None and s["halg"] != "md2" and KEYS[s["key"]] != "ed" and
        s["key"] == b["certs"][s["cert"]][0] and s["attrs"] in (None, good_attrs(), good_attrs(True)) for s in b["signers"]) and \
        len({(c[1], c[2]) for c in b["certs"]}) == len(b["certs"])


def oracle(case, res):
    if isinstance(res, Err):
        return "harness failed: %s %s" % (res.name, res.msg[:200])
    if case["min_sdk"] is not None and str(res["min_sdk_seen"]) != str(case["min_sdk"]):
        return "harness: minSdkVersion %r not seen by the code (%r)" % (case["min_sdk"], res["min_sdk_seen"])
    qs, ders = tables(case, res)
    for (bi, mx), q, r in zip(case["queries"], qs, res["got"]):
        b = case["blocks"][bi]
        if isinstance(r, Err):
            return "get_certificate_der raised %s for block %s" % (r.msg, b["name"])
        if r is not None:
            if r not in ders:
                return "block %s: the reported certificate is not one of the block" % b["name"]
            if not vouched(q, ders[r]):
                return "block %s (max_sdk %s): a certificate is reported that no tried SignerInfo vouches for (reference, digest or signature do not check)" % (b["name"], mx)
        elif pristine(b):
            return "block %s: an untouched, validly signed block reports no certificate" % b["name"]
        if r is not None and len(b["signers"]) == 1:
            s = b["signers"][0]
            if b["sf_damage"] or s["sig_damage"] or s["over"] != "right" or s["sid"] is not None and s["sid"] != (b["certs"][s["cert"]][1], b["certs"][s["cert"]][2]):
                # an altered reference may still point to another certificate of the bag; that is decided by `vouched`
                if b["sf_damage"] or s["sig_damage"] or s["over"] != "right":
                    return "block %s: a certificate is reported although the .SF / signature was altered" % b["name"]
    if not isinstance(res["v1"], Err):
        want = []
        for n in res["names"]:
            bi = next(i for i, b in enumerate(case["blocks"]) if "META-INF/%s.%s" % (b["name"], b["ext"]) == n)
            q1, _ = tables({"min_sdk": case["min_sdk"], "blocks": case["blocks"], "queries": [(bi, None)]}, res)
            good = [d for d, i in ders.items() if vouched(q1[0], i)]
            want.append(good)
        flat = list(res["v1"])
        for c in flat:
            if not any(c in g for g in want):
                return "get_certificates_v1 lists a certificate that no block vouches for"
    return None


def stats(cases, results):
    d = {"apks": len(cases), "blocks": 0, "signer_infos": 0, "queries": 0, "reported": 0, "none": 0, "with_attrs": 0, "sf_damaged": 0, "sig_damaged": 0,
         "reference_altered": 0, "keys": {}, "digests": {}, "min_sdk_24_plus": 0}
    for c, r in zip(cases, results):
        d["blocks"] += len(c["blocks"])
        d["queries"] += len(c["queries"])
        d["min_sdk_24_plus"] += c["min_sdk"] is not None and c["min_sdk"] >= 24
        for b in c["blocks"]:
            d["sf_damaged"] += b["sf_damage"] is not None
            for s in b["signers"]:
                d["signer_infos"] += 1
                d["with_attrs"] += s["attrs"] is not None
                d["sig_damaged"] += s["sig_damage"] is not None
                d["reference_altered"] += s["sid"] is not None
                d["keys"][KEYS[s["key"]]] = d["keys"].get(KEYS[s["key"]], 0) + 1
                d["digests"][s["halg"]] = d["digests"].get(s["halg"], 0) + 1
        if not isinstance(r, Err):
            d["reported"] += sum(1 for x in r["got"] if x is not None and not isinstance(x, Err))
            d["none"] += sum(1 for x in r["got"] if x is None)
    return d


_COMMON = {"impl": impl, "canon": canon, "coq_header": COQ_HEADER, "coq_type": "list ((list cert * Z) * ((option Z * option Z) * list sinfo))",
           "coq_input": lambda c: None, "coq_input_r": coq_input, "coq_obs": "fun qs => VList (map obs_v1 qs)",
           "model_vo": "Apk/V1CertModel.vo", "pinned": False, "oracle": oracle, "stats": stats, "shard": 200, "case_timeout": 60}
STREAMS = [dict(_COMMON, name="signed-apks", gen=gen), dict(_COMMON, name="byte-corruptions", gen=gen_sweep)]
