"""C30 - locale qualifiers round-trip through the configuration encoding."""
from tools.vlib.coqfmt import Err, z, zlist

ID = "C30"
TITLE = "Locale qualifiers round-trip through the configuration encoding"
PROPS = "C30"
LEVEL = "proof"
DESIGN_REF = "DESIGN.md section 5, C30"
TECHNIQUE = ("Coq theorems about a hand-written model of the four locale functions: exhaustive kernel-evaluated sweeps "
             "of both 16-bit fields (all 65536 byte pairs, all 32^3 packed codes, for both bases), an inductive lemma "
             "about str.split('-r'), and byte-field arithmetic of the 32-bit locale word by lia; model tied to the "
             "source by an exhaustive differential run of _unpack over every byte pair and generated pack/set/get cases")
LEVEL_TEXT = ("Unbounded proof over all strings in the property's domain: for every two-character code (ASCII first "
              "character, no '-') or packed three-character code as language, with no region or such a code as "
              "region, get(set(s)) = s; for every locale word whose fields hold codes, set(get(w)) = w; the default "
              "locale maps to and from '\\0\\0'. The model is hand-written and compared with the real "
              "ARSCResTableConfig methods on every run: _unpack_language_or_region exhaustively over all byte pairs "
              "and both bases, the other three on enumerated and random strings and locale words.")
LEVEL_NOTE = ("Trusted: Coq kernel (vm_compute used for the finite sweeps); the hand-written model coq/Axml/LocaleModel.v "
              "as a rendering of the Python (str as list of code points, unbounded int); the correspondence harness "
              "tools/props/c30.py. Modelled, not verified: Python's str.split, chr/ord, int bit operations.")
TRUSTED = ["hand-written model coq/Axml/LocaleModel.v (str.split, chr/ord, int bit operations rendered in Gallina)",
           "correspondence harness tools/props/c30.py (generators, canonicaliser, Python statement of the round trip)"]

COQ_HEADER = "Require Import V.Axml.LocaleModel."


def _cfg():
    from androguard.core.axml import ARSCResTableConfig
    return ARSCResTableConfig()


# ---- domain of the property (transcribes code_ok / field_ok of LocaleModel.v) ----
def code2_ok(s):
    return len(s) == 2 and 1 <= s[0] <= 127 and 1 <= s[1] <= 255 and 45 not in s


def code3_ok(base, s):
    return len(s) == 3 and all(base <= c <= base + 31 for c in s)


def code_ok(base, s):
    return code2_ok(s) or code3_ok(base, s)


def field_ok(b0, b1):
    return (128 <= b0 <= 255 and 0 <= b1 <= 255) or code2_ok([b0, b1])


def parse_domain(s):
    """(lang, region) when the code point list s is render lang region for codes in the domain."""
    for n in (2, 3):
        lang, rest = s[:n], s[n:]
        if not code_ok(97, lang):
            continue
        if not rest:
            return lang, None
        if rest[:2] == [45, 114] and code_ok(48, rest[2:]):
            return lang, rest[2:]
    return None


# ---- streams ----
def impl_unpack(case):
    b0, base = case
    c = _cfg()
    return [c._unpack_language_or_region([b0, b1], base) for b1 in range(256)]


def gen_unpack(rng, tier, ctx):
    return [(b0, base) for base in (97, 48) for b0 in range(256)]


def oracle_unpack(case, res):
    b0, base = case
    if isinstance(res, Err):
        return "raised %s" % res.name
    if b0 >= 128:
        for b1, s in enumerate(res):
            cs = [ord(ch) for ch in s]
            if not code3_ok(base, cs):
                return "packed field %02x %02x unpacks to %r, not three characters within 32 of the base" % (b0, b1, s)
    return None


def impl_pack(case):
    s, base = case
    return list(_cfg()._pack_language_or_region("".join(map(chr, s)), base))


def gen_pack(rng, tier, ctx):
    cases = []
    for base in (97, 48):
        lo = 97 if base == 97 else 65
        for a in range(26):
            for b in range(26):
                cases.append(([lo + a, lo + b], base))
        n3 = 32 if tier == "thorough" else 8
        step = 32 // n3
        for i in range(0, 32, step):
            for j in range(0, 32, step):
                for k in range(32):
                    cases.append(([base + i, base + (j + k) % 32, base + k], base))
        for _ in range(400 if tier == "thorough" else 120):      # outside the domain: other lengths, other characters
            n = rng.choice((0, 1, 2, 2, 3, 3, 4, 5))
            cases.append(([rng.choice((rng.randrange(1, 128), rng.randrange(0, 0x3000), rng.randrange(base - 8, base + 40)))
                           for _ in range(n)], base))
    return cases


def oracle_pack(case, res):
    s, base = case
    if not code_ok(base, s):
        return None
    if isinstance(res, Err):
        return "raised %s on a code in the domain" % res.name
    if not field_ok(res[0], res[1]):
        return "code %r packs to %r, which is not a valid 16-bit field" % (s, res)
    back = [ord(ch) for ch in _cfg()._unpack_language_or_region(res, base)]
    if back != list(s):
        return "code %r packs to %r, which unpacks to %r" % (s, res, back)
    return None


def impl_locale(case):
    kind, loc, s = case
    from androguard.core.axml import ARSCResTableConfig
    if kind == 0:
        c = ARSCResTableConfig(locale="".join(map(chr, s)))
        return [c.locale, c.get_language_and_region()]
    c = ARSCResTableConfig(locale=loc)
    out = c.get_language_and_region()
    d = ARSCResTableConfig()
    d.set_language_and_region(out)
    return [out, d.locale]


def _rand_code(rng, base):
    if rng.random() < 0.5:
        if base == 97:
            return [rng.randrange(97, 123), rng.randrange(97, 123)]
        return [rng.randrange(65, 91), rng.randrange(65, 91)]
    r = rng.random()
    if r < 0.6:
        lo, hi = (97, 123) if base == 97 else (48, 58)
        return [rng.randrange(lo, hi) for _ in range(3)]
    return [rng.randrange(base, base + 32) for _ in range(3)]


def _rand_field(rng):
    r = rng.random()
    if r < 0.45:
        return rng.randrange(128, 256), rng.randrange(256)
    if r < 0.9:
        while True:
            a, b = rng.randrange(1, 128), rng.randrange(1, 256)
            if a != 45 and b != 45:
                return a, b
    return rng.randrange(256), rng.randrange(256)


def gen_locale(rng, tier, ctx):
    big = tier == "thorough"
    cases = [(0, 0, [0, 0]), (1, 0, []), (0, 0, []), (0, 0, [102, 105, 108, 45, 114, 80, 72]),
             (0, 0, [101, 115, 45, 114, 52, 49, 57]), (1, 1213203885, []), (1, 614757221, [])]
    for a in range(26):                      # every two-letter language, alone and with a region
        for b in range(26):
            lang = [97 + a, 97 + b]
            cases.append((0, 0, lang))
            cases.append((0, 0, lang + [45, 114] + _rand_code(rng, 48)))
    for _ in range(6000 if big else 700):
        lang = _rand_code(rng, 97)
        region = None if rng.random() < 0.3 else _rand_code(rng, 48)
        cases.append((0, 0, lang + ([45, 114] + region if region else [])))
    for _ in range(1500 if big else 250):   # strings outside the domain: several "-r", '-', long or empty parts
        parts = [[rng.choice((45, 114, rng.randrange(32, 127), rng.randrange(97, 123))) for _ in range(rng.randint(0, 4))]
                 for _ in range(rng.randint(1, 3))]
        s = []
        for i, p in enumerate(parts):
            s += ([45, 114] if i else []) + p
        cases.append((0, 0, s))
    for _ in range(6000 if big else 700):
        l0, l1 = _rand_field(rng)
        r0, r1 = (0, 0) if rng.random() < 0.3 else _rand_field(rng)
        cases.append((1, l0 | l1 << 8 | r0 << 16 | r1 << 24, []))
    return cases


def oracle_locale(case, res):
    kind, loc, s = case
    if kind == 0:
        if s == [0, 0]:
            return None if res == [0, "\x00\x00"] else "default locale string gives %r" % (res,)
        if parse_domain(list(s)) is None:
            return None
        if isinstance(res, Err):
            return "raised %s for a locale string in the domain" % res.name
        got = [ord(ch) for ch in res[1]]
        if got != list(s):
            return "encoded %r, the configuration reports %r (locale word 0x%08x)" % (
                "".join(map(chr, s)), res[1], res[0])
        return None
    if loc == 0:
        return None if res == ["\x00\x00", 0] else "default locale gives %r" % (res,)
    l0, l1, r0, r1 = loc & 255, (loc >> 8) & 255, (loc >> 16) & 255, (loc >> 24) & 255
    if not (field_ok(l0, l1) and (field_ok(r0, r1) or (r0, r1) == (0, 0))):
        return None
    if isinstance(res, Err):
        return "raised %s for a locale word whose fields hold codes" % res.name
    if res[1] != loc:
        return "locale 0x%08x reports %r, which encodes to 0x%08x" % (loc, res[0], res[1])
    return None


def stats_locale(cases, results):
    d = {}
    for (kind, loc, s), r in zip(cases, results):
        if kind == 0:
            p = parse_domain(list(s))
            key = "set-get/" + ("outside-domain" if p is None else
                                "lang%d-%s" % (len(p[0]), "noregion" if p[1] is None else "region%d" % len(p[1])))
        else:
            l0, l1, r0, r1 = loc & 255, (loc >> 8) & 255, (loc >> 16) & 255, (loc >> 24) & 255
            ok = field_ok(l0, l1) and (field_ok(r0, r1) or (r0, r1) == (0, 0))
            key = "get-set/" + ("fields-ok" if ok else "outside-domain")
        key += "/err" if isinstance(r, Err) else "/ok"
        d[key] = d.get(key, 0) + 1
    return d


STREAMS = [
    {
        "name": "unpack", "gen": gen_unpack, "impl": impl_unpack, "coq_header": COQ_HEADER,
        "coq_type": "Z * Z", "coq_input": lambda c: "(%s, %s)" % (z(c[0]), z(c[1])),
        "coq_obs": "obs_unpack", "model_vo": "Axml/LocaleModel.vo",
        "pinned": False, "oracle": oracle_unpack, "shard": 32,
    },
    {
        "name": "pack", "gen": gen_pack, "impl": impl_pack, "coq_header": COQ_HEADER,
        "coq_type": "list Z * Z", "coq_input": lambda c: "(%s, %s)" % (zlist(c[0]), z(c[1])),
        "coq_obs": "obs_pack", "model_vo": "Axml/LocaleModel.vo",
        "pinned": False, "oracle": oracle_pack, "shard": 400,
    },
    {
        "name": "locale", "gen": gen_locale, "impl": impl_locale, "coq_header": COQ_HEADER,
        "coq_type": "Z * Z * list Z", "coq_input": lambda c: "(%s, %s, %s)" % (z(c[0]), z(c[1]), zlist(c[2])),
        "coq_obs": "obs_locale", "model_vo": "Axml/LocaleModel.vo",
        "pinned": False, "oracle": oracle_locale, "stats": stats_locale, "shard": 400,
    },
]
