"""C24 - type descriptors are rendered as the right Java type names."""
from tools.vlib.coqfmt import Err, z, zlist

ID = "C24"
TITLE = "Type descriptors are rendered as the right Java type names"
PROPS = "C24"
LEVEL = "proof"
DESIGN_REF = "DESIGN.md section 5, C24"
TECHNIQUE = ("Coq theorems (injectivity of '/'-joining, prefix lemmas, induction on the array dimension) about "
             "hand-written models of decompiler.util.get_type and dex.get_type; models tied to the source by a "
             "differential run on generated well-formed, look-alike and malformed descriptors")
LEVEL_TEXT = ("Unbounded proof: for every well-formed descriptor (any number of array dimensions; a primitive, or a class "
              "name of any number of non-empty '/'-free segments) the modelled decompiler get_type returns the primitive "
              "keyword or the dotted class name, with the java.lang. prefix dropped exactly for direct members of "
              "java.lang, followed by one [] per dimension; the modelled dex get_type returns the fully qualified form. "
              "Both models are compared with the real functions on every run; generated classes (fields, several fields "
              "of one name with different types, parameters and return types over class names with '-', '$', '_' and "
              "non-ASCII letters) are decompiled and every type in the source is compared with its descriptor.")
LEVEL_NOTE = ("Trusted: Coq kernel; coq/Dad/TypeNameModel.v as a rendering of the two Python functions (str slicing, "
              "startswith, replace, lstrip as list functions; the size= argument is not modelled); the harness "
              "tools/props/c24.py.")
TRUSTED = ["hand-written model coq/Dad/TypeNameModel.v of util.get_type and dex.get_type (size=None)",
           "correspondence harness tools/props/c24.py (generators, Python statement of the rendering rule)"]

COQ_HEADER = "Require Import V.Dad.TypeNameModel."
PRIMS = {"V": "void", "Z": "boolean", "B": "byte", "S": "short", "C": "char", "I": "int", "J": "long", "F": "float",
         "D": "double"}


def impl(case):
    kind, s = case
    text = "".join(map(chr, s))
    if kind == 0:
        from androguard.decompiler.util import get_type
    else:
        from androguard.core.dex import get_type
    return get_type(text)


WORDS = ["java", "lang", "String", "Object", "annotation", "Annotation", "reflect", "Method", "language", "langx", "util",
         "List", "a", "b", "Foo$Bar", "x", "javax", "android", "os", "Build", "j", "lan", "g", "va", "n", "I", "L", "Z",
         "été", "\U0001F600", "with.dot", "java.lang"]


def _rand_class(rng):
    r = rng.random()
    if r < 0.3:
        segs = ["java", "lang"] + [rng.choice(WORDS) for _ in range(rng.choice((1, 1, 1, 2, 3)))]
    elif r < 0.45:
        segs = [rng.choice(("java", "javax", "jav")), rng.choice(("lang", "langx", "language", "lan"))] + \
               [rng.choice(WORDS) for _ in range(rng.randint(0, 2))]
    else:
        segs = [rng.choice(WORDS) for _ in range(rng.randint(1, 5))]
    return segs


def parse_wf(text):
    """(dims, 'prim'|'cls', payload) for a well-formed descriptor, else None (transcribes desc/base_ok)."""
    dims = 0
    while text.startswith("["):
        text, dims = text[1:], dims + 1
    if text in PRIMS:
        return dims, "prim", text
    if len(text) >= 3 and text[0] == "L" and text[-1] == ";":
        segs = text[1:-1].split("/")
        if all(segs):
            return dims, "cls", segs
    return None


def gen(rng, tier, ctx):
    cases = []
    texts = set()
    for p in PRIMS:
        for d in range(0, 4):
            texts.add("[" * d + p)
    for _ in range(5000 if tier == "thorough" else 900):
        texts.add("[" * rng.choice((0, 0, 0, 1, 2, 5)) + "L" + "/".join(_rand_class(rng)) + ";")
    for _ in range(1500 if tier == "thorough" else 300):      # malformed / unusual: outside the property
        t = rng.choice(("", "L", "L;", "Lx", "[", "[[", "X", "java.lang.String", "java.lang.I", "java.lang.[I", "jI", "aI",
                        "Ljava/lang/;", "Ljava/lang//x;", "L/;", "[Ljava/lang/String", "IZ", "lang.I", "vanI", "..Z",
                        "java.langjava.lang.I", "java.lang.java.lang.I"))
        if rng.random() < 0.5:
            t = "".join(rng.choice("LI[;/.javlngZx") for _ in range(rng.randint(0, 12)))
        texts.add(t)
    for t in sorted(texts):
        for kind in (0, 1):
            cases.append((kind, [ord(c) for c in t]))
    return cases


def oracle(case, res):
    kind, s = case
    text = "".join(map(chr, s))
    p = parse_wf(text)
    if p is None:
        return None
    dims, what, payload = p
    if isinstance(res, Err):
        return "raised %s on the well-formed descriptor %r" % (res.name, text)
    if what == "prim":
        allowed = {PRIMS[payload]}
    else:
        allowed = {".".join(payload)}
        if len(payload) == 3 and payload[:2] == ["java", "lang"]:
            allowed.add(payload[2])
    allowed = {a + "[]" * dims for a in allowed}
    if res not in allowed:
        return "%s renders %r as %r; its Java name is %s" % (
            "decompiler.util.get_type" if kind == 0 else "dex.get_type", text, res, " or ".join(sorted(map(repr, allowed))))
    return None


def stats(cases, results):
    d = {}
    for (kind, s), r in zip(cases, results):
        p = parse_wf("".join(map(chr, s)))
        key = ("util/" if kind == 0 else "dex/") + (
            "malformed" if p is None else "%s/dims%s" % (
                p[1] if p[1] == "prim" else ("java.lang-direct" if len(p[2]) == 3 and p[2][:2] == ["java", "lang"] else
                                             "java.lang-nested" if p[2][:2] == ["java", "lang"] else "class"),
                min(p[0], 2)))
        key += "/err" if isinstance(r, Err) else "/ok"
        d[key] = d.get(key, 0) + 1
    return d


# ---- stream 2: the types as DvClass.get_source prints them (fields, parameters, return types) ----------------------------
SRC_WORDS = ["java", "lang", "String", "Object", "Long", "LinkageError", "Launcher", "List", "Integer", "I", "Z", "L", "J", "V", "Lx", "annotation",
             "Foo$Bar", "x", "javax", "language", "util", "Iterable", "Short", "B", "Boolean", "D",
             "-$$Lambda$Main$1", "-Util", "package-info", "my-app", "a_b", "\u00e9t\u00e9", "I-J", "Z9", "$", "_"]


def _src_type(rng, void_ok=False):
    r = rng.random()
    if void_ok and r < 0.2:
        return "V"
    dims = "[" * rng.choice((0, 0, 0, 1, 2))
    if r < 0.4:
        return dims + rng.choice("ZBSCIJFD")
    if r < 0.7:
        return dims + "Ljava/lang/" + rng.choice(SRC_WORDS) + ";"
    k = rng.choice((1, 1, 2, 3))
    return dims + "L" + "/".join(rng.choice(SRC_WORDS) for _ in range(k)) + ";"


def gen_source(rng, tier, ctx):
    """case = (fields [(type, static)], methods [(ret, params, abstract)])"""
    cases = [([("Ljava/lang/Long;", False), ("[[LI;", True)], [("Ljava/lang/Long;", ["Ljava/lang/Long;", "[LLauncher;", "I", "LI;"], True),
                                                                  ("V", ["Ljava/lang/LinkageError;", "J", "[D"], False)])]
    for _ in range(120 if tier == "thorough" else 25):
        fields = [(_src_type(rng), rng.random() < 0.4) for _ in range(rng.randint(0, 6))]
        if fields and rng.random() < 0.4:          # several fields of one name (legal in DEX; obfuscators overload names by type)
            names, seen = [], set()
            for t, st in fields:
                nm = rng.randrange(2)
                while (nm, t) in seen:
                    nm += 1
                seen.add((nm, t))
                names.append(nm)
            fields = [(t, st, nm) for (t, st), nm in zip(fields, names)]
        methods = []
        for _ in range(rng.randint(1, 6)):
            ret = _src_type(rng, void_ok=True)
            abstract = rng.random() < 0.5 or ret != "V"
            methods.append((ret, [_src_type(rng) for _ in range(rng.randint(0, 4))], abstract))
        cases.append((fields, methods))
    return cases


def impl_source(case):
    import re
    from tools.writers.dexwriter import DexBuilder, Code
    from androguard.core.dex import DEX
    from androguard.core.analysis.analysis import Analysis
    from androguard.decompiler.decompiler import DecompilerDAD
    fields, methods = case
    b = DexBuilder()
    c = b.add_class("Lgen/T;", access=0x401)
    for k, f in enumerate(fields):
        t, st = f[:2]
        c.add_field("f%d" % (f[2] if len(f) > 2 else k), t, access=9 if st else 1, static=st)
    for k, (ret, params, abstract) in enumerate(methods):
        if abstract:
            c.add_method("m%d" % k, ret, params, access=0x401, direct=False, code=None)
        else:
            nreg = sum(2 if p in "JD" else 1 for p in params)
            c.add_method("m%d" % k, ret, params, access=9, direct=True, code=Code(nreg + 1, nreg, 0, [0x000E]))
    d = DEX(b.build())
    dx = Analysis(d)
    d.set_decompiler(DecompilerDAD(d, dx))
    src = d.get_class("Lgen/T;").get_source()
    fs = {}
    for t, k in re.findall(r"^\s+(?:public |static )+(\S+) f(\d+);$", src, re.M):
        fs.setdefault(int(k), []).append(t)
    ms = {}
    for ret, k, ps in re.findall(r"^\s+(?:public |static |abstract )+(\S+) m(\d+)\((.*)\)", src, re.M):
        ms[int(k)] = [ret, [q.rsplit(" ", 1)[0] for q in ps.split(", ")] if ps else []]
    return [sorted(fs.items()), [ms.get(k) for k in range(len(methods))]]


def _java_names(desc):
    p = parse_wf(desc)
    dims, what, payload = p
    if what == "prim":
        allowed = {PRIMS[payload]}
    else:
        allowed = {".".join(payload)}
        if len(payload) == 3 and payload[:2] == ["java", "lang"]:
            allowed.add(payload[2])
    return {a + "[]" * dims for a in allowed}


def oracle_source(case, res):
    if isinstance(res, Err):
        return "decompiling the generated class failed: %s %s" % (res.name, res.msg[:150])
    fields, methods = case
    printed = dict((k, list(v)) for k, v in res[0])
    for k, f in enumerate(fields):
        t = f[0]
        nm = f[2] if len(f) > 2 else k
        hit = [g for g in printed.get(nm, []) if g in _java_names(t)]
        if not hit:
            return "field f%d of type %r is declared as %r; its Java name is %s" % (nm, t, printed.get(nm), " or ".join(sorted(_java_names(t))))
        printed[nm].remove(hit[0])
    if any(printed.values()):
        return "the source declares fields the class does not have: %r" % ({k: v for k, v in printed.items() if v},)
    for k, (ret, params, abstract) in enumerate(methods):
        got = res[1][k]
        if got is None:
            return "method m%d is missing from the source" % k
        if got[0] not in _java_names(ret):
            return "method m%d: return type %r is written as %r" % (k, ret, got[0])
        if len(got[1]) != len(params):
            return "method m%d: %d parameters in the source, %d in the prototype" % (k, len(got[1]), len(params))
        for j, (pt, g) in enumerate(zip(params, got[1])):
            if g not in _java_names(pt):
                return "method m%d: parameter %d of type %r is written as %r; its Java name is %s" % (k, j, pt, g, " or ".join(sorted(_java_names(pt))))
    return None


STREAMS = [{
    "name": "descriptors", "gen": gen, "impl": impl, "coq_header": COQ_HEADER,
    "coq_type": "Z * list Z", "coq_input": lambda c: "(%s, %s)" % (z(c[0]), zlist(c[1])),
    "coq_obs": "obs_type", "model_vo": "Dad/TypeNameModel.vo",
    "pinned": False, "oracle": oracle, "stats": stats, "shard": 300,
}, {
    "name": "source-prototypes", "gen": gen_source, "impl": impl_source, "pinned": False, "oracle": oracle_source,
    "stats": lambda cases, results: {"classes": len(cases), "fields": sum(len(c[0]) for c in cases), "methods": sum(len(c[1]) for c in cases),
                                      "parameters": sum(len(m[1]) for c in cases for m in c[1])},
}]
