"""C10 - basic blocks partition each method at every control-flow boundary."""
from tools.vlib import cfg_common as C

ID = "C10"
TITLE = "Basic blocks partition each method at every control-flow boundary"
PROPS = "C10"
LEVEL = "proof"
DESIGN_REF = "DESIGN.md section 5, C10/C11/C12/C40"
TECHNIQUE = ("Coq theorems by induction over the instruction list with the block-construction loop's state as invariant "
             "(blocks are consecutive segments of the instruction list; a boundary is placed before every leader and after "
             "every branch) about a hand-written model of _create_basic_block/determineNext/determineException; model tied to "
             "the source by a differential run on generated methods assembled into DEX files by independent writers")
LEVEL_TEXT = ("Unbounded proof: for every instruction list and every try table, the modelled blocks are non-empty consecutive "
              "segments whose concatenation is the instruction list (contiguous, non-overlapping, covering every instruction "
              "once, in order); every instruction offset that is a branch target, the instruction after a conditional or "
              "switch, a switch case target, a try start or a handler address begins a block; and every instruction that "
              "branches, switches, returns or throws is the last of its block. The model is compared with the real "
              "MethodAnalysis on generated methods on every run.")
LEVEL_NOTE = ("Trusted: Coq kernel; coq/Analysis/CfgModel.v as a rendering of _create_basic_block, determineNext, "
              "determineException, get_ins_off, set_childs, get_exception (an instruction is its byte length and kind; the "
              "linear sweep that produces the instruction list is C02's subject, not this model's); the assembler "
              "tools/vlib/dalvik_asm.py, the DEX writer and the harness tools/vlib/cfg_common.py.")
TRUSTED = ["hand-written model coq/Analysis/CfgModel.v", "tools/vlib/dalvik_asm.py, tools/writers/dexwriter.py, tools/vlib/cfg_common.py "
           "(generated methods, observation of MethodAnalysis, statement of the partition rules as oracle)"]
STREAMS = [C.STREAM(C.per_method(C.check_partition)), C.STREAM_SHIPPED(C.per_method_shipped(C.check_partition))]
