"""C08 - try/catch tables are reported exactly."""
from tools.vlib.coqfmt import Err, z, zlist, coq_list

ID = "C08"
TITLE = "Try/catch tables are reported exactly"
PROPS = "C08"
LEVEL = "proof"
DESIGN_REF = "DESIGN.md section 5, C08"
TECHNIQUE = ("Coq theorems (byte-level codec proof over the LEB128 reader theorems of C03: the reader applied to any well-formed "
             "encoding of a try table returns the table and the rest of the buffer; the grouping step of determineException is a "
             "permutation that keeps each try item once) about a hand-written model of the code-item tail parser and of "
             "determineException; model tied to the source by a differential run on generated code items")
LEVEL_TEXT = ("Unbounded proof: for every try table (any number of try items; handler lists with any number of typed handlers "
              "and an optional catch-all; any well-formed LEB128 encodings, canonical or padded; with or without the padding "
              "unit) the modelled reader returns exactly the encoded try items and handlers with their offsets, followed by the "
              "untouched rest of the buffer; and when every try item's handler offset is the offset of a handler, "
              "determineException returns one entry per try item - start*2, start*2 + count*2 - 1, the typed handlers in order "
              "with byte addresses, then the catch-all as Throwable - each try item exactly once (a permutation of the "
              "try list). The model is compared with DalvikCode.get_tries/get_handlers and determineException on every run.")
LEVEL_NOTE = ("Trusted: Coq kernel; coq/Dex/TriesModel.v as a rendering of DalvikCode.__init__'s tail, TryItem, "
              "EncodedCatchHandlerList, EncodedCatchHandler, EncodedTypeAddrPair (struct unpacking as little-endian byte "
              "arithmetic; the LEB128 readers are the C03 models); determine_exception of coq/Analysis/CfgModel.v; type indices "
              "stand for the type strings vm.get_cm_type returns; the harness tools/props/c08.py and tools/writers/dexwriter.py.")
TRUSTED = ["hand-written models coq/Dex/TriesModel.v, coq/Dex/LebModel.v, coq/Analysis/CfgModel.v (determine_exception)",
           "correspondence harness tools/props/c08.py and the independent DEX writer tools/writers/dexwriter.py"]

COQ_HEADER = "Require Import V.Analysis.CfgModel V.Dex.TriesModel."
NTYPES = 200


def gen(rng, tier, ctx):
    """case = list of methods; method = (n_units, [try...], pad_unit); try = (start, count, [(type no, addr)], catch_all|None)"""
    cases = []
    for _ in range(120 if tier == "thorough" else 25):
        ms = []
        for _ in range(8):
            n = rng.choice((1, 2, 3, 4, 5, 8, 9, 30, 31))
            nh = rng.choice((1, 1, 2, 3, 4))
            hs = []
            while len(hs) < nh:
                typed = [(rng.choice((0, 1, 2, 5, 127, 128, 129, NTYPES - 1)), rng.choice((0, 1, 2, 7, 127, 128, 300, 16384, 70000)))
                         for _ in range(rng.choice((0, 1, 1, 2, 3, 5)))]
                ca = rng.choice((0, 0, 1, 5, 127, 128, 20000)) if (not typed or rng.random() < 0.45) else None
                if (typed, ca) not in hs:
                    hs.append((typed, ca))
            k = rng.choice((0, 1, 1, 2, 3, 3, 5, 8))
            tries = []
            for _ in range(k):
                h = rng.randrange(nh)
                tries.append((rng.choice((0, 1, 2, 5, 100, 65535, 70000, 2 ** 31)), rng.choice((0, 1, 2, 9, 255, 256, 65535)),
                              hs[h][0], hs[h][1]))
            if k >= 3 and rng.random() < 0.5:          # A B A
                tries[2] = tries[2][:2] + tries[0][2:]
            leb = rng.randrange(1, 10**6) if rng.random() < 0.4 else None
            extra = []                                  # handler lists no try item refers to (the format allows them)
            if k and rng.random() < 0.35:
                for _ in range(rng.choice((1, 1, 2))):
                    extra.append(([(rng.choice((3, 4, 130)), rng.choice((9, 200)))], rng.choice((None, 77)), rng.random() < 0.5))
            ms.append((n, tries, rng.choice((0, 0, 0xFFFF, 0x1234)), leb, extra))
        cases.append(ms)
    return cases


def build(case):
    from tools.writers.dexwriter import DexBuilder, Code, Try
    b = DexBuilder(extra_types=["Lexc/E%03d;" % i for i in range(NTYPES)])
    c = b.add_class("Lgen/T;")
    codes = []
    for k, (n, tries, pad, leb, extra) in enumerate(case):
        insns = [0x0000] * (n - 1) + [0x000E]
        tl = [Try(s, cnt, [("Lexc/E%03d;" % t, a) for t, a in typed], ca) for s, cnt, typed, ca in tries]
        code = Code(1, 0, 0, insns, tries=tl, pad_unit=pad, leb_seed=leb,
                    extra_lists=[([("Lexc/E%03d;" % t, a) for t, a in hs], ca, front) for hs, ca, front in extra])
        codes.append(code)
        c.add_method("m%d" % k, "V", [], access=0x9, direct=True, code=code)
    data = b.build()
    tails = []
    for code, (n, tries, pad, leb, extra) in zip(codes, case):
        item = b._code_item(code)
        tails.append((n, len(tries), list(item[16 + 2 * n:])))
    tidx = {"Lexc/E%03d;" % i: b.type_index("Lexc/E%03d;" % i) for i in range(NTYPES)}
    return data, tails, tidx


def impl(case):
    from androguard.core.dex import DEX, determineException
    data, tails, tidx = build(case)
    d = DEX(data)
    ems = {m.get_name(): m for m in d.get_encoded_methods()}
    out = []
    for k in range(len(case)):
        em = ems["m%d" % k]
        code = em.get_code()
        if code.get_tries_size() <= 0:
            out.append([[], [], []])
            continue
        hl = code.get_handlers()
        tries = [[t.get_start_addr(), t.get_insn_count(), t.get_handler_off()] for t in code.get_tries()]
        hs = [[h.get_off() - hl.get_off(), [[p.get_type_idx(), p.get_addr()] for p in h.get_handlers()],
               (h.get_catch_all_addr() if h.get_size() <= 0 else None)] for h in hl.get_list()]
        try:
            ex = [[e[0], e[1], [[-1 if t == "Ljava/lang/Throwable;" else tidx.get(t, -99), a] for t, a in e[2:]]]
                  for e in determineException(d, em)]
        except IndexError:
            ex = Err("IndexError")
        out.append([tries, hs, ex])
    return out


def coq_input(case):
    data, tails, tidx = build(case)
    return coq_list(["((%d, %d), %s)" % (n, k, zlist(bs)) for n, k, bs in tails])


def oracle(case, res):
    """the property stated on the generated description"""
    if isinstance(res, Err):
        return "parsing a generated DEX failed: %s %s" % (res.name, res.msg[:120])
    data, tails, tidx = build(case)
    for k, ((n, tries, pad, leb, extra), (gt, gh, ge)) in enumerate(zip(case, res)):
        if not tries:
            continue
        if [t[:2] for t in gt] != [[s, c] for s, c, _, _ in tries]:
            return "method m%d: get_tries() gives %r, encoded are %r" % (k, [t[:2] for t in gt], [(s, c) for s, c, _, _ in tries])
        nlists = len({(tuple(ty), ca) for _, _, ty, ca in tries} | {(tuple(hs), ca) for hs, ca, _ in extra})
        if len(gh) != nlists:
            return "method m%d: get_handlers() reports %d handler lists, the code item holds %d" % (k, len(gh), nlists)
        byoff = {h[0]: h for h in gh}
        want = []
        for (s, c, typed, ca), t in zip(tries, gt):
            h = byoff.get(t[2])
            enc = [[tidx["Lexc/E%03d;" % ty], a] for ty, a in typed]
            if h is None or h[1] != enc or h[2] != ca:
                return "method m%d: the handler at offset %d is reported as %r, encoded is %r / catch-all %r" % (k, t[2], h, enc, ca)
            want.append([2 * s, 2 * s + 2 * c - 1, [[ty, 2 * a] for ty, a in enc] + ([[-1, 2 * ca]] if ca is not None else [])])
        if isinstance(ge, Err):
            return "method m%d: determineException raised %s" % (k, ge.name)
        if sorted(map(repr, ge)) != sorted(map(repr, want)):
            return "method m%d: determineException reports %r, the code item encodes %r" % (k, ge, want)
    return None


def stats(cases, results):
    d = {"methods": 0, "try_items": 0, "odd_insns_with_tries": 0, "catch_all_at_0": 0, "shared_handlers": 0, "ABA": 0}
    for case in cases:
        for n, tries, pad, leb, extra in case:
            d["methods"] += 1
            d["leb128_not_in_shortest_form"] = d.get("leb128_not_in_shortest_form", 0) + bool(leb)
            d["with_unreferenced_handler_lists"] = d.get("with_unreferenced_handler_lists", 0) + bool(extra)
            d["try_items"] += len(tries)
            d["odd_insns_with_tries"] += (n % 2 == 1 and bool(tries))
            d["catch_all_at_0"] += any(t[3] == 0 for t in tries)
            keys = [repr(t[2:]) for t in tries]
            d["shared_handlers"] += len(set(keys)) < len(keys)
            d["ABA"] += any(keys[i] == keys[j] and any(keys[m] != keys[i] for m in range(i + 1, j))
                            for i in range(len(keys)) for j in range(i + 2, len(keys)))
    return d


STREAMS = [{"name": "code-items", "gen": gen, "impl": impl, "coq_header": COQ_HEADER, "coq_type": "list ((Z * Z) * list Z)",
            "coq_input": coq_input, "coq_obs": "(fun l => VList (map obs_tail l))", "model_vo": "Dex/TriesModel.vo",
            "pinned": False, "oracle": oracle, "stats": stats, "shard": 10}]
