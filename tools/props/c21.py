"""C21 - decompiled integer code computes what the bytecode computes."""
import re

from tools.tr import optable_tr
from tools.vlib import javadiff as J
from tools.vlib.coqfmt import Err, z, coq_list

ID = "C21"
TITLE = "Decompiled integer code computes what the bytecode computes"
PROPS = "C21"
LEVEL = "proof"
DESIGN_REF = "DESIGN.md section 5, C21"
TECHNIQUE = ("Coq theorem about a table that a fail-closed translator regenerates from opcode_ins.py on every run (opcode -> "
             "printed Java operator, operand form, type): for every arithmetic instruction and all operand values the printed "
             "Java expression, under a semantics of the Java operators written from the language specification, equals the "
             "Dalvik instruction, under a semantics written from the Dalvik specification; the Dalvik semantics is tied to the "
             "real pipeline by compiling the decompiler's output for every single instruction with javac and running it; whole "
             "methods (propagation, dead code elimination, structuring, printing) are decided by the same javac differential "
             "run against an independent interpreter of the bytecode")
LEVEL_TEXT = ("Partial, with recorded findings. Unbounded proof: each of the 77 translated arithmetic, bitwise, shift, "
              "negation and cast instructions on int and long (three-register, 2addr, lit16, lit8, rsub, the sign flip of "
              "add-int/lit8) prints a Java expression that, for ALL operand values, yields the instruction's result and "
              "throws exactly when the instruction throws; the table covers every such opcode; each of the twelve conditional branches (if-eq .. if-le, if-eqz .. if-lez) is printed as a comparison that is true exactly when the instruction branches, and the table CONDS used to negate comparisons maps every operator to its complement (all operand values). Not proved: register "
              "propagation, dead-code elimination, control-flow structuring and the writer; for these, random structured "
              "methods (ifs, bounded loops, switches, all instruction forms) and targeted shapes are decompiled, compiled by "
              "javac, executed on boundary argument tuples and compared with an interpreter of the bytecode. Four classes of "
              "failures of the unchanged decompiler are recorded as known findings.")
LEVEL_NOTE = ("Trusted: Coq kernel; the translator tools/tr/optable_tr.py; coq/Dad/OpSemantics.v (Java and Dalvik semantics of "
              "the operators, both written here from the specifications); javac/java 17 as the meaning of the printed source; "
              "the bytecode interpreter, assembler and generators of tools/vlib/javadiff.py; tools/writers/dexwriter.py.")
TRUSTED = ["translator tools/tr/optable_tr.py (operator table of opcode_ins.py)", "coq/Dad/OpSemantics.v (Java and Dalvik operator semantics)",
           "harness tools/props/c21.py, tools/vlib/javadiff.py (assembler, interpreter, javac/java 17 runner)"]

COQ_HEADER = "Require Import V.Dad.OpSemantics."
I_EDGE = [0, 1, -1, 2, 7, -7, 31, 32, 33, 200, 255, 40000, 65535, 2**31 - 1, -2**31, 0x12345678, -0x12345678]
J_EDGE = [0, 1, -1, 5, -5, 63, 64, 2**31, 2**32 + 7, 2**63 - 1, -2**63, 0x123456789ABCDEF, -0x123456789ABCDEF]


def translate(ctx):
    return optable_tr.translate(ctx)


# ---- one instruction per method -------------------------------------------------------------------------------------------
def single_methods():
    """-> [(method, opcode, literal or None)] for every arithmetic instruction (literal forms with several literals)"""
    out = []

    def add(params, ret, stmt, opc, lit=None):
        m = {"name": "m%d" % len(out), "ret": ret, "params": params, "body": [stmt, ("ret", "l0" if ret == "J" else "i0")]}
        out.append((m, opc, lit))
    for k, op in enumerate(J.BINOPS):
        add(["I", "I"], "I", ("bin", op, 3, "i0", "p0", "p1"), 0x90 + k)
        add(["J", "I" if op in ("shl", "shr", "ushr") else "J"], "J", ("binl", op, 3, "l0", "p0", "p1"), 0x9B + k)
        add(["I", "I"], "I", ("bin", op, 2, "p0", "p0", "p1"), 0xB0 + k)
        out[-1][0]["body"][-1] = ("ret", "p0")
        add(["J", "I" if op in ("shl", "shr", "ushr") else "J"], "J", ("binl", op, 2, "p0", "p0", "p1"), 0xBB + k)
        out[-1][0]["body"][-1] = ("ret", "p0")
    for op, opc in J.LIT16.items():
        for lit in (0, 1, -1, 3, -3, 255, 32767, -32768):
            add(["I"], "I", ("bin", op, 16, "i0", "p0", lit), opc, lit)
    for op, opc in J.LIT8.items():
        for lit in (0, 1, -1, 3, -3, 31, 33, 127, -128):
            add(["I"], "I", ("bin", op, 8, "i0", "p0", lit), opc, lit)
    for op, opc in J.UNOPS.items():
        src_long = op in ("neg-long", "not-long", "long-to-int")
        dst_long = op in ("neg-long", "not-long", "int-to-long")
        add(["J" if src_long else "I"], "J" if dst_long else "I", ("un", op, "l0" if dst_long else "i0", "p0"), opc)
    return out


def gen_single(rng, tier, ctx):
    """case = (index of the first method, number of methods, argument tuples per method)"""
    ms = single_methods()
    cases = []
    step = 40
    for k in range(0, len(ms), step):
        argsets = []
        for m, opc, lit in ms[k:k + step]:
            tuples = []
            for _ in range(14 if tier == "thorough" else 7):
                tuples.append(tuple(rng.choice(I_EDGE) if t == "I" else rng.choice(J_EDGE) for t in m["params"]))
            tuples.append(tuple(0 for _ in m["params"]))
            argsets.append(tuples)
        cases.append((k, min(step, len(ms) - k), argsets))
    return cases


def impl_single(case):
    k, n, argsets = case
    ms = single_methods()[k:k + n]
    methods = [m for m, _, _ in ms]
    src = J.decompile(J.build_dex(methods))
    res = J.run_java(src, methods, {m["name"]: a for m, a in zip(methods, argsets)})
    if isinstance(res, str):
        return {"error": res, "source": src}
    return {"values": [res[m["name"]] for m in methods], "source": src}


def canon_single(res):
    if "error" in res:
        return Err("Other", res["error"][:200])
    return [[Err("Other") if v == "ArithmeticException" else v for v in vs] for vs in res["values"]]


def coq_single(case):
    k, n, argsets = case
    ms = single_methods()[k:k + n]
    rows = []
    for (m, opc, lit), tuples in zip(ms, argsets):
        rows.append(coq_list(["(%s, (%s, %s))" % (z(opc), z(t[0]), z(lit if lit is not None else (t[1] if len(t) > 1 else 0))) for t in tuples]))
    return coq_list(rows)


def oracle_single(case, res):
    if isinstance(res, Err):
        return "decompiling or running failed: %s %s" % (res.name, res.msg[:200])
    if "error" in res:
        return "the decompiled class is not accepted or does not run: %s" % res["error"][:300]
    k, n, argsets = case
    for (m, opc, lit), tuples, got in zip(single_methods()[k:k + n], argsets, res["values"]):
        for t, g in zip(tuples, got):
            w = J.interpret(m, t)
            if g != w:
                return "opcode 0x%02x%s on %r: the decompiled source returns %r, the bytecode %r" % (opc, "" if lit is None else " literal %d" % lit, t, g, w)
    return None


# ---- one conditional branch per method -------------------------------------------------------------------------------------
def cond_methods():
    """-> [(method, opcode)]: `if-<cmp> a, b, L ; return 0 ; L: return 1` and the same with if-<cmp>z, as flat code"""
    out = []
    for k, cmp_ in enumerate(("eq", "ne", "lt", "ge", "gt", "le")):
        for z_, opc in ((False, 0x32 + k), (True, 0x38 + k)):
            flat = [("br", cmp_, "p0", None if z_ else "p1", "T"), ("const", "i0", 0), ("ret", "i0"), ("label", "T"), ("const", "i0", 1), ("ret", "i0")]
            out.append(({"name": "c%d" % len(out), "ret": "I", "params": ["I", "I"], "flat": flat}, opc))
    # the branch skips an assignment: the decompiler has to print the complementary comparison (table CONDS)
    for k, cmp_ in enumerate(("eq", "ne", "lt", "ge", "gt", "le")):
        for z_, opc in ((False, 0x32 + k), (True, 0x38 + k)):
            flat = [("const", "i0", 1), ("br", cmp_, "p0", None if z_ else "p1", "J"), ("const", "i0", 0), ("label", "J"), ("ret", "i0")]
            out.append(({"name": "c%d" % len(out), "ret": "I", "params": ["I", "I"], "flat": flat}, opc))
    return out


def gen_cond(rng, tier, ctx):
    ms = cond_methods()
    argsets = []
    for m, opc in ms:
        tuples = [(a, b) for a in (0, 1, -1, 7, 2**31 - 1, -2**31) for b in (0, 1, -1, 7, -2**31)]
        tuples += [(rng.choice(I_EDGE), rng.choice(I_EDGE)) for _ in range(20 if tier == "thorough" else 6)]
        argsets.append(tuples)
    return [(argsets,)]


def impl_cond(case):
    (argsets,) = case
    methods = [m for m, _ in cond_methods()]
    src = J.decompile(J.build_dex(methods))
    res = J.run_java(src, methods, {m["name"]: a for m, a in zip(methods, argsets)})
    if isinstance(res, str):
        return {"error": res, "source": src}
    return {"values": [res[m["name"]] for m in methods], "source": src}


def coq_cond(case):
    (argsets,) = case
    return coq_list([coq_list(["(%s, (%s, %s))" % (z(opc), z(a), z(b)) for a, b in tuples]) for (m, opc), tuples in zip(cond_methods(), argsets)])


def oracle_cond(case, res):
    if isinstance(res, Err):
        return "decompiling or running failed: %s %s" % (res.name, res.msg[:200])
    if "error" in res:
        return "the decompiled class is not accepted or does not run: %s\n%s" % (res["error"][:300], res["source"][:600])
    (argsets,) = case
    for (m, opc), tuples, got in zip(cond_methods(), argsets, res["values"]):
        for t, g in zip(tuples, got):
            w = J.interpret(m, t)
            if g != w:
                return "opcode 0x%02x on %r: the decompiled source returns %r, the bytecode %r" % (opc, t, g, w)
    return None


# ---- structured methods ---------------------------------------------------------------------------------------------------
def gen_structured(rng, tier, ctx):
    """case = (methods, argument tuples per method); several methods share one class and one compiler run"""
    cases = []
    for b in range(30 if tier == "thorough" else 4):
        methods = [J.gen_method(rng, i) for i in range(4)] + [J.gen_pattern(rng, 4 + i) for i in range(2)] + [J.gen_const_fold(rng, 6 + i) for i in range(6)] + [J.gen_cast_chain(rng, 12 + i) for i in range(9)] + [J.gen_switch_shared(rng, 21 + i) for i in range(4)] + \
            [J.gen_shared_const(rng, 25 + i) for i in range(5)] + [J.gen_dowhile(rng, 30 + i) for i in range(4)]
        argsets = []
        for m in methods:
            argsets.append([tuple(rng.choice(I_EDGE) if t == "I" else rng.choice(J_EDGE) for t in m["params"]) for _ in range(8)])
        cases.append((methods, argsets))
    return cases


def impl_structured(case):
    """each method is decompiled and compiled on its own, so that one bad method does not hide the others"""
    import concurrent.futures as cf
    methods, argsets = case
    srcs = []
    for m in methods:
        try:
            srcs.append(J.decompile(J.build_dex([m])))
        except Exception as e:
            srcs.append(Err(type(e).__name__, str(e)[:150]))

    def one(k):
        if isinstance(srcs[k], Err):
            return {"decompile_error": "%s: %s" % (srcs[k].name, srcs[k].msg)}
        res = J.run_java(srcs[k], [methods[k]], {methods[k]["name"]: argsets[k]})
        return {"source": srcs[k], "error": res} if isinstance(res, str) else {"source": srcs[k], "values": res[methods[k]["name"]]}
    with cf.ThreadPoolExecutor(max_workers=6) as ex:
        return list(ex.map(one, range(len(methods))))


def classify_one(m, tuples, r):
    """None when the method is fine, else (finding id or None, text)"""
    if "decompile_error" in r:
        return (None, "decompiling raised %s" % r["decompile_error"])
    if "error" in r:
        e = r["error"]
        if re.search(r"[(\s](?:int|long|short|byte|char|boolean|float|double) v\d+ [-*/%+&|^<>)]", e):
            return ("KF-C21-inline-declaration", "a variable is declared in the middle of an expression: its definition was propagated into one use and removed, another use was left")
        if " cmp " in e:
            return ("KF-C21-cmp-long-value", "the source holds a 'cmp' expression, which is not Java")
        if "cannot find symbol" in e or "might not have been initialized" in e or "is already defined" in e:
            return ("KF-C21-declaration-scope", "a variable is declared in an inner block and used outside, or declared twice")
        if "incompatible types" in e:
            return ("KF-C21-variable-type", "a variable is declared with the type of one of its uses (char, byte, short, boolean) and assigned an int")
        return (None, "the source is not accepted by javac: %s" % e[:300])
    for t, g in zip(tuples, r["values"]):
        w = J.interpret(m, t)
        if g != w:
            if w == "ArithmeticException":
                return ("KF-C21-dead-division", "the bytecode throws ArithmeticException for %r, the source returns %r (a division whose result is unused was removed)" % (t, g))
            return (None, "for arguments %r the source returns %r, the bytecode %r" % (t, g, w))
    return None


def oracle_structured(case, res):
    if isinstance(res, Err):
        return "harness failed: %s %s" % (res.name, res.msg[:200])
    methods, argsets = case
    known = []
    for m, tuples, r in zip(methods, argsets, res):
        c = classify_one(m, tuples, r)
        if c is None:
            continue
        if c[0] is None:
            return "method %s: %s\n%s" % (m["name"], c[1], r.get("source", "")[:900])
        known.append(c)
    if known:
        return "%s: %s" % (known[0][0], known[0][1])
    return None


def classify(case, res, why):
    for k in ("KF-C21-cmp-long-value", "KF-C21-declaration-scope", "KF-C21-dead-division", "KF-C21-variable-type", "KF-C21-inline-declaration"):
        if k in why:
            return k
    return None


def stats_structured(cases, results):
    d = {"methods": 0, "accepted_and_equal": 0, "known": {}, "argument_tuples": 0}
    for (methods, argsets), res in zip(cases, results):
        if isinstance(res, Err):
            continue
        for m, tuples, r in zip(methods, argsets, res):
            d["methods"] += 1
            d["argument_tuples"] += len(tuples)
            c = classify_one(m, tuples, r)
            if c is None:
                d["accepted_and_equal"] += 1
            elif c[0]:
                d["known"][c[0]] = d["known"].get(c[0], 0) + 1
    return d


STREAMS = [
    {"name": "single-instructions", "gen": gen_single, "impl": impl_single, "canon": canon_single, "coq_header": COQ_HEADER,
     "coq_type": "list (list (Z * (Z * Z)))", "coq_input": coq_single, "coq_obs": "(fun ls => VList (map (fun l => VList (map obs_op l)) ls))",
     "model_vo": "Dad/OpSemantics.vo", "pinned": False, "oracle": oracle_single, "shard": 2, "case_timeout": 300},
    {"name": "single-conditions", "gen": gen_cond, "impl": impl_cond, "canon": lambda r: Err("Other", r["error"][:200]) if "error" in r else r["values"], "coq_header": COQ_HEADER,
     "coq_type": "list (list (Z * (Z * Z)))", "coq_input": coq_cond, "coq_obs": "(fun ls => VList (map (fun l => VList (map obs_branch l)) ls))",
     "model_vo": "Dad/OpSemantics.vo", "pinned": False, "oracle": oracle_cond, "shard": 2, "case_timeout": 300},
    {"name": "structured-methods", "gen": gen_structured, "impl": impl_structured, "oracle": oracle_structured, "classify": classify,
     "stats": stats_structured, "case_timeout": 600},
]
