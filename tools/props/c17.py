"""C17 - renaming changes exactly the renamed item, for any sequence of renames."""
from tools.vlib.coqfmt import Err, z, zlist, coq_list

ID = "C17"
TITLE = "Renaming changes exactly the renamed item, for any sequence of renames"
PROPS = "C17"
LEVEL = "proof"
DESIGN_REF = "DESIGN.md section 5, C17"
TECHNIQUE = ("Coq theorems about a hand-written state-machine model of the string hooks behind set_name (one step function "
             "for rename / reload / query operations, a dictionary of current names as specification): the full statement is "
             "refuted by a kernel-evaluated witness, and proved for all operation sequences under the hypothesis that no "
             "string index is shared, by an invariant (every cached name and every live lookup agrees with the dictionary) "
             "kept by each operation; model tied to the source by a differential run of random operation sequences on "
             "generated DEX files through the real API")
LEVEL_TEXT = ("Partial, with a recorded finding. Unbounded proof: for every file in which no two classes, methods, fields or "
              "string constants use the same string-table index, and for EVERY sequence of class/method/field renames, item "
              "reloads and name queries, each query returns the item's most recent new name (or its original name) and "
              "const-string operands are unchanged. Without that hypothesis the statement is false of the model and of the "
              "code (C17_full_statement_refuted; known finding KF-C17-shared-string-index): a rename is a hook on a string "
              "index. The model is compared with the real set_name / reload / get_name / const-string output on every run, "
              "on files with and without shared names.")
LEVEL_NOTE = ("Trusted: Coq kernel; coq/Dex/RenameModel.v as a rendering of set_hook_class_name / set_hook_method_name / "
              "set_hook_field_name / set_hook_string / get_string, the id-item and encoded-item reloads and the bulk "
              "method-id reload after a class rename, and of the lazy loading of EncodedMethod / EncodedField (the name is "
              "fetched from the id item at the first get_name(), which set_hook_*_name also calls) (texts as numbers: "
              "original text = its string index; new names may be existing strings, the item's own original name "
              "included; the Python attribute export class_def.M / F is left out); the harness tools/props/c17.py, which "
              "finds the items by position and takes original names from a second parse nothing else is done to.")
TRUSTED = ["hand-written model coq/Dex/RenameModel.v", "correspondence harness tools/props/c17.py with tools/writers/dexwriter.py"]

COQ_HEADER = "Require Import V.Dex.RenameModel."
POOL = ["a", "b", "Test", "run", "x", "value"]
NEW0 = 100000


def gen(rng, tier, ctx):
    """case = (classes, consts, ops, shared): classes = [(name, [method names], [field names])], ops = [(kind, index, new id)]"""
    cases = []
    # the recorded shapes: a method name shared by two classes, a class rename in between; a constant equal to a renamed name
    cases.append(([("Lp/A;", ["Test"], []), ("Lp/B;", ["Test"], [])], [], [("RenM", 0, NEW0), ("RenC", 1, NEW0 + 1), ("QueryM", 1, 0), ("QueryM", 0, 0)], True))
    cases.append(([("Lp/A;", ["go"], ["f"])], [], [("RenM", 0, NEW0), ("RenM", 0, -1), ("QueryM", 0, 0), ("RenF", 0, NEW0 + 1), ("RenF", 0, -1), ("QueryF", 0, 0),
                                                   ("RenC", 0, NEW0 + 2), ("RenC", 0, -1), ("QueryC", 0, 0), ("ReloadM", 0, 0), ("QueryM", 0, 0)], False))
    cases.append(([("Lp/A;", ["go", "stop"], ["f", "g"])], [], [("RenM", 1, NEW0), ("RenF", 1, NEW0 + 1), ("QueryM", 0, 0), ("QueryM", 1, 0), ("QueryF", 1, 0),
                                                                ("QueryF", 0, 0)], False))
    cases.append(([("Lp/A;", ["go"], ["f"])], ["go", "f", "Lp/A;"], [("RenM", 0, NEW0), ("QueryS", 0, 0), ("RenF", 0, NEW0 + 1), ("QueryS", 1, 0),
                                                                   ("RenC", 0, NEW0 + 2), ("QueryS", 2, 0), ("QueryM", 0, 0)], True))
    for it in range(300 if tier == "thorough" else 60):
        shared = it % 3 != 0
        ncls = rng.randint(1, 4)
        classes, used = [], set()
        fresh = iter("n%d" % i for i in range(1000))
        for c in range(ncls):
            ms, fs = [], []
            for _ in range(rng.randint(0, 3)):
                nm = rng.choice(POOL) if shared else next(fresh)
                if nm not in ms:
                    ms.append(nm)
            for _ in range(rng.randint(0, 3)):
                nm = rng.choice(POOL) if shared else next(fresh)
                if nm not in fs:
                    fs.append(nm)
            classes.append(("Lp/C%d;" % c, ms, fs))
        consts = []
        for _ in range(rng.randint(0, 4)):
            consts.append(rng.choice(POOL + ["Lp/C0;", "hello"]) if shared else "s%d" % len(consts))
        nm_, nf_ = sum(len(c[1]) for c in classes), sum(len(c[2]) for c in classes)
        ops, new = [], NEW0
        for _ in range(rng.randint(4, 25)):
            r = rng.random()
            back = rng.random()      # < 0.2: the new name is the item's own original name; shared files: < 0.3 another item's original name
            if r < 0.2 and nm_:
                ops.append(("RenM", rng.randrange(nm_), -1 if back < 0.2 else -2 - rng.randrange(nm_) if back < 0.3 and shared else new)); new += 1
            elif r < 0.35 and nf_:
                ops.append(("RenF", rng.randrange(nf_), -1 if back < 0.2 else -2 - rng.randrange(nf_) if back < 0.3 and shared else new)); new += 1
            elif r < 0.5:
                ops.append(("RenC", rng.randrange(ncls), -1 if back < 0.2 else new)); new += 1
            elif r < 0.58 and nm_:
                ops.append(("ReloadM", rng.randrange(nm_), 0))
            elif r < 0.65 and nf_:
                ops.append(("ReloadF", rng.randrange(nf_), 0))
            elif r < 0.78 and nm_:
                ops.append(("QueryM", rng.randrange(nm_), 0))
            elif r < 0.88 and nf_:
                ops.append(("QueryF", rng.randrange(nf_), 0))
            elif r < 0.95 or not consts:
                ops.append(("QueryC", rng.randrange(ncls), 0))
            else:
                ops.append(("QueryS", rng.randrange(len(consts)), 0))
        # every item is queried at the end
        ops += [("QueryM", k, 0) for k in range(nm_)] + [("QueryF", k, 0) for k in range(nf_)] + [("QueryC", c, 0) for c in range(ncls)] + \
               [("QueryS", j, 0) for j in range(len(consts))]
        cases.append((classes, consts, ops, shared))
    return cases


def build(case):
    from tools.writers.dexwriter import DexBuilder, Code, Str
    classes, consts, ops, shared = case
    b = DexBuilder()
    for name, ms, fs in classes:
        k = b.add_class(name)
        for m in ms:
            k.add_method(m, "V", (), access=1, direct=False, code=Code(1, 1, 0, [0x000E]))
        for f in fs:
            k.add_field(f, "I", access=1)
    h = b.add_class("Lzz/Holder;")
    units = []
    for s in consts:
        units += [0x001A, Str(s)]
    h.add_method("hold", "V", (), access=9, direct=True, code=Code(1, 0, 0, units + [0x000E]))
    return b.build()


def new_text(kind, v):
    return ("LR%d;" if kind == "RenC" else "R%d") % v


def impl(case):
    from androguard.core.dex import DEX
    classes, consts, ops, shared = case
    raw = build(case)
    d = DEX(raw)
    d0 = DEX(raw)             # a second parse, only read: where each item is, and what it was called. Nothing is asked of d before the operations
    cm = d.get_class_manager()
    pos = {c.get_name(): j for j, c in enumerate(d0.get_classes())}
    all0, alld = d0.get_classes(), d.get_classes()
    cdefs = [alld[pos[name]] for name, _, _ in classes]
    ems, efs, m_orig, f_orig = [], [], [], []
    for ci, (name, ms, fs) in enumerate(classes):
        c0, c = all0[pos[name]], alld[pos[name]]
        mpos = {m.get_name(): j for j, m in enumerate(c0.get_methods())}
        ems += [(c.get_methods()[mpos[m]], ci) for m in ms]
        fpos = {f.get_name(): j for j, f in enumerate(c0.get_fields())}
        efs += [(c.get_fields()[fpos[f]], ci) for f in fs]
        m_orig += ms
        f_orig += fs
    holder = alld[pos["Lzz/Holder;"]].get_methods()[0]
    cins = [i for i in holder.get_instructions() if i.get_op_value() == 0x1A]
    strings = d0.get_strings()
    sidx = {s: i for i, s in enumerate(strings)}

    def text_for(kind, k, v):
        if v >= 0:
            return new_text(kind, v)
        if kind == "RenC":
            return classes[k][0]
        orig = m_orig if kind == "RenM" else f_orig
        return orig[k] if v == -1 else orig[-2 - v]

    def ident(text):
        if text.startswith("LR") and text.endswith(";") and text[2:-1].isdigit():
            return int(text[2:-1])
        if text.startswith("R") and text[1:].isdigit():
            return int(text[1:])
        return sidx.get(text, -7)
    table = {"classes": [cm.get_type_ref(c.get_class_idx()) for c in cdefs],
             "methods": [[ci, cm.get_method_ref(m.get_method_idx()).get_name_idx()] for m, ci in ems],
             "fields": [[ci, cm.get_field_ref(f.get_field_idx()).get_name_idx()] for f, ci in efs],
             "consts": [i.get_ref_kind() for i in cins]}
    out = []
    rops = [(kind, k, ident(text_for(kind, k, v)) if kind.startswith("Ren") else v) for kind, k, v in ops]     # new names as numbers
    for kind, k, v in ops:
        if kind == "RenM":
            ems[k][0].set_name(text_for(kind, k, v)); out.append(None)
        elif kind == "RenF":
            efs[k][0].set_name(text_for(kind, k, v)); out.append(None)
        elif kind == "RenC":
            cdefs[k].set_name(text_for(kind, k, v)); out.append(None)
        elif kind == "ReloadM":
            ems[k][0].reload(); out.append(None)
        elif kind == "ReloadF":
            efs[k][0].reload(); out.append(None)
        elif kind == "QueryM":
            out.append(ident(ems[k][0].get_name()))
        elif kind == "QueryF":
            out.append(ident(efs[k][0].get_name()))
        elif kind == "QueryC":
            out.append(ident(cdefs[k].get_name()))
        elif kind == "QueryS":
            out.append(ident(cins[k].get_string()))
    return {"out": out, "table": table, "ops": [list(o) for o in rops]}


def canon(res):
    return res["out"]


def coq_input(case, res):
    t = res["table"]
    ops = coq_list(["(%s %s)" % (k, z(i)) if k.startswith(("Reload", "Query")) else "(%s %s %s)" % (k, z(i), z(v)) for k, i, v in res["ops"]])
    return "({| d_classes := %s; d_methods := %s; d_fields := %s; d_consts := %s |}, %s)" % (
        zlist(t["classes"]), coq_list(["(%s, %s)" % (z(a), z(b)) for a, b in t["methods"]]),
        coq_list(["(%s, %s)" % (z(a), z(b)) for a, b in t["fields"]]), zlist(t["consts"]), ops)


def oracle(case, res):
    """the dictionary model of the property"""
    if isinstance(res, Err):
        return "the rename sequence failed: %s %s" % (res.name, res.msg[:150])
    classes, consts, ops, shared = case
    t = res["table"]
    nm = {k: idx for k, (_, idx) in enumerate(t["methods"])}
    nf = {k: idx for k, (_, idx) in enumerate(t["fields"])}
    nc = dict(enumerate(t["classes"]))
    for step, ((kind, k, v), got) in enumerate(zip(res["ops"], res["out"])):
        if kind == "RenM":
            nm[k] = v
        elif kind == "RenF":
            nf[k] = v
        elif kind == "RenC":
            nc[k] = v
        elif kind.startswith("Query"):
            want = {"QueryM": nm, "QueryF": nf, "QueryC": nc}[kind][k] if kind != "QueryS" else t["consts"][k]
            if got != want:
                what = {"QueryM": "method", "QueryF": "field", "QueryC": "class", "QueryS": "const-string"}[kind]
                idx = {"QueryM": lambda: t["methods"][k][1], "QueryF": lambda: t["fields"][k][1], "QueryC": lambda: t["classes"][k],
                       "QueryS": lambda: t["consts"][k]}[kind]()
                users = sum(1 for _, i in t["methods"] if i == idx) + sum(1 for _, i in t["fields"] if i == idx) + \
                    sum(1 for i in t["classes"] if i == idx) + sum(1 for i in t["consts"] if i == idx)
                tag = "SHARED-STRING: " if users > 1 else ""
                return "%sstep %d: %s %d reports name %s, its current name is %s (string index %d is used by %d items/constants)" % (
                    tag, step, what, k, got, want, idx, users)
    return None


def classify(case, res, why):
    return "KF-C17-shared-string-index" if "SHARED-STRING" in why else None


def stats(cases, results):
    d = {"sequences": len(cases), "operations": sum(len(c[2]) for c in cases), "renames": sum(1 for c in cases for o in c[2] if o[0].startswith("Ren")),
         "renames_back_to_the_original_name": sum(1 for c in cases for o in c[2] if o[0].startswith("Ren") and o[2] == -1),
         "renames_to_another_items_original_name": sum(1 for c in cases for o in c[2] if o[0].startswith("Ren") and o[2] < -1),
         "without_shared_strings": sum(1 for c in cases if not c[3]), "queries": sum(1 for c in cases for o in c[2] if o[0].startswith("Query"))}
    return d


STREAMS = [{"name": "rename-sequences", "gen": gen, "impl": impl, "canon": canon, "coq_header": COQ_HEADER, "coq_type": "dexfile * list op",
            "coq_input": lambda c: None, "coq_input_r": coq_input, "coq_obs": "obs_rename", "model_vo": "Dex/RenameModel.vo", "pinned": False,
            "oracle": oracle, "classify": classify, "stats": stats, "shard": 20}]
