"""C20 - def-use chains equal the reaching-definitions solution."""
from tools.props import c19
from tools.vlib.coqfmt import Err, z, zlist, coq_list

ID = "C20"
TITLE = "Def-use chains equal the reaching-definitions solution"
PROPS = "C20"
LEVEL = "proof"
DESIGN_REF = "DESIGN.md section 5, C20"
TECHNIQUE = ("Coq theorems by invariants of the worklist iteration (every recorded definition has a witness path; every node "
             "outside the worklist satisfies the data-flow equations as inclusions), preserved by each step and lifted by "
             "induction on the fuel; completeness by induction on the witness path at the empty worklist; about a hand-written "
             "model of BasicReachDef.__init__/run, reach_def_analysis and build_def_use; model tied to the source by a "
             "differential run on generated graphs of define/use statements and on the graphs of shipped methods")
LEVEL_TEXT = ("Unbounded proof: for every well-formed method (any graph: loops, irreducible regions, self loops, catch edges, "
              "unreachable nodes; any instructions; distinct parameter registers; one loc per definition), whenever the "
              "modelled worklist iteration ends, R[v] is exactly the set of definitions that reach the entry of v along some "
              "path without an intervening redefinition, and the definitions linked to each use are exactly the reaching "
              "ones (nearest earlier definition in the node, else those reaching the node entry; parameters included); a "
              "register defined nowhere gets no row. The iteration always ends (every pass of the loop body strictly lowers queue "
              "length + degree * room left in the sets, which only grow and hold definitions of the method only): on any fuel "
              "from steps_bound(m) on the modelled run returns one and the same state, and that state is the path solution; "
              "the executable analysis uses a smaller fixed fuel and either returns that state or reports OutOfFuel (never on "
              "the runs). The model is "
              "compared with the real build_def_use / reach_def_analysis (UD, DU, R) on every run.")
LEVEL_NOTE = ("Trusted: Coq kernel; coq/Dad/ReachDefModel.v as a rendering of BasicReachDef (sets as sorted lists; the dummy "
              "entry node as node n; the dummy exit node, which has no instructions and no successors, left out), "
              "build_def_use (rows of one use merged, definition lists as sets: the code appends duplicates when an "
              "instruction names a register twice); the hypotheses wf are tested on every case by wf_b inside the model; "
              "the harness tools/props/c20.py (fake nodes carrying (loc, lhs, used) triples on the real Graph class).")
TRUSTED = ["hand-written model coq/Dad/ReachDefModel.v of BasicReachDef / build_def_use",
           "correspondence harness tools/props/c20.py (graph and statement generators, extraction of shipped methods, path-based Python oracle)"]

COQ_HEADER = "Require Import V.Dad.ReachDefModel."
NREG = 4


def gen(rng, tier, ctx):
    """case = (n, edges, catch, code, params, has_exit);  code[v] = [(lhs|-1, [used])]"""
    cases = []
    # a one-block loop that uses a register before redefining it; a loop whose header and bottom both define a register
    cases.append((1, [[0]], [[]], [[(-1, [1]), (1, [1, 0]), (0, [0])]], [0, 1], False))
    cases.append((4, [[1], [2], [3, 1], []], [[], [], [], []], [[(0, [])], [(1, [0]), (0, [0])], [(0, [1, 0])], [(-1, [0, 1])]], [1], True))
    for _ in range(900 if tier == "thorough" else 180):
        n = rng.choice((1, 2, 3, 4, 5, 6, 8, 12)) if rng.random() < 0.9 else rng.choice((20, 30))
        style = rng.choice(("tree+", "cfg", "cfg", "dag", "any", "selfloops"))
        if style == "selfloops":
            edges, catch = c19._rand_graph(rng, n, "cfg")
            for v in range(n):
                if rng.random() < 0.4 and v not in edges[v]:
                    edges[v].append(v)
        else:
            edges, catch = c19._rand_graph(rng, n, style)
        nreg = rng.choice((1, 2, 3, NREG))
        code = []
        for v in range(n):
            body = []
            for _ in range(rng.choice((0, 1, 1, 2, 3, 5))):
                lhs = rng.randrange(nreg) if rng.random() < 0.6 else -1
                used = [rng.randrange(nreg + (1 if rng.random() < 0.1 else 0)) for _ in range(rng.choice((0, 1, 1, 2, 3)))]
                body.append((lhs, used))
            code.append(body)
        params = rng.sample(range(nreg), rng.randint(0, min(2, nreg)))
        cases.append((n, edges, catch, code, params, rng.random() < 0.5))
    return cases


def locs_of(code):
    """instructions as (loc, lhs, used); generated bodies carry no locs and are numbered in node order"""
    loc, out = 0, []
    for body in code:
        row = []
        for it in body:
            if len(it) == 3:
                row.append(tuple(it))
            else:
                row.append((loc, it[0], it[1]))
                loc += 1
        out.append(row)
    return out


def build(case):
    from androguard.decompiler.graph import Graph
    from androguard.decompiler.node import Node
    n, edges, catch, code, params, has_exit = case

    class Ins:
        def __init__(self, lhs, used):
            self.lhs, self.used = lhs, used

        def get_lhs(self):
            return None if self.lhs < 0 else self.lhs

        def get_used_vars(self):
            return list(self.used)

    class N(Node):
        catch_type = None

        def __init__(self, name, body):
            super().__init__(name)
            self.body = body

        def set_catch_type(self, t):
            self.catch_type = t

        def get_loc_with_ins(self):
            return [(loc, Ins(lhs, used)) for loc, lhs, used in self.body]
    g = Graph()
    rows = locs_of(code)
    nodes = [N("n%d" % i, rows[i]) for i in range(n)]
    for x in nodes:
        g.add_node(x)
    for i, l in enumerate(edges):
        for j in l:
            g.add_edge(nodes[i], nodes[j])
    for i, l in enumerate(catch):
        for j in l:
            g.add_catch_edge(nodes[i], nodes[j])
    g.entry = nodes[0]
    g.exit = nodes[n - 1] if has_exit else None
    g.compute_rpo()
    return g, nodes


def impl(case):
    from androguard.decompiler.dataflow import build_def_use, reach_def_analysis
    g, nodes = build(case)
    idx = {x: i for i, x in enumerate(nodes)}
    rpo = [idx[x] for x in g.rpo]
    ud, du = build_def_use(g, list(case[4]))
    g2, nodes2 = build(case)
    an = reach_def_analysis(g2, list(case[4]))
    R = [sorted(an.R[x]) for x in nodes2]
    f = lambda d: sorted([k[0], k[1], sorted(set(v))] for k, v in d.items())
    return {"ud": f(ud), "du": f(du), "R": R, "rpo": rpo, "raw_ud": sorted([k[0], k[1], list(v)] for k, v in ud.items())}


def canon(res):
    return [res["ud"], res["du"], res["R"], True]        # the last entry: the model's well-formedness test of the case


def coq_input(case, res):
    n, edges, catch, code, params, has_exit = case
    sucs = [c19._dedup(list(edges[i]) + list(catch[i])) for i in range(n)]
    # all_sucs keeps duplicates between edges and catch edges; membership is all the model needs
    rows = locs_of(code)
    return "{| g_sucs := %s; g_entry := 0; g_code := %s; g_params := %s; g_rpo := %s |}" % (
        coq_list([zlist(l) for l in sucs]),
        coq_list([coq_list(["(%s, (%s, %s))" % (z(loc), z(lhs), zlist(used)) for loc, lhs, used in row]) for row in rows]),
        zlist(params), zlist(res["rpo"]))


def expected_ud(case):
    """the reaching-definitions solution, by paths"""
    n, edges, catch, code, params, has_exit = case
    rows = locs_of(code)
    sucs = [set(edges[i]) | set(catch[i]) for i in range(n)] + [{0}]           # node n = the parameters, in front of the entry
    defs = [[(lhs, loc) for loc, lhs, used in rows[v] if lhs >= 0] for v in range(n)] + [[(p, -(k + 1)) for k, p in enumerate(params)]]
    alldef_regs = {r for dl in defs for r, _ in dl}
    out = {}
    for v in range(n):
        for loc, lhs, used in rows[v]:
            for reg in used:
                if reg not in alldef_regs:
                    continue
                prior = [d for r, d in defs[v] if r == reg and d < loc]
                if prior:
                    out.setdefault((reg, loc), set()).add(max(prior))
                    continue
                out.setdefault((reg, loc), set())
                # nodes from which the entry of v is reachable through nodes that do not define reg
                seen, todo = set(), [v]
                sources = set()
                while todo:
                    b = todo.pop()
                    for a in range(n + 1):
                        if b in sucs[a]:
                            sources.add(a)
                            if a not in seen and not any(r == reg for r, _ in defs[a]):
                                seen.add(a)
                                todo.append(a)
                for a in sources:
                    mine = [d for r, d in defs[a] if r == reg]
                    if mine:
                        out[(reg, loc)].add(max(mine))
    return out


def oracle(case, res):
    if isinstance(res, Err):
        return "build_def_use failed: %s %s" % (res.name, res.msg[:150])
    want = expected_ud(case)
    got = {(a, b): set(c) for a, b, c in res["ud"]}
    if got != want:
        for k in sorted(set(got) | set(want)):
            if got.get(k) != want.get(k):
                return "use of register %d at instruction %d: linked definitions %s, reaching definitions %s" % (
                    k[0], k[1], sorted(got[k]) if k in got else None, sorted(want[k]) if k in want else None)
    wdu = {}
    for (reg, loc), ds in want.items():
        for d in ds:
            wdu.setdefault((reg, d), set()).add(loc)
    gdu = {(a, b): set(c) for a, b, c in res["du"]}
    if gdu != wdu:
        k = sorted(set(gdu) ^ set(wdu) or [k for k in gdu if gdu[k] != wdu[k]])[0]
        return "definition of register %d at %d: uses %s, expected %s" % (k[0], k[1], sorted(gdu.get(k, [])), sorted(wdu.get(k, [])))
    return None


def stats(cases, results):
    d = {"graphs": len(cases), "nodes_max": max(c[0] for c in cases), "instructions": 0, "uses": 0, "uses_with_several_defs": 0,
         "uses_of_parameters": 0, "self_loops": 0}
    for c, r in zip(cases, results):
        d["instructions"] += sum(len(b) for b in c[3])
        d["self_loops"] += any(i in l for i, l in enumerate(c[1]))
        if not isinstance(r, Err):
            d["uses"] += len(r["ud"])
            d["uses_with_several_defs"] += sum(1 for x in r["ud"] if len(x[2]) > 1)
            d["uses_of_parameters"] += sum(1 for x in r["ud"] if any(v < 0 for v in x[2]))
    return d


# ---- the graphs of shipped methods ---------------------------------------------------------------------------------------
SHIPPED = ["tests/data/APK/classes.dex", "tests/data/APK/ExceptionHandling.dex", "tests/data/APK/FillArrays.dex", "tests/data/APK/Test.dex"]


def gen_shipped(rng, tier, ctx):
    """the decompiler's own graph of every k-th method with code, reduced to (edges, catch edges, (loc, lhs, used) rows, parameters)"""
    import os
    from androguard.core.dex import DEX
    from androguard.core.analysis.analysis import Analysis
    from androguard.decompiler.decompile import DvMethod
    from androguard.decompiler.graph import construct
    from loguru import logger
    logger.remove()
    cases = []
    for rel in SHIPPED:
        path = os.path.join(ctx.repo, rel)
        if not os.path.exists(path):
            continue
        d = DEX(open(path, "rb").read())
        dx = Analysis(d)
        big = rel.endswith("classes.dex")
        step = (7 if tier == "thorough" else 97) if big else 1
        start = rng.randrange(step)
        k = -1
        for ma in dx.get_methods():
            if ma.is_external() or ma.get_method().get_code() is None:
                continue
            k += 1
            if k % step != start:
                continue
            try:
                dm = DvMethod(ma)
                if dm.start_block is None:
                    continue
                g = construct(dm.start_block, dm.var_to_name, dm.exceptions)
            except Exception:
                continue
            nodes = [g.entry] + [x for x in g.nodes if x is not g.entry]
            if len(nodes) > 40:
                continue
            idx = {x: i for i, x in enumerate(nodes)}
            edges = [[idx[y] for y in g.edges.get(x, [])] for x in nodes]
            catch = [[idx[y] for y in g.catch_edges.get(x, [])] for x in nodes]
            code = []
            ok = True
            for x in nodes:
                row = []
                for loc, ins in x.get_loc_with_ins():
                    lhs = ins.get_lhs()
                    used = list(ins.get_used_vars())
                    if not all(isinstance(u, int) for u in used) or not (lhs is None or isinstance(lhs, int)):
                        ok = False
                    row.append((loc, -1 if lhs is None else lhs, used))
                code.append(row)
            if ok and all(isinstance(p, int) for p in dm.lparams) and len(set(dm.lparams)) == len(dm.lparams):
                cases.append((len(nodes), edges, catch, code, list(dm.lparams), g.exit is not None))
    return cases


STREAMS = [{"name": "generated-graphs", "gen": gen, "impl": impl, "canon": canon, "coq_header": COQ_HEADER, "coq_type": "method",
            "coq_input": lambda c: None, "coq_input_r": coq_input, "coq_obs": "obs_defuse", "model_vo": "Dad/ReachDefModel.vo",
            "pinned": False, "oracle": oracle, "stats": stats, "shard": 25, "case_timeout": 300},
           {"name": "shipped-methods", "gen": gen_shipped, "impl": impl, "canon": canon, "coq_header": COQ_HEADER, "coq_type": "method",
            "coq_input": lambda c: None, "coq_input_r": coq_input, "coq_obs": "obs_defuse", "model_vo": "Dad/ReachDefModel.vo",
            "pinned": False, "oracle": oracle, "stats": stats, "shard": 25, "case_timeout": 300}]
