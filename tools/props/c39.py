"""C39 - API-level resources follow the documented fallback rule."""
import io
import json
import os
import re

from tools.vlib.coqfmt import Err, z, zlist

ID = "C39"
TITLE = "API-level resources follow the documented fallback rule"
PROPS = "C39"
LEVEL = "proof"
DESIGN_REF = "DESIGN.md section 5, C39"
TECHNIQUE = ("Coq theorems (list max/min lemmas, case analysis, lia) about a hand-written model of load_permissions, "
             "load_permission_mappings and load_api_specific_resource_module with the directory listing as a parameter; "
             "model tied to the source by a differential run on generated directory listings (os.listdir/isfile/open "
             "replaced inside the loader module) and on the shipped directories for every level -5..100 as int and str")
LEVEL_TEXT = ("Unbounded proof: for every non-empty set of available levels and every requested level (any integer), the "
              "modelled load_permissions opens the file of the level the documented rule selects (exact, else highest "
              "below, else lowest), the rule determines that level uniquely, the module-level entry point requests the "
              "given level (0 included; None and '' mean the default) and permission mappings fall back to the default "
              "level. The model is compared with the real functions on every run: on generated listings and, for "
              "every level -5..100 as int and as str, on the directories shipped in the working tree.")
LEVEL_NOTE = ("Trusted: Coq kernel; coq/Conf/ApiLevelModel.v as a rendering of the Python (file permissions_N.json exists "
              "iff N is in the listing: canonical decimal file names; recursion of load_permissions as fuel 4, proved to "
              "need 2); the harness tools/props/c39.py, which replaces os/open inside the loader module for generated "
              "listings and records the file opened for the shipped ones. Non-canonical level strings ('007') are "
              "outside the model.")
TRUSTED = ["hand-written model coq/Conf/ApiLevelModel.v (directory listing as a parameter, canonical file names)",
           "correspondence harness tools/props/c39.py (fake os/open inside the loader module, recorder of the opened file)"]
ASSUMPTIONS = ["level strings are canonical decimals (str(int)); file names in the resource directories are canonical"]

COQ_HEADER = "Require Import V.Conf.ApiLevelModel."
DISTRACTORS = ["README.md", "permissions_x.json", "permissions_12.json.bak", "xpermissions_3.json", "permissions_.json"]


def _arg(tag, v):
    return None if tag == 0 else int(v) if tag == 1 else str(v) if tag == 2 else ""


def expected(levels, api):
    if api in levels:
        return api
    lows = [x for x in levels if x < api]
    return max(lows) if lows else min(levels)


def _real_levels(repo, sub):
    d = os.path.join(repo, "androguard", "core", "api_specific_resources", sub)
    return sorted(int(m.group(1)) for m in (re.match(r"^permissions_(\d+)\.json$", f) for f in os.listdir(d)) if m)


def impl(case):
    kind, levels, mlevels, default, tag, v = case
    import androguard.core.api_specific_resources as m
    from androguard.core import androconf
    arg = _arg(tag, v)
    old_default = androconf.CONF["DEFAULT_API"]
    opened = []
    try:
        androconf.CONF["DEFAULT_API"] = default
        if kind <= 3:
            files = {"aosp_permissions": ["permissions_%d.json" % l for l in levels] + DISTRACTORS,
                     "api_permission_mappings": ["permissions_%d.json" % l for l in mlevels] + DISTRACTORS[:2]}

            class FakePath:
                dirname = staticmethod(os.path.dirname)
                realpath = staticmethod(os.path.realpath)
                join = staticmethod(os.path.join)

                @staticmethod
                def isfile(p):
                    return os.path.basename(p) in files.get(os.path.basename(os.path.dirname(p)), [])

            class FakeOS:
                path = FakePath

                @staticmethod
                def listdir(d):
                    return list(files[os.path.basename(d)])

            def fake_open(p, mode="r", *a, **k):
                if not FakePath.isfile(p):
                    raise FileNotFoundError(p)
                opened.append(p)
                lvl = int(re.match(r"^permissions_(-?\d+)\.json$", os.path.basename(p)).group(1))
                if os.path.basename(os.path.dirname(p)) == "aosp_permissions":
                    return io.StringIO(json.dumps({"permissions": {"LEVEL": {"n": lvl}}, "groups": {"LEVEL": {"g": lvl}}}))
                return io.StringIO(json.dumps({"LEVEL": [str(lvl)]}))
            m.os, m.open = FakeOS, fake_open
        else:
            def rec_open(p, *a, **k):
                opened.append(p)
                return open(p, *a, **k)
            m.open = rec_open
        if kind in (0, 4):
            r = m.load_permissions(arg)
        elif kind in (1, 6):
            r = androconf.load_api_specific_resource_module("aosp_permissions", arg)
        elif kind in (2, 5):
            r = androconf.load_api_specific_resource_module("api_permission_mappings", arg)
        else:
            r = m.load_permission_mappings(arg)
        if r == {}:
            return None
        lvl = int(re.match(r"^permissions_(-?\d+)\.json$", os.path.basename(opened[-1])).group(1))
        if kind <= 3:       # the content returned is the content of that file
            want = {"LEVEL": {"n": lvl}} if kind in (0, 1) else {"LEVEL": [str(lvl)]}
            if r != want:
                return ["wrong-content", lvl]
        return lvl
    finally:
        androconf.CONF["DEFAULT_API"] = old_default
        m.os = os
        if "open" in m.__dict__:
            del m.__dict__["open"]


def gen(rng, tier, ctx):
    big = tier == "thorough"
    cases = []
    # the shipped directories, every level -5..100 as int and as str, plus "not given"
    real = _real_levels(ctx.repo, "aosp_permissions")
    realm = _real_levels(ctx.repo, "api_permission_mappings")
    for kind in (4, 6, 5):
        for v in range(-5, 101):
            for tag in (1, 2):
                cases.append((kind, real, realm, 16, tag, v))
        if kind != 4:
            cases.append((kind, real, realm, 16, 0, 0))
            cases.append((kind, real, realm, 16, 3, 0))
    # generated listings
    for _ in range(4000 if big else 700):
        n = rng.choice((0, 1, 1, 2, 3, 4, 6, 9))
        levels = rng.sample(range(0, 41), n)
        mlevels = rng.sample(range(0, 41), rng.choice((0, 1, 3, 5)))
        pool = levels + mlevels + [16, 0, 1]
        default = rng.choice(pool)
        kind = rng.choice((0, 0, 1, 1, 2, 2, 3))
        tag = rng.choice((1, 1, 1, 2, 2, 0, 3))
        near = [x + d for x in levels + mlevels for d in (-1, 0, 1)] + [0, -1, -5, 45, 1000]
        v = rng.choice(near) if rng.random() < 0.7 else rng.randint(-6, 46)
        cases.append((kind, levels, mlevels, default, tag, v))
    return cases


def oracle(case, res):
    kind, levels, mlevels, default, tag, v = case
    if kind == 3:
        return None
    if kind in (0, 4):
        if tag in (0, 3) or not levels:
            return None
        want = expected(levels, v)
    elif kind in (1, 6):
        if not levels:
            return None
        want = expected(levels, default if tag in (0, 3) else v)
    else:
        if default not in mlevels:
            return None
        api = default if tag in (0, 3) else v
        want = api if api in mlevels else default
    if isinstance(res, Err):
        return "raised %s" % res.name
    if res != want:
        return "%s with api=%r and available levels %s loaded level %r; the documented rule selects %d" % (
            {0: "load_permissions", 4: "load_permissions", 1: "module(aosp_permissions)", 6: "module(aosp_permissions)",
             2: "module(api_permission_mappings)", 5: "module(api_permission_mappings)"}[kind],
            _arg(tag, v), sorted(levels if kind in (0, 1, 4, 6) else mlevels), res, want)
    return None


def stats(cases, results):
    d = {}
    for c, r in zip(cases, results):
        kind, levels, mlevels, default, tag, v = c
        lv = levels if kind in (0, 1, 4, 6) else mlevels
        api = default if tag in (0, 3) else v
        rel = "empty" if not lv else "exact" if api in lv else "above" if api > max(lv) else "below" if api < min(lv) else "between"
        key = "kind%d/%s/%s/%s" % (kind, ["none", "int", "str", "emptystr"][tag], rel, "err" if isinstance(r, Err) else "ok")
        d[key] = d.get(key, 0) + 1
    return d


STREAMS = [{
    "name": "levels", "gen": gen, "impl": impl, "coq_header": COQ_HEADER,
    "coq_type": "Z * list Z * list Z * Z * Z * Z",
    "coq_input": lambda c: "(%s, %s, %s, %s, %s, %s)" % (z(c[0]), zlist(c[1]), zlist(c[2]), z(c[3]), z(c[4]), z(c[5])),
    "coq_obs": "obs_api", "model_vo": "Conf/ApiLevelModel.vo",
    "pinned": False, "oracle": oracle, "stats": stats, "shard": 300,
    "nontrivial": lambda c, r: isinstance(r, int),
}]
