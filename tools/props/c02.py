"""C02 - linear-sweep disassembly recovers the instruction stream and always terminates."""
import struct

from tools.props import c01
from tools.tr import insn_tr
from tools.vlib.coqfmt import Err, z, zlist, coq_bool

ID = "C02"
TITLE = "Linear-sweep disassembly recovers the instruction stream and always terminates"
PROPS = "C02"
LEVEL = "proof"
DESIGN_REF = "DESIGN.md section 5, C02"
TECHNIQUE = ("Coq theorems by induction on the sweep's fuel (every object the loop body can build is at least two bytes long - "
             "a kernel-evaluated check of both opcode tables plus arithmetic on the payload headers - and the loop refuses "
             "objects that end outside the code, so the position strictly increases and |code| + 1 iterations suffice) about a "
             "hand-written model of LinearSweepAlgorithm.get_instructions and the payload classes on top of the "
             "translator-generated instruction classes of C01; model tied to the source by a differential run on assembled "
             "streams, mutations, truncations and random buffers, with the recovery and re-encoding clauses decided by the "
             "oracle on every run")
LEVEL_TEXT = ("Unbounded proof: (1) for every byte string, declared size, start offset and ODEX flag the modelled sweep ends within "
              "(length + 1) iterations, and every object it yields lies entirely inside the buffer and inside the declared "
              "size and is at least two bytes long; (2) for every stream assembled from chunks whose decoding does not depend "
              "on what follows - every instruction that its translated constructor accepts on exactly its own bytes (all 36 "
              "classes read the first len bytes only), and every packed-switch, sparse-switch and fill-array-data payload of "
              "any size, keys, width and data - followed by anything, the sweep over the declared size yields exactly those "
              "items, in order, at their byte offsets, and ends without error; (3) the three payloads re-encode (get_raw) to "
              "their bytes. Re-encoding of ordinary instructions is the per-class theorem of C01. The same statements are "
              "checked against the assembled description on every run (every valid opcode, 0xfe/0xff with every register byte, "
              "payloads of random sizes and alignment).")
LEVEL_NOTE = ("Trusted: Coq kernel; coq/Dex/SweepModel.v as a rendering of LinearSweepAlgorithm.get_instructions and of "
              "PackedSwitch/SparseSwitch/FillArrayData (constructor, get_length, get_raw); the ordinary instructions are the "
              "generated classes of C01 (translator, coq/Lib/Struct.v); laziness of the Python generator is rendered as 'the "
              "items yielded, then how it ended'; DCode's caching wrapper is observed only through the same generator; the "
              "harness tools/props/c02.py.")
TRUSTED = ["hand-written model coq/Dex/SweepModel.v on top of the generated coq/gen/Gen_Insn.v (translator of C01)",
           "correspondence harness tools/props/c02.py (assembler of instruction streams from the Dalvik format table of c01.py)"]

COQ_HEADER = "Require Import V.Dex.SweepModel."


def translate(ctx):
    return insn_tr.translate(ctx)


# ---- assembling streams ------------------------------------------------------------------------------------------------------
VALID_OPS = [op for op in range(256) if c01.fmt_of(op) is not None]


def rand_insn(rng, op=None):
    op = rng.choice(VALID_OPS) if op is None else op
    f = c01.fmt_of(op)
    n = 2 * c01.UNITS[f]
    b = [op] + [rng.choice((0, 1, 0x7F, 0x80, 0xFF, rng.randrange(256))) for _ in range(n - 1)]
    if f in ("10x", "20t", "30t", "32x"):
        b[1] = 0
    if f == "45cc":
        b[1] = (rng.randrange(6) << 4) | rng.randrange(16)
    return ("ins", bytes(b))


def rand_payload(rng):
    k = rng.random()
    if k < 0.35:
        n = rng.choice((0, 1, 2, 3, 7))
        return ("packed", struct.pack("<HHi", 0x0100, n, rng.randrange(-5, 100)) + b"".join(struct.pack("<i", rng.randrange(-1000, 1000)) for _ in range(n)))
    if k < 0.7:
        n = rng.choice((0, 1, 2, 5))
        return ("sparse", struct.pack("<HH", 0x0200, n) + b"".join(struct.pack("<i", 10 * j) for j in range(n)) +
                b"".join(struct.pack("<i", rng.randrange(-1000, 1000)) for _ in range(n)))
    w, n = rng.choice((1, 2, 4, 8)), rng.choice((0, 1, 2, 3, 5, 9))
    data = bytes(rng.randrange(256) for _ in range(w * n))
    if len(data) % 2:
        data += bytes([rng.choice((0, 0, 0xFF, 0x5A))])          # the alignment byte need not be zero
    return ("fill", struct.pack("<HHI", 0x0300, w, n) + data)


def gen_assembled(rng, tier, ctx):
    cases = []
    # every valid opcode once, each followed by a nop; 0xfe / 0xff with every register byte
    items = []
    for op in VALID_OPS:
        items += [rand_insn(rng, op), ("ins", b"\x00\x00")]
    cases.append((False, items))
    for op in (0xFE, 0xFF):
        cases.append((False, [("ins", bytes([op, aa, rng.randrange(256), rng.randrange(256)])) for aa in range(256)]))
    for _ in range(150 if tier == "thorough" else 25):
        items = [rand_insn(rng) if rng.random() < 0.85 else rand_payload(rng) for _ in range(rng.randrange(1, 40))]
        if rng.random() < 0.5:
            items.append(("ins", b"\x0e\x00"))
            for _ in range(rng.randrange(0, 4)):
                if rng.random() < 0.5:
                    items.append(("ins", b"\x00\x00"))
                items.append(rand_payload(rng))
        cases.append((False, items))
    return cases


def flat(items):
    return b"".join(b for _, b in items)


KIND = {"ins": 0, "packed": 1, "sparse": 2, "fill": 3}


def run_sweep(odex, size, data):
    from androguard.core import dex
    cm = c01.MockCM()
    cm.get_odex_format = lambda: odex
    out = []
    end = None
    idx = 0
    try:
        for obj in dex.LinearSweepAlgorithm.get_instructions(cm, size, bytearray(data), 0):
            k = 1 if isinstance(obj, dex.PackedSwitch) else 2 if isinstance(obj, dex.SparseSwitch) else 3 if isinstance(obj, dex.FillArrayData) else 0
            try:
                raw = bytes(obj.get_raw())
            except struct.error:
                raw = Err("StructError")
            out.append([idx, k, obj.get_length(), raw])
            idx += obj.get_length()
            if len(out) > 200000:
                end = Err("Timeout")
                break
    except dex.InvalidInstruction:
        end = Err("InvalidInstruction")
    except struct.error:
        end = Err("StructError")
    return [out, end]


def impl_assembled(case):
    odex, items = case
    data = flat(items)
    return run_sweep(odex, len(data) // 2, data)


def oracle_assembled(case, res):
    odex, items = case
    if isinstance(res, Err):
        return "the sweep harness failed: %s %s" % (res.name, res.msg[:120])
    got, end = res
    want, at = [], 0
    for kind, b in items:
        want.append([at, KIND[kind], len(b), b])
        at += len(b)
    if end is not None:
        return "a stream assembled from valid instructions ended with %s after %d of %d items (at offset %d: %s)" % (
            end.name, len(got), len(want), got[-1][0] + got[-1][2] if got else 0, flat(items)[(got[-1][0] + got[-1][2] if got else 0):][:10].hex())
    for g, w in zip(got, want):
        if g != w:
            return "item at offset %d: disassembled as (offset, kind, length, raw) %r, assembled was %r" % (
                w[0], [g[0], g[1], g[2], g[3].hex() if isinstance(g[3], bytes) else g[3]], [w[0], w[1], w[2], w[3].hex()])
    if len(got) != len(want):
        return "%d items disassembled, %d assembled" % (len(got), len(want))
    return None


def gen_arbitrary(rng, tier, ctx):
    cases = [(False, 5, b"\x12\x00\x12"), (False, 5, b"\x12"), (False, 1, b""), (False, 4, b"\x00\x01\xff\xff\x00\x00\x00\x00"),
             (False, 6, b"\x00\x03\x04\x00\x09\x00\x00\x00\x01\x02")]
    base = gen_assembled(rng, "quick", ctx)[3:]
    for _ in range(1500 if tier == "thorough" else 260):
        r = rng.random()
        if r < 0.45:
            data = bytearray(flat(rng.choice(base)[1]))
            for _ in range(rng.choice((1, 1, 2, 4))):
                if data:
                    data[rng.randrange(len(data))] = rng.choice((0, 1, 2, 3, 0xFF, 0xFE, 0x3E, 0x73, rng.randrange(256)))
        elif r < 0.65:
            data = bytearray(flat(rng.choice(base)[1]))
            data = data[:rng.randrange(0, len(data) + 1)]
        elif r < 0.8:      # a payload header announcing more than there is
            k = rng.choice((0x0100, 0x0200, 0x0300))
            hdr = struct.pack("<HH", k, rng.choice((1, 2, 0xFF, 0xFFFF, 3))) + bytes(rng.randrange(256) for _ in range(rng.choice((0, 2, 4, 6, 12, 20))))
            data = bytearray(b"\x12\x00" * rng.randrange(0, 3) + hdr)
        else:
            data = bytearray(rng.choice((0, 0, 1, 2, 3, 0xFF, rng.randrange(256))) for _ in range(rng.randrange(0, 60)))
        size = len(data) // 2 if rng.random() < 0.7 else rng.choice((0, 1, len(data) // 2 + 3, max(0, len(data) // 2 - 2), len(data)))
        cases.append((rng.random() < 0.15, size, bytes(data)))
    return cases


def dcode_looks(odex, size, data):
    """the same code through a DCode object, asked three times: [number of instructions, how it ended] per look"""
    from androguard.core import dex
    cm = c01.MockCM()
    cm.get_odex_format = lambda: odex
    dc = dex.DCode(cm, 0, size, bytearray(data))
    looks = []
    for _ in range(3):
        n, end = 0, None
        try:
            for obj in dc.get_instructions():
                n += 1
        except dex.InvalidInstruction:
            end = "InvalidInstruction"
        except struct.error:
            end = "StructError"
        looks.append([n, end])
    first = None
    return [looks, first]


def impl_arbitrary(case):
    odex, size, data = case
    return run_sweep(odex, size, data) + [dcode_looks(odex, size, data)]


def oracle_arbitrary(case, res):
    odex, size, data = case
    if isinstance(res, Err):
        return "the sweep did not terminate normally: %s" % res.name
    got, end = res[0], res[1]
    limit = min(len(data), 2 * size)
    for off, k, ln, raw in got:
        if ln < 2:
            return "object at offset %d has length %d" % (off, ln)
        if off + ln > limit:
            return "object at offset %d (kind %d) has length %d and runs past the end of the code (%d bytes)" % (off, k, ln, limit)
        if raw != data[off:off + ln]:
            return "object at offset %d re-encodes to %s, the code holds %s" % (
                off, raw.hex() if isinstance(raw, bytes) else raw, data[off:off + ln].hex())
    if end is not None and end.name != "InvalidInstruction":
        return "the sweep ended with %s instead of InvalidInstruction (code %s, declared size %d units)" % (end.name, data.hex()[:60], size)
    # the same code through DCode.get_instructions: every look has to end the way the sweep ends - an invalid instruction is
    # reported each time, not only the first time
    looks, first = res[2]
    want_end = None if end is None else end.name
    for k, (n, e) in enumerate(looks):
        if e != want_end:
            return "DCode.get_instructions, look %d: %d instructions ending with %s; the sweep over the same code yields %d and ends with %s (code %s)" % (
                k + 1, n, e, len(got), want_end, data.hex()[:60])
        if want_end is None and n != len(got):
            return "DCode.get_instructions, look %d: %d instructions, the sweep yields %d" % (k + 1, n, len(got))
    return None


def stats_arbitrary(cases, results):
    d = {"buffers": len(cases), "ended_ok": 0, "ended_invalid": 0, "objects": 0, "payload_objects": 0, "odex": 0}
    for c, r in zip(cases, results):
        d["odex"] += c[0]
        if isinstance(r, Err):
            continue
        d["objects"] += len(r[0])
        d["payload_objects"] += sum(1 for o in r[0] if o[1])
        d["ended_ok" if r[1] is None else "ended_invalid"] += 1
    return d


def stats_assembled(cases, results):
    d = {"streams": len(cases), "items": 0, "payloads": 0}
    for odex, items in cases:
        d["items"] += len(items)
        d["payloads"] += sum(1 for k, _ in items if k != "ins")
    return d


STREAMS = [
    {"name": "assembled", "gen": gen_assembled, "impl": impl_assembled, "coq_header": COQ_HEADER, "coq_type": "(bool * Z) * list Z",
     "coq_input": lambda c: "((%s, %s), %s)" % (coq_bool(c[0]), z(len(flat(c[1])) // 2), zlist(list(flat(c[1])))),
     "coq_obs": "obs_sweep", "model_vo": "Dex/SweepModel.vo", "pinned": False, "oracle": oracle_assembled, "stats": stats_assembled, "shard": 6},
    {"name": "arbitrary", "gen": gen_arbitrary, "impl": impl_arbitrary, "coq_header": COQ_HEADER, "coq_type": "(bool * Z) * list Z",
     "coq_input": lambda c: "((%s, %s), %s)" % (coq_bool(c[0]), z(c[1]), zlist(list(c[2]))),
     "coq_obs": "obs_sweep", "model_vo": "Dex/SweepModel.vo", "pinned": False, "oracle": oracle_arbitrary, "stats": stats_arbitrary, "shard": 40,
     "canon": lambda r: r[:2]},
]
