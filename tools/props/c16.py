"""C16 - multi-DEX analysis is independent of how the code is split and ordered."""
from tools.vlib import xref_common as X

ID = "C16"
TITLE = "Multi-DEX analysis is independent of how the code is split and ordered"
PROPS = "C16"
LEVEL = "proof"
DESIGN_REF = "DESIGN.md section 5, C13/C14/C15/C16"
TECHNIQUE = ("Coq theorems (Permutation of the DEX list and flattening into one DEX, carried through flat_map) about a "
             "hand-written relational model of Analysis.add/create_xref; the field part of the full statement is refuted by a "
             "kernel-evaluated witness and proved under the hypothesis that no access crosses a DEX boundary; model tied to "
             "the source by a differential run in which every add order of every split is analysed by the real code and "
             "compared with the single-DEX analysis")
LEVEL_TEXT = ("Unbounded proof: for every program and every permutation of its DEX files the modelled call, string, class and "
              "field cross-references, external classes and method inventory have the same members, and the call, string and "
              "class relations and inventories of the single DEX holding all classes are equal to those of the split. For "
              "field cross-references the merged analysis equals the split one when every accessed field is defined in the DEX "
              "of the accessing instruction or in none; without that hypothesis it is false (C16_fields_refuted), which is the "
              "recorded known finding KF-C16-cross-dex-field.")
LEVEL_NOTE = ("Trusted: Coq kernel; coq/Analysis/XrefModel.v as a description of what create_xref leaves behind; "
              "tools/vlib/xref_common.py, tools/writers/dexwriter.py.")
TRUSTED = ["hand-written model coq/Analysis/XrefModel.v", "tools/vlib/xref_common.py, tools/writers/dexwriter.py"]
STREAMS = [X.STREAM16()]
