"""C11 - The control-flow graph has exactly the successors the bytecode allows."""
from tools.vlib import cfg_common as C

ID = "C11"
TITLE = "The control-flow graph has exactly the successors the bytecode allows"
PROPS = "C11"
LEVEL = "proof"
DESIGN_REF = "DESIGN.md section 5, C10/C11/C12/C40"
TECHNIQUE = ("Coq theorems (case analysis of the last instruction's kind over the modelled determineNext and set_childs; the predecessor lists are defined as the inverse image and proved to be exactly that) about the hand-written model of block construction; model tied to the source by a differential run on generated methods")
LEVEL_TEXT = ("Unbounded proof: for every block of the modelled method, the successor entries are exactly: the block after it for an instruction that does not branch; nothing after return or throw; the target block for a goto; the next block and the target block for a conditional; the next block and one entry per case target (duplicates kept) for a switch whose payload is found - each restricted to targets that lie inside a block; and a block's predecessor entries are exactly the successor entries that name it, in block order. The model is compared with the real MethodAnalysis (childs, fathers) on generated methods on every run.")
LEVEL_NOTE = ("Trusted: Coq kernel; coq/Analysis/CfgModel.v as a rendering of _create_basic_block, determineNext, "
              "determineException, get_ins_off, set_childs, get_exception (an instruction is its byte length and kind; the "
              "linear sweep that produces the instruction list is C02's subject, not this model's); the assembler "
              "tools/vlib/dalvik_asm.py, the DEX writer and the harness tools/vlib/cfg_common.py.")
TRUSTED = ["hand-written model coq/Analysis/CfgModel.v", "tools/vlib/dalvik_asm.py, tools/writers/dexwriter.py, tools/vlib/cfg_common.py "
           "(generated methods, observation of MethodAnalysis, statement of the partition rules as oracle)"]
STREAMS = [C.STREAM(C.per_method(C.check_successors)), C.STREAM_SHIPPED(C.per_method_shipped(C.check_successors))]
