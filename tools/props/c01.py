"""C01 - Dalvik instruction decoding is faithful for every operand encoding."""
from tools.tr import insn_tr
from tools.vlib.coqfmt import Err, z, zlist, coq_bool

ID = "C01"
TITLE = "Dalvik instruction decoding is faithful for every operand encoding"
PROPS = "C01"
LEVEL = "proof"
DESIGN_REF = "DESIGN.md section 5, C01"
TECHNIQUE = ("Coq theorems about a model regenerated from the working tree on every run by a fail-closed translator "
             "(tools/tr/insn_tr.py: every Instruction* class and both opcode tables -> coq/gen/Gen_Insn.v): per format, for all "
             "byte values, decoding gives the fields the Dalvik format defines and re-encoding gives the input bytes (bit "
             "operations rewritten to arithmetic, lia; wide fields by the struct pack/unpack inverse lemma); per opcode, the "
             "table agrees with the transcribed Dalvik opcode/format table (kernel evaluation over all 256 opcodes); plus a "
             "differential run of the generated model against the real classes")
LEVEL_TEXT = ("Unbounded proof over all operand bit patterns: for each of the 36 instruction classes and every byte string of "
              "the format's length (followed by anything), the translated constructor returns exactly the fields the Dalvik "
              "format layout defines (registers, sign-extended literals, high16 shifts, signed branch offsets, unsigned pool "
              "indices, the register range of /range forms), rejects a non-zero padding byte of 10x/20t/30t/32x and A > 5 of 45cc, "
              "and the translated get_raw of those fields returns the input bytes; for every opcode 0..255 the dispatch table "
              "names the class and length of the opcode's Dalvik format, and exactly the unused opcodes are rejected. The "
              "theorems are re-checked against the source on every run (translator) and the generated model is compared with "
              "the real classes on every opcode.")
LEVEL_NOTE = ("Trusted: Coq kernel; the translator tools/tr/insn_tr.py (Python ast -> Gallina for the subset the classes use: one "
              "struct unpack of buff[:length], assignments of & | << >> + - expressions, if/elif/else assignments, raise guards, "
              "one struct pack; anything else aborts the check) and coq/Lib/Struct.v as the meaning of struct pack/unpack; "
              "coq/Dex/InsnSpec.v as the transcription of the Dalvik format and opcode tables; get_operands/get_output are not "
              "translated (they need the class manager): they are compared with the format's meaning by the harness oracle only.")
TRUSTED = ["translator tools/tr/insn_tr.py and coq/Lib/Struct.v (semantics of the translated subset)",
           "coq/Dex/InsnSpec.v (Dalvik instruction formats and opcode table, transcribed by hand) and coq/Dex/InsnModel.v (dispatch glue)",
           "correspondence harness tools/props/c01.py (mock class manager; Python transcription of the Dalvik tables as oracle)"]

COQ_HEADER = "Require Import V.Dex.InsnModel."


def translate(ctx):
    return insn_tr.translate(ctx)


# ---- the Dalvik opcode -> format table and the format layouts, transcribed from the Dalvik bytecode documentation ----------
def fmt_of(op):
    t = {0x00: "10x", 0x0E: "10x", 0x12: "11n", 0x13: "21s", 0x16: "21s", 0x14: "31i", 0x17: "31i", 0x15: "21h", 0x19: "21h",
         0x18: "51l", 0x1A: "21c", 0x1B: "31c", 0x1C: "21c", 0x1F: "21c", 0x20: "22c", 0x21: "12x", 0x22: "21c", 0x23: "22c",
         0x24: "35c", 0x25: "3rc", 0x26: "31t", 0x27: "11x", 0x28: "10t", 0x29: "20t", 0x2A: "30t", 0x2B: "31t", 0x2C: "31t",
         0xFA: "45cc", 0xFB: "4rcc", 0xFC: "35c", 0xFD: "3rc", 0xFE: "21c", 0xFF: "21c"}
    if op in t:
        return t[op]
    for lo, hi, f in ((0x01, 0x01, "12x"), (0x02, 0x02, "22x"), (0x03, 0x03, "32x"), (0x04, 0x04, "12x"), (0x05, 0x05, "22x"),
                      (0x06, 0x06, "32x"), (0x07, 0x07, "12x"), (0x08, 0x08, "22x"), (0x09, 0x09, "32x"), (0x0A, 0x0D, "11x"),
                      (0x0F, 0x11, "11x"), (0x1D, 0x1E, "11x"), (0x2D, 0x31, "23x"), (0x32, 0x37, "22t"), (0x38, 0x3D, "21t"),
                      (0x44, 0x51, "23x"), (0x52, 0x5F, "22c"), (0x60, 0x6D, "21c"), (0x6E, 0x72, "35c"), (0x74, 0x78, "3rc"),
                      (0x7B, 0x8F, "12x"), (0x90, 0xAF, "23x"), (0xB0, 0xCF, "12x"), (0xD0, 0xD7, "22s"), (0xD8, 0xE2, "22b")):
        if lo <= op <= hi:
            return f
    return None          # unused: 3e..43, 73, 79, 7a, e3..f9


UNITS = {"10x": 1, "12x": 1, "11n": 1, "11x": 1, "10t": 1, "20t": 2, "22x": 2, "21t": 2, "21s": 2, "21h": 2, "21c": 2, "23x": 2,
         "22b": 2, "22t": 2, "22s": 2, "22c": 2, "30t": 3, "32x": 3, "31i": 3, "31t": 3, "31c": 3, "35c": 3, "3rc": 3, "51l": 5,
         "45cc": 4, "4rcc": 4}


def sx(v, bits):
    return v - (1 << bits) if v >= 1 << (bits - 1) else v


def layout(fmt, op, b):
    """-> dict(regs, lits, off, idx) by the format's bit layout; None when the format rejects the bytes"""
    u = [b[2 * i] | (b[2 * i + 1] << 8) for i in range(len(b) // 2)]
    AA, A, B = u[0] >> 8, (u[0] >> 8) & 15, u[0] >> 12
    r = {"regs": [], "lits": [], "off": None, "idx": None}
    if fmt in ("10x", "20t", "30t", "32x") and AA != 0:
        return None
    if fmt == "12x":
        r["regs"] = [A, B]
    elif fmt == "11n":
        r["regs"], r["lits"] = [A], [sx(B, 4)]
    elif fmt == "11x":
        r["regs"] = [AA]
    elif fmt == "10t":
        r["off"] = sx(AA, 8)
    elif fmt == "20t":
        r["off"] = sx(u[1], 16)
    elif fmt == "22x":
        r["regs"] = [AA, u[1]]
    elif fmt == "21t":
        r["regs"], r["off"] = [AA], sx(u[1], 16)
    elif fmt == "21s":
        r["regs"], r["lits"] = [AA], [sx(u[1], 16)]
    elif fmt == "21h":
        r["regs"], r["lits"] = [AA], [sx(u[1], 16) << (16 if op == 0x15 else 48)]
    elif fmt == "21c":
        r["regs"], r["idx"] = [AA], u[1]
    elif fmt == "23x":
        r["regs"] = [AA, u[1] & 255, u[1] >> 8]
    elif fmt == "22b":
        r["regs"], r["lits"] = [AA, u[1] & 255], [sx(u[1] >> 8, 8)]
    elif fmt == "22t":
        r["regs"], r["off"] = [A, B], sx(u[1], 16)
    elif fmt == "22s":
        r["regs"], r["lits"] = [A, B], [sx(u[1], 16)]
    elif fmt == "22c":
        r["regs"], r["idx"] = [A, B], u[1]
    elif fmt == "30t":
        r["off"] = sx(u[1] | u[2] << 16, 32)
    elif fmt == "32x":
        r["regs"] = [u[1], u[2]]
    elif fmt == "31i":
        r["regs"], r["lits"] = [AA], [sx(u[1] | u[2] << 16, 32)]
    elif fmt == "31t":
        r["regs"], r["off"] = [AA], sx(u[1] | u[2] << 16, 32)
    elif fmt == "31c":
        r["regs"], r["idx"] = [AA], u[1] | u[2] << 16
    elif fmt == "35c":
        n = B
        r["regs"] = [u[2] & 15, (u[2] >> 4) & 15, (u[2] >> 8) & 15, u[2] >> 12, A][:n] if n <= 5 else None
        r["idx"] = u[1]
    elif fmt == "3rc":
        r["regs"], r["idx"] = list(range(u[2], u[2] + AA)), u[1]
    elif fmt == "51l":
        r["regs"], r["lits"] = [AA], [sx(u[1] | u[2] << 16 | u[3] << 32 | u[4] << 48, 64)]
    elif fmt == "45cc":
        if B > 5:
            return None
        r["regs"] = None          # the method and prototype indices are attributes (BBBB, HHHH); get_ref_kind is not offered
    elif fmt == "4rcc":
        r["regs"] = None
    return r


# ---- generation ------------------------------------------------------------------------------------------------------------
BOUND16 = [0x0000, 0x0001, 0x007F, 0x0080, 0x00FF, 0x0100, 0x7FFF, 0x8000, 0x8001, 0xFFFE, 0xFFFF, 0x00F0, 0x0F00, 0xF000, 0x1234]


def gen(rng, tier, ctx):
    cases = []
    for op in range(256):
        highs = range(256) if tier == "thorough" else sorted(set([0, 1, 5, 6, 0x0F, 0x10, 0x50, 0x5F, 0x60, 0x7F, 0x80, 0x81, 0xF0, 0xFF] +
                                                                 [rng.randrange(256) for _ in range(6)]))
        for hi in highs:
            for _ in range(4 if tier == "thorough" else 2):
                rest = []
                for _ in range(4):
                    v = rng.choice(BOUND16) if rng.random() < 0.6 else rng.randrange(65536)
                    rest += [v & 255, v >> 8]
                cases.append((False, op, [op, hi] + rest))
        for n in (1, 2, 3, 5, 7, 9):             # truncated buffers (at least the opcode byte)
            cases.append((False, op, [op] + [rng.randrange(256) for _ in range(n - 1)]))
    for op in range(0xF2FF, 0x10000, 0x100):     # the optimized table, and keys it does not have
        for _ in range(6):
            cases.append((True, op, [0xFF, op >> 8] + [rng.choice((0, 1, 0x7F, 0x80, 0xFF, rng.randrange(256))) for _ in range(8)]))
    cases.append((True, 0x00FF, [0xFF, 0] * 5))
    return cases


class MockRef:
    def get_class_name(self):
        return "LC;"

    def get_name(self):
        return "n"

    def get_descriptor(self):
        return "()V"


class MockCM:
    def __init__(self):
        from androguard.core.dex import DalvikPacker
        self.packer = DalvikPacker(0x12345678)

    def get_odex_format(self):
        return False

    def get_method_ref(self, i):
        return MockRef()

    def get_string(self, i):
        return "s"

    def get_raw_string(self, i):
        return "s"

    def get_type(self, i):
        return "T"

    def get_field(self, i):
        return ["LC;", "I", "f"]

    def get_proto(self, i):
        return ["()", "V"]

    def get_method(self, i):
        return ["LC;", "n", ["()", "V"]]


_cm = None


def impl(case):
    global _cm
    from androguard.core import dex
    from androguard.core.dex.dex_types import Operand
    if _cm is None:
        _cm = MockCM()
    opt, op, bs = case
    buf = bytearray(bs)
    try:
        i = (dex.get_optimized_instruction if opt else dex.get_instruction)(_cm, op, buf)
    except dex.InvalidInstruction:
        return Err("InvalidInstruction")

    def attempt(f):
        if f is None:
            return None
        try:
            return f()
        except Exception as e:
            if str(e) == "not implemented":
                return None
            return Err(type(e).__name__ if type(e).__name__ != "error" else "StructError")
    raw = attempt(lambda: bytes(i.get_raw()))
    ops = None
    if not opt:
        try:
            lst = i.get_operands()
            if lst is not None:
                ops = [[int(o[0]), o[1]] for o in lst]
        except Exception as e:
            ops = ["operands-raise", type(e).__name__]
    return [i.get_name(), i.get_length(), raw, list(i.get_literals()), attempt(getattr(i, "get_ref_off", None)), attempt(getattr(i, "get_ref_kind", None)), ops]


def canon(r):
    return r[:6]


def oracle(case, res):
    opt, op, bs = case
    if opt:
        return None
    f = fmt_of(op)
    if f is None:
        return None if res == Err("InvalidInstruction") else "opcode 0x%02x is unused in the Dalvik specification but decodes to %r" % (op, res)
    n = 2 * UNITS[f]
    if len(bs) < n:
        return None if isinstance(res, Err) else "opcode 0x%02x (format %s) needs %d bytes, %d given, result %r" % (op, f, n, len(bs), res)
    want = layout(f, op, bs[:n])
    if want is None:
        return None if res == Err("InvalidInstruction") else "format %s rejects the bytes %s, result %r" % (f, bytes(bs[:n]).hex(), res)
    if isinstance(res, Err):
        return "valid %s instruction %s raised %s" % (f, bytes(bs[:n]).hex(), res.name)
    name, length, raw, lits, off, idx, ops = res
    say = "opcode 0x%02x (%s, format %s) bytes %s: " % (op, name, f, bytes(bs[:n]).hex())
    if length != n:
        return say + "get_length() = %d, the format has %d bytes" % (length, n)
    if raw != bytes(bs[:n]):
        return say + "get_raw() = %r" % (raw.hex() if isinstance(raw, bytes) else raw)
    if lits != want["lits"]:
        return say + "get_literals() = %r, the format defines %r" % (lits, want["lits"])
    if want["off"] is not None and off != want["off"]:
        return say + "get_ref_off() = %r, the format defines %r" % (off, want["off"])
    if want["idx"] is not None and idx != want["idx"]:
        return say + "get_ref_kind() = %r, the format defines %r" % (idx, want["idx"])
    if ops is not None and want["regs"] is not None:
        if ops and ops[0] == "operands-raise":
            return say + "get_operands() raised %s" % ops[1]
        regs = [o[1] for o in ops if o[0] == 0]
        if regs != want["regs"]:
            return say + "get_operands() names the registers %r, the format defines %r" % (regs[:8], want["regs"][:8])
        olits = [o[1] for o in ops if o[0] == 1]
        if olits != want["lits"]:
            return say + "get_operands() gives the literals %r, the format defines %r" % (olits, want["lits"])
        ooff = [o[1] for o in ops if o[0] == 3]
        if ooff != ([want["off"]] if want["off"] is not None else []):
            return say + "get_operands() gives the offsets %r, the format defines %r" % (ooff, want["off"])
        oidx = [o[1] for o in ops if o[0] >= 0x100]
        if oidx != ([want["idx"]] if want["idx"] is not None else []):
            return say + "get_operands() gives the pool indices %r, the format defines %r" % (oidx, want["idx"])
    return None


def stats(cases, results):
    d = {"opcodes": len({c[1] for c in cases if not c[0]}), "optimized_keys": len({c[1] for c in cases if c[0]})}
    for c, r in zip(cases, results):
        k = "invalid" if isinstance(r, Err) else "decoded"
        d[k] = d.get(k, 0) + 1
        if not c[0]:
            f = fmt_of(c[1]) or "unused"
            d["fmt:" + f] = d.get("fmt:" + f, 0) + 1
    return d


STREAMS = [{"name": "opcodes", "gen": gen, "impl": impl, "canon": canon, "coq_header": COQ_HEADER, "coq_type": "(bool * Z) * list Z",
            "coq_input": lambda c: "((%s, %s), %s)" % (coq_bool(c[0]), z(c[1]), zlist(c[2])), "coq_obs": "obs_insn",
            "model_vo": "Dex/InsnModel.vo", "pinned": False, "oracle": oracle, "stats": stats, "shard": 800}]
