"""C15 - string and class-usage cross-references are exact."""
from tools.vlib import xref_common as X

ID = "C15"
TITLE = "String and class-usage cross-references are exact"
PROPS = "C15"
LEVEL = "proof"
DESIGN_REF = "DESIGN.md section 5, C13/C14/C15/C16"
TECHNIQUE = ("Coq theorems (membership characterisations by flat_map/in lemmas) about a hand-written relational model of "
             "Analysis._create_xref steps 1 and 3; model tied to the source by a differential run on generated multi-class, "
             "multi-DEX programs written by an independent DEX writer")
LEVEL_TEXT = ("Unbounded proof: for every program a row (string, class, method, offset) is among the modelled string "
              "cross-references iff that method has a const-string(/jumbo) of exactly that string at that offset, and a row "
              "(kind, class, user class, method, offset) is among the class references iff that method has a new-instance "
              "(kind 0x22) or const-class (0x1c) at that offset whose type, stripped of array dimensions, is that class and is "
              "not the method's own class. The model is compared on every run with StringAnalysis.get_xref_from, "
              "ClassAnalysis/MethodAnalysis.get_xref_new_instance/get_xref_const_class. A second stream (no model: the "
              "statement itself as oracle) analyses two DEX files that define the same class names with different code: "
              "the instructions of every definition must be listed.")
LEVEL_NOTE = ("Trusted: Coq kernel; coq/Analysis/XrefModel.v as a description of what create_xref leaves behind; "
              "tools/vlib/xref_common.py, tools/writers/dexwriter.py.")
TRUSTED = ["hand-written model coq/Analysis/XrefModel.v", "tools/vlib/xref_common.py, tools/writers/dexwriter.py"]
STREAMS = [X.STREAM(X.oracle_c15), X.STREAM15_SHADOW()]
