"""C33 - APK Signing Block contents are reported as encoded."""
import io
import struct
import zipfile

from tools.vlib.coqfmt import Err, zlist

ID = "C33"
TITLE = "APK Signing Block contents are reported as encoded"
PROPS = "C33"
LEVEL = "proof"
DESIGN_REF = "DESIGN.md section 5, C33"
TECHNIQUE = ("Coq theorems (decode-of-encode by induction over the nested length-prefixed lists, with the little-endian "
             "lemmas of coq/Lib/Struct.v; list lemmas for the presence flags, the first-block rule and the duplicate flag) "
             "about a hand-written model of parse_v2_v3_signature, parse_signatures_or_digests and "
             "parse_v2/v3_signing_block; model tied to the source by a differential run on generated APK files with generated "
             "and damaged signing blocks")
LEVEL_TEXT = ("Unbounded proof: for every list of id-value pairs (any ids, repeated ids, any values) the pair loop reads them "
              "back in order and flags exactly the repeated ids; a version's presence flag is true exactly when a pair with "
              "its id is present; the block parsed for a version is the value of the first pair with its id; for every list "
              "of signers (any digests, certificates, SDK bounds, attributes, signatures, public key, lengths below 2^32) the "
              "v2 and v3/v3.1 block parsers report exactly what is encoded; and the search for the block: for every file laid "
              "out as prefix ++ signing block ++ central directory ++ end-of-central-directory record (any pairs, prefix, "
              "directory and comment) in which no position after the end record looks like an end record, the block is "
              "found through the record, the central directory offset, the magic and the two size fields, and its pairs "
              "are the encoded ones.")
LEVEL_NOTE = ("Trusted: Coq kernel; coq/Apk/SigBlockModel.v as a rendering of the four parsing functions (BytesIO as 'the bytes "
              "from the position on', short reads returned as they are, every exception one error value); the public getters "
              "get_certificates_der_* / get_public_keys_der_* are observed and checked by the oracle, their bodies (loops over "
              "the parsed signers) are not modelled; the harness tools/props/c33.py (APK writer: zipfile + block inserted in "
              "front of the central directory).")
TRUSTED = ["hand-written model coq/Apk/SigBlockModel.v (+ coq/Lib/Struct.v)",
           "correspondence harness tools/props/c33.py (independent signing-block and zip writer)"]

COQ_HEADER = "Require Import V.Apk.SigBlockModel."
V2, V3, V31 = 0x7109871A, 0xF05368C0, 0x1B93AD61
PADDING, OTHER = 0x42726577, 0x6DFF800D


def lp(b):
    return struct.pack("<I", len(b)) + b


def enc_sod(items):
    return b"".join(lp(struct.pack("<I", a) + lp(d)) for a, d in items)


def enc_signer(s, v3):
    sd = lp(enc_sod(s["digests"])) + lp(b"".join(lp(c) for c in s["certs"]))
    if v3:
        sd += struct.pack("<II", *s["sd_sdk"])
    sd += lp(s["attrs"])
    body = lp(sd)
    if v3:
        body += struct.pack("<II", *s["sdk"])
    body += lp(enc_sod(s["sigs"])) + lp(s["pk"])
    return lp(body)


def enc_block(signers, v3):
    return lp(b"".join(enc_signer(s, v3) for s in signers))


def sig_block(pairs):
    body = b"".join(struct.pack("<QI", len(v) + 4, k) + v for k, v in pairs)
    size = len(body) + 24
    return struct.pack("<Q", size) + body + struct.pack("<Q", size) + b"APK Sig Block 42"


def make_apk(blk, comment=b""):
    bio = io.BytesIO()
    with zipfile.ZipFile(bio, "w") as zf:
        zf.writestr("a.txt", "hello")
        zf.writestr("classes.dex", "x" * 30)
        zf.comment = comment
    raw = bio.getvalue()
    eocd = raw.rindex(b"PK\x05\x06")
    cd = struct.unpack_from("<I", raw, eocd + 16)[0]
    out = bytearray(raw[:cd] + blk + raw[cd:])
    struct.pack_into("<I", out, eocd + len(blk) + 16, cd + len(blk))
    return bytes(out)


def rbytes(rng, lo=0, hi=12):
    return bytes(rng.randrange(256) for _ in range(rng.randint(lo, hi)))


def rand_signer(rng):
    sod = lambda: [(rng.choice((0x0101, 0x0103, 0x0201, 0x0421, rng.randrange(2**32))), rbytes(rng, 0, 20)) for _ in range(rng.choice((0, 1, 1, 2, 3)))]
    return {"digests": sod(), "certs": [rbytes(rng, 0, 30) for _ in range(rng.choice((0, 1, 1, 2, 3)))], "attrs": rbytes(rng, 0, 10),
            "sd_sdk": (rng.choice((0, 24, 28, 33)), rng.choice((30, 33, 2**31 - 1, 2**32 - 1))), "sdk": (rng.choice((24, 28, 33)), rng.choice((33, 2**31 - 1))),
            "sigs": sod(), "pk": rbytes(rng, 0, 30)}


def gen(rng, tier, ctx):
    """case = ("pairs", [(id, kind, signers | raw bytes)], comment) | ("raw", file bytes)"""
    cases = []
    one = lambda: [rand_signer(rng) for _ in range(rng.choice((1, 1, 2, 3)))]
    # each id alone, each pair of ids, a duplicate of each id with other contents, a last pair with an empty value
    for ids in ([V2], [V3], [V31], [V2, V3], [V31, V3], [V3, V31, V2], [V2, V2], [V3, V3], [V31, V31], [OTHER], []):
        cases.append(("pairs", [(i, "signers", one()) for i in ids], b""))
    cases.append(("pairs", [(V2, "signers", one()), (PADDING, "raw", b"")], b""))
    cases.append(("pairs", [(V3, "signers", one()), (V3, "raw", b"")], b""))
    cases.append(("pairs", [(V2, "raw", b"")], b""))
    cases.append(("none", None, b""))
    for _ in range(300 if tier == "thorough" else 60):
        pairs = []
        for _ in range(rng.choice((1, 2, 2, 3, 4, 5))):
            i = rng.choice((V2, V2, V3, V3, V31, V31, PADDING, OTHER, rng.randrange(2**32)))
            if i in (V2, V3, V31) and rng.random() < 0.85:
                pairs.append((i, "signers", one()))
            else:
                pairs.append((i, "raw", rbytes(rng, 0, 40) if rng.random() < 0.8 else b""))
        cases.append(("pairs", pairs, rbytes(rng, 0, 8) if rng.random() < 0.2 else b""))
    # damaged blocks: the model and the code must fail or succeed alike
    for _ in range(200 if tier == "thorough" else 40):
        pairs = [(rng.choice((V2, V3, V31)), "signers", one()) for _ in range(rng.choice((1, 2)))]
        raw = bytearray(build(("pairs", pairs, b"")))
        blk_end = raw.rindex(b"APK Sig Block 42")
        r = rng.random()
        if r < 0.6:
            k = rng.randrange(max(0, blk_end - 200), blk_end + 16)
            raw[k] = rng.choice((0, 1, 4, 0xFF, rng.randrange(256)))
        elif r < 0.8:
            k = rng.randrange(max(0, blk_end - 200), blk_end)
            struct.pack_into("<I", raw, k, rng.choice((0, 3, 4, 0xFFFFFFFF, 100000)))
        else:
            raw = raw[:rng.randrange(len(raw) - 60, len(raw))]
        cases.append(("raw", bytes(raw)))
    return cases


def build(case):
    if case[0] == "raw":
        return case[1]
    if case[0] == "none":
        return make_apk(b"")
    pairs = []
    for i, kind, x in case[1]:
        pairs.append((i, enc_block(x, i != V2) if kind == "signers" else x))
    return make_apk(sig_block(pairs), case[2])


def sod_rows(l):
    return [[a, list(d)] for a, d in l]


def signer_row(s, v3):
    sd = s.signed_data
    return [sod_rows(sd.digests), [list(c) for c in sd.certificates], [sd.minSDK, sd.maxSDK] if v3 else None, list(sd.additional_attributes),
            [s.minSDK, s.maxSDK] if v3 else None, sod_rows(s.signatures), list(s.public_key)]


def impl(case):
    from androguard.core.apk import APK
    raw = build(case)
    try:
        a = APK(raw, raw=True, skip_analysis=True)
    except Exception as e:
        return {"ctor": type(e).__name__, "raw": raw}
    try:
        f2 = a.is_signed_v2()
    except Exception as e:
        return {"err": type(e).__name__, "raw": raw}
    if f2 is None:
        return {"none": True, "raw": raw}
    out = {"flags": [bool(f2), bool(a.is_signed_v3()), bool(a.is_signed_v31()), bool(a.has_duplicate_apk_signature_ids())],
           "pairs": [[b.id, bool(b.is_duplicate_id), list(b.data)] for b in a._v2_blocks], "raw": raw, "api": {}}
    for name, parse, attr, v3 in (("v2", lambda: a.parse_v2_signing_block(), "_v2_signing_data", False),
                                 ("v3", lambda: a.parse_v3_signing_block(), "_v3_signing_data", True),
                                 ("v31", lambda: a.parse_v3_signing_block(v31=True), "_v31_signing_data", True)):
        try:
            parse()
            out[name] = [signer_row(s, v3) for s in getattr(a, attr)]
        except Exception as e:
            out[name] = Err("Other", type(e).__name__)
    # the public getters, on a fresh object
    b = APK(raw, raw=True, skip_analysis=True)
    def getters():
        d = {}
        for name in ("v2", "v3", "v31"):
            try:
                d[name] = [[list(c) for c in getattr(b, "get_certificates_der_" + name)()], [list(k) for k in getattr(b, "get_public_keys_der_" + name)()]]
            except Exception as e:
                d[name] = Err("Other", type(e).__name__)
        return d
    out["api"] = getters()
    second = getters()
    # for a block the parser refuses (an exception the first time) nothing is required of a second attempt
    out["api_again_same"] = all(second[n] == out["api"][n] for n in second if not isinstance(out["api"][n], Err)) and \
        [bool(b.is_signed_v2()), bool(b.is_signed_v3()), bool(b.is_signed_v31())] == out["flags"][:3]
    return out


def coq_input(case, res):
    if not isinstance(res, Err) and "ctor" in res:
        return "[]"                       # the zip itself is unreadable (APK() raises): outside the model; both sides say "error"
    return zlist(list(build(case)))


def canon(res):
    if "ctor" in res:
        return Err("Other")
    if "err" in res:
        return Err("OverflowError") if res["err"] == "OverflowError" else Err("Other")     # a pair size no read() accepts
    if "none" in res:
        return None
    return res["flags"] + [res["pairs"], res["v2"], res["v3"], res["v31"]]


def oracle(case, res):
    if isinstance(res, Err):
        return "harness failed: %s %s" % (res.name, res.msg[:150])
    if case[0] == "raw":
        return None
    if case[0] == "none":
        if "flags" in res and any(res["flags"]):
            return "an APK without signing block is reported as %s" % res["flags"]
        return None
    if "flags" not in res:
        return "the signing block was not found / not parsed: %s" % ({k: v for k, v in res.items() if k != "raw"},)
    ids = [i for i, _, _ in case[1]]
    want_flags = [V2 in ids, V3 in ids, V31 in ids, len(set(ids)) != len(ids)]
    if not res.get("api_again_same", True):
        return "asked a second time, the same APK object gives other certificates, public keys or presence flags"
    if res["flags"] != want_flags:
        return "presence flags (v2, v3, v3.1, duplicates) %s, the block holds the ids %s" % (res["flags"], [hex(i) for i in ids])
    for name, key, v3 in (("v2", V2, False), ("v3", V3, True), ("v31", V31, True)):
        first = next(((kind, x) for i, kind, x in case[1] if i == key), None)
        if first is None:
            want, want_api = [], [[], []]
        elif first[0] == "signers":
            want = [[sod_rows(s["digests"]), [list(c) for c in s["certs"]], list(s["sd_sdk"]) if v3 else None, list(s["attrs"]),
                     list(s["sdk"]) if v3 else None, sod_rows(s["sigs"]), list(s["pk"])] for s in first[1]]
            want_api = [[list(c) for s in first[1] for c in s["certs"]], [list(s["pk"]) for s in first[1]]]
        else:
            continue              # a raw value under a signature id: whatever the parser does with it is compared with the model only
        if res[name] != want:
            return "%s signers differ from the first block with id 0x%x: reported %s, encoded %s" % (name, key, str(res[name])[:300], str(want)[:300])
        if res["api"][name] != want_api:
            return "get_certificates_der_%s / get_public_keys_der_%s return %s, the first block with id 0x%x encodes %s" % (
                name, name, str(res["api"][name])[:200], key, str(want_api)[:200])
    return None


def stats(cases, results):
    d = {"files": len(cases), "damaged": sum(1 for c in cases if c[0] == "raw"), "pairs": 0, "duplicate_ids": 0, "signers": 0,
         "v31_without_v3": 0, "parse_errors": 0}
    for c, r in zip(cases, results):
        if c[0] == "pairs":
            ids = [i for i, _, _ in c[1]]
            d["pairs"] += len(ids)
            d["duplicate_ids"] += len(ids) != len(set(ids))
            d["signers"] += sum(len(x) for _, k, x in c[1] if k == "signers")
            d["v31_without_v3"] += V31 in ids and V3 not in ids
        if not isinstance(r, Err) and ("err" in r or any(isinstance(r.get(k), Err) for k in ("v2", "v3", "v31"))):
            d["parse_errors"] += 1
    return d


STREAMS = [{"name": "signing-blocks", "gen": gen, "impl": impl, "canon": canon, "coq_header": COQ_HEADER, "coq_type": "list Z",
            "coq_input": lambda c: None, "coq_input_r": coq_input, "coq_obs": "obs_apk",
            "model_vo": "Apk/SigBlockModel.vo", "pinned": False, "oracle": oracle, "stats": stats, "shard": 12, "case_timeout": 120}]
