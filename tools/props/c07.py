"""C07 - DEX parsing does not depend on the order of the map list."""
import itertools
from collections import OrderedDict

from tools.tr import mapdeps_tr
from tools.vlib import dexgen, dex_observe
from tools.vlib.coqfmt import Err, z, zlist, coq_list

ID = "C07"
TITLE = "DEX parsing does not depend on the order of the map list"
PROPS = "C07"
LEVEL = "proof"
DESIGN_REF = "DESIGN.md section 5, C07"
TECHNIQUE = ("Coq theorems about a model whose dependency table is regenerated from dex_types.py on every run by a "
             "fail-closed translator (the total order and the dependency property of that table are evaluated by the kernel) "
             "and whose algorithmic part (determine_load_order, the stable sort of MapList.__init__, get_item_type) is "
             "hand-written: termination by a decreasing table length, uniqueness of the sorted permutation for distinct keys; "
             "model tied to the source by a differential run on the real and on random dependency tables and on generated DEX "
             "files parsed under every or many permutations of their map list")
LEVEL_TEXT = ("Unbounded proof: for every dependency table the order computation ends; for the table of the source the "
              "result is a total order of all section types in which every section comes after the ones it depends on; for "
              "every list of map entries with pairwise distinct types and every permutation of it, the order in which the "
              "sections are parsed, every lookup by type and the state after parsing (for any parse step) are identical. "
              "What one parse step does with the bytes is not modelled here (C01-C06, C08 model the sections); that the "
              "complete parse result is the same is checked by the oracle on generated files.")
LEVEL_NOTE = ("Trusted: Coq kernel; the translator tools/tr/mapdeps_tr.py; coq/Dex/MapOrderModel.v as a rendering of "
              "determine_load_order, of sorted(..., key=load_order[type]) as a stable insertion sort and of get_item_type; "
              "the parse of one section as an arbitrary function of the state and the entry (Section variable); the harness "
              "tools/props/c07.py, tools/vlib/dexgen.py, tools/vlib/dex_observe.py, tools/writers/dexwriter.py.")
TRUSTED = ["translator tools/tr/mapdeps_tr.py (table and enum of dex_types.py)", "hand-written model coq/Dex/MapOrderModel.v",
           "correspondence harness tools/props/c07.py with tools/vlib/dexgen.py, dex_observe.py and tools/writers/dexwriter.py"]

COQ_HEADER = "Require Import V.Dex.MapOrderModel V.Dex.MapOrderRun."


def translate(ctx):
    return mapdeps_tr.translate(ctx)


# ---- the order computation -------------------------------------------------------------------------------------------------
def gen_tables(rng, tier, ctx):
    cases = [None, [(1, []), (2, [1])], [(1, [2]), (2, [1])], [(1, [9])], [], [(3, []), (1, [3, 2]), (2, [3])]]
    for _ in range(400 if tier == "thorough" else 80):
        n = rng.randint(1, 9)
        keys = rng.sample(range(1, 14), n)
        t = []
        for i, k in enumerate(keys):
            r = rng.random()
            pool = keys[:i] if r < 0.6 else keys if r < 0.9 else keys + [99]       # mostly acyclic; sometimes cycles / unknown types
            pool = [x for x in pool if x != k] if rng.random() < 0.9 else pool
            t.append((k, rng.sample(pool, rng.randint(0, min(3, len(pool))))))
        rng.shuffle(t)
        cases.append(t)
    return cases


def impl_tables(case):
    from androguard.core.dex.dex_types import TypeMapItem
    orig = TypeMapItem.__dict__["_get_dependencies"]
    try:
        if case is not None:
            TypeMapItem._get_dependencies = staticmethod(lambda: OrderedDict((k, set(ds)) for k, ds in case))
        try:
            d = TypeMapItem.determine_load_order()
        except Exception as e:
            if type(e) is Exception and "recursive" in str(e):
                return Err("OtherError")
            raise
    finally:
        TypeMapItem._get_dependencies = orig
    out = [int(k) for k, v in sorted(d.items(), key=lambda kv: kv[1])]
    assert sorted(d.values()) == list(range(len(d)))
    return out


def coq_table(case):
    if case is None:
        return "None"
    return "(Some %s)" % coq_list(["(%s, %s)" % (z(k), zlist(ds)) for k, ds in case])


def oracle_tables(case, res):
    if case is not None:
        return None
    from androguard.core.dex.dex_types import TypeMapItem
    if isinstance(res, Err):
        return "determine_load_order failed on the table of the source: %s" % res.name
    deps = TypeMapItem._get_dependencies()
    pos = {t: i for i, t in enumerate(res)}
    for t, ds in deps.items():
        for dd in ds:
            if pos[int(dd)] >= pos[int(t)]:
                return "section 0x%x is loaded before 0x%x which it depends on" % (int(t), int(dd))
    return None


# ---- permutations of the map list ------------------------------------------------------------------------------------------
def gen_perms(rng, tier, ctx):
    """case = (class model, list of permutations of range(number of map entries)); the number is filled in by a dry build"""
    cases = []
    n = 30 if tier == "thorough" else 8
    while len(cases) < n:
        model = dexgen.gen_model(rng)
        if not model["classes"] and rng.random() < 0.8:
            continue
        raw, b = dexgen.build(model)
        k = int.from_bytes(raw[int.from_bytes(raw[0x34:0x38], "little"):][:4], "little")
        if k <= 5 and tier == "thorough":
            perms = [list(p) for p in itertools.permutations(range(k))]
        else:
            perms = [list(range(k)), list(range(k - 1, -1, -1))]
            for a in range(min(k, 14)):                        # every entry first once: the sections move to the front
                perms.append([a] + [x for x in range(k) if x != a])
            for _ in range(25 if tier == "thorough" else 6):
                p = list(range(k))
                rng.shuffle(p)
                perms.append(p)
        cases.append((model, perms))
    return cases


def impl_perms(case):
    from androguard.core import dex as dexmod
    model, perms = case
    runs, ref, diff = [], None, None
    orig = dexmod.MapItem.parse
    for p in perms:
        raw, b = dexgen.build(model, map_order=lambda items, p=p: [items[i] for i in p])
        moff = int.from_bytes(raw[0x34:0x38], "little")
        k = int.from_bytes(raw[moff:moff + 4], "little")
        file_types = [int.from_bytes(raw[moff + 4 + 12 * i:moff + 6 + 12 * i], "little") for i in range(k)]
        seen = []

        def parse(self, seen=seen):
            seen.append(int(self.get_type()))
            return orig(self)
        dexmod.MapItem.parse = parse
        try:
            try:
                d = dexmod.DEX(raw)
                obs = dex_observe.observe(d)
            except Exception as e:
                obs = "EXC %s: %s" % (type(e).__name__, str(e)[:100])
        finally:
            dexmod.MapItem.parse = orig
        runs.append([file_types, seen])
        if ref is None:
            ref = obs
        elif obs != ref and diff is None:
            diff = [p, describe_diff(ref, obs)]
    return {"runs": runs, "diff": diff, "ref_failed": ref if isinstance(ref, str) else None}


def describe_diff(a, b):
    if isinstance(a, str) or isinstance(b, str):
        return "%s  vs  %s" % (str(a)[:150], str(b)[:150])
    if a["strings"] != b["strings"]:
        return "strings differ"
    for ca, cb in zip(a["classes"], b["classes"]):
        for key in ca:
            if ca[key] != cb[key]:
                return "class %s: %s differs: %s vs %s" % (ca["name"], key, str(ca[key])[:120], str(cb[key])[:120])
    return "number of classes differs"


def canon_perms(res):
    return [r[1] for r in res["runs"]]


def oracle_perms(case, res):
    if isinstance(res, Err):
        return "harness failed: %s %s" % (res.name, res.msg[:150])
    if res["ref_failed"]:
        return "the file with its map list in offset order does not parse: %s" % res["ref_failed"]
    if res["diff"]:
        return "map list permuted by %r: the parsed file differs from the original order: %s" % (res["diff"][0], res["diff"][1])
    return None


def stats_perms(cases, results):
    return {"files": len(cases), "permutations": sum(len(c[1]) for c in cases),
            "map_entries": sorted({len(c[1][0]) for c in cases}), "classes": sum(len(c[0]["classes"]) for c in cases)}


STREAMS = [
    {"name": "load-order", "gen": gen_tables, "impl": impl_tables, "coq_header": COQ_HEADER, "coq_type": "option table",
     "coq_input": coq_table, "coq_obs": "obs_order_opt", "model_vo": "Dex/MapOrderRun.vo", "pinned": False, "oracle": oracle_tables,
     "shard": 100},
    {"name": "permutations", "gen": gen_perms, "impl": impl_perms, "canon": canon_perms, "coq_header": COQ_HEADER,
     "coq_type": "list (list Z)", "coq_input": lambda c: None, "coq_input_r": lambda c, r: coq_list([zlist(x[0]) for x in r["runs"]]),
     "coq_obs": "obs_parse_orders", "model_vo": "Dex/MapOrderRun.vo", "pinned": False, "oracle": oracle_perms, "stats": stats_perms,
     "shard": 4, "case_timeout": 300},
]
