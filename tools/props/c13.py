"""C13 - method cross-references are exact and symmetric."""
from tools.vlib import xref_common as X

ID = "C13"
TITLE = "Method cross-references are exact and symmetric"
PROPS = "C13"
LEVEL = "proof"
DESIGN_REF = "DESIGN.md section 5, C13/C14/C15/C16"
TECHNIQUE = ("Coq theorems (membership characterisations of the relation lists by flat_map/in lemmas; permutation invariance for "
             "multi-DEX) about a hand-written relational model of Analysis.add/create_xref; model tied to the source by a "
             "differential run on generated multi-class, multi-DEX programs written by an independent DEX writer")
LEVEL_TEXT = ("Unbounded proof: for every program (any classes, methods and instruction lists, any split into DEX files) a row "
              "(caller, callee, offset, external?) is among the modelled callees iff the caller has, at that offset, an invoke "
              "instruction whose receiver type is a class or an array of classes, the callee being the method (element class, "
              "name, descriptor), marked external iff no analysed class defines it; caller lists are by construction the same "
              "relation. The model is compared with the real Analysis (xref_to, xref_from, call graph) on every run. Invokes on "
              "array types are attributed to the element class (or dropped for primitive arrays) by the code: a recorded "
              "known finding, excluded from the oracle's exactness clause.")
LEVEL_NOTE = ("Trusted: Coq kernel; coq/Analysis/XrefModel.v as a description of what create_xref leaves behind after all DEX "
              "files were added (names as integers, an array type as dimensions + base); the harness tools/vlib/xref_common.py, "
              "tools/writers/dexwriter.py.")
TRUSTED = ["hand-written model coq/Analysis/XrefModel.v", "tools/vlib/xref_common.py, tools/writers/dexwriter.py"]
STREAMS = [X.STREAM(X.oracle_c13, X.classify_c13)]
