"""C31 - manifest queries report what the manifest declares."""
import io
import zipfile

from tools.vlib.coqfmt import Err, z, zlist, coq_list

ID = "C31"
TITLE = "Manifest queries report what the manifest declares"
PROPS = "C31"
LEVEL = "proof"
DESIGN_REF = "DESIGN.md section 5, C31"
TECHNIQUE = ("Coq theorems (case analysis on the position of the first dot for the completion of component names; membership "
             "characterisations by flat_map/filter lemmas for main activities and permissions) about a hand-written model of "
             "the manifest queries of APK over the element tree that AXMLPrinter delivers; model tied to the source by a "
             "differential run on random manifests serialised to binary XML by an independent writer and packed into APKs")
LEVEL_TEXT = ("Unbounded proof over all element trees: component names are completed by Android's rule (leading dot: package "
              "in front; no dot: package and a dot; otherwise unchanged; never without a package; idempotent); a name is among "
              "the main activities iff an enabled activity or alias of that name has an intent filter holding both the MAIN "
              "action and the LAUNCHER category; the permission list holds every declared name exactly once; the effective "
              "target SDK is target, else min, else 1. The other getters (package, version, SDK values, services, receivers, "
              "providers, features, libraries) are definitional lookups in the model; all sixteen observations are compared "
              "with the real APK object, and with the manifest description, on every run. Composition with C26: for the "
              "binary XML of a manifest (any element tree with attributes and namespaces, names that are XML names as they "
              "stand, no resource map) the queries are answered on exactly the tree the bytes encode.")
LEVEL_NOTE = ("Trusted: Coq kernel; coq/Apk/ManifestModel.v as a rendering of _apk_analysis and the getters (lxml findall as "
              "document-order descendants; results that the code collects through sets are compared as sorted lists; int() as "
              "sign and ASCII digits); the tree handed to the model is the one the real AXMLPrinter produced for the case "
              "(that step is C26); the harness tools/props/c31.py with tools/writers/axmlwriter.py.")
TRUSTED = ["hand-written model coq/Apk/ManifestModel.v (on the element tree type of coq/Axml/AxmlModel.v)",
           "correspondence harness tools/props/c31.py and the independent AXML writer tools/writers/axmlwriter.py"]

COQ_HEADER = "Require Import V.Axml.PoolModel V.Axml.AxmlModel V.Apk.ManifestModel."
AND = "http://schemas.android.com/apk/res/android"
NS = "{%s}" % AND
MAIN, LAUNCHER = "android.intent.action.MAIN", "android.intent.category.LAUNCHER"
PERMS = ["android.permission.INTERNET", "android.permission.CAMERA", "com.ex.PERM", "FOO", "android.permission.READ_SMS"]
COMPS = [".Main", "Main", "com.ex.app.Other", "other.pkg.X", ".a.B", "Single"]


def gen(rng, tier, ctx):
    """case = manifest description"""
    cases = []
    # MAIN and LAUNCHER in two different intent filters of one activity; a real launcher next to it
    cases.append({"package": "com.ex", "vcode": 7, "vname": "1.0", "perms": [("android.permission.INTERNET", None, True)], "sdk": (21, 30, None),
                  "comps": [("activity", ".A", True, [[MAIN], [LAUNCHER]], True), ("activity", ".B", True, [[MAIN, LAUNCHER]], True)],
                  "features": [], "libs": [], "ns_on_tags": False})
    for names in ((".Alias", ".Main"), ("Alias", "Main"), (".Zeta", ".Alpha"), ("com.ex.app.A", ".B")):
        cases.append({"package": "com.ex.app", "vcode": 1, "vname": None, "perms": [("android.permission.CAMERA", 18, True), ("android.permission.CAMERA", None, True)],
                      "sdk": (None, None, None),
                      "comps": [("activity-alias", names[0], True, [[MAIN, LAUNCHER]], True), ("activity", names[1], True, [[MAIN, LAUNCHER]], True)],
                      "features": [], "libs": [], "ns_on_tags": False})
    cases.append({"package": "org.demo.app", "vcode": 1, "vname": None, "perms": [], "sdk": (None, None, None),
                  "comps": [("activity", ".Main", True, [["android.intent.action.VIEW", MAIN, "android.intent.category.DEFAULT", LAUNCHER]], True)],
                  "features": ["android.hardware.camera", None, "android.hardware.type.watch"], "libs": [None, "org.apache.http.legacy"], "ns_on_tags": False})
    cases.append({"package": "org.demo.app", "vcode": 1, "vname": None, "perms": [], "sdk": (None, None, None),
                  "comps": [("activity", ".Zeta", True, [[MAIN, LAUNCHER]], True), ("activity", ".Alpha", True, [["android.intent.category.LEANBACK_LAUNCHER", LAUNCHER, MAIN]], True),
                            ("service", None, True, [], True)],
                  "features": [None], "libs": [], "ns_on_tags": False})
    for _ in range(200 if tier == "thorough" else 45):
        perms = []
        for _ in range(rng.choice((0, 1, 2, 4))):
            perms.append((rng.choice(PERMS), rng.choice((None, None, 18, 22, "x")), rng.random() < 0.9))
        comps = []
        for _ in range(rng.choice((0, 1, 2, 3, 5))):
            kind = rng.choice(("activity", "activity", "activity", "service", "receiver", "provider", "activity-alias"))
            filters = []
            for _ in range(rng.choice((0, 0, 1, 2))):
                f = []
                if rng.random() < 0.6:
                    f.append(MAIN)
                if rng.random() < 0.5:
                    f.append(LAUNCHER)
                if rng.random() < 0.3:
                    f.append("android.intent.action.VIEW")
                if rng.random() < 0.3:
                    f.append(rng.choice(("android.intent.category.DEFAULT", "android.intent.category.LEANBACK_LAUNCHER")))
                rng.shuffle(f)                     # MAIN and LAUNCHER are not always the first action / category of their filter
                filters.append(f)
            comps.append((kind, rng.choice(COMPS), rng.random() < 0.9, filters, rng.random() < 0.85))
        sdk = (rng.choice((None, 14, 21)), rng.choice((None, None, 26, 33)), rng.choice((None, None, 34)))
        cases.append({"package": rng.choice(("com.ex.app", "app", "a.b")), "vcode": rng.choice((1, 7, 2**31 - 1)), "vname": rng.choice(("1.0", "2.3-beta", None)),
                      "perms": perms, "sdk": sdk, "comps": comps, "features": rng.sample(["android.hardware.camera", "android.hardware.type.watch", "glEs", None], rng.randint(0, 3)),
                      "libs": rng.sample(["org.apache.http.legacy", "com.google.android.maps", None], rng.randint(0, 2)), "ns_on_tags": rng.random() < 0.1,
                      "app_label": rng.choice(("App", None, None))})      # without a label get_app_name() goes through the launcher activities
    return cases


def render(m):
    """the manifest as a node list for tools/writers/axmlwriter.py; attributes in the android namespace"""
    def a(name, value, ty=3):
        return (AND, name, None, ty, value)
    root_attrs = [(None, "package", None, 3, m["package"]), a("versionCode", m["vcode"], 0x10)]
    if m["vname"] is not None:
        root_attrs.append(a("versionName", m["vname"]))
    kids = []
    mn, tg, mx = m["sdk"]
    if any(v is not None for v in m["sdk"]):
        kids.append(("el", None, "uses-sdk", [a(n, v, 0x10) for n, v in (("minSdkVersion", mn), ("targetSdkVersion", tg), ("maxSdkVersion", mx)) if v is not None], []))
    for name, maxsdk, prefixed in m["perms"]:
        at = [a("name", name) if prefixed else (None, "name", None, 3, name)]
        if maxsdk is not None:
            at.append(a("maxSdkVersion", maxsdk, 0x10) if isinstance(maxsdk, int) else a("maxSdkVersion", maxsdk))
        kids.append(("el", AND if m["ns_on_tags"] else None, "uses-permission", at, []))
    for f in m["features"]:
        kids.append(("el", None, "uses-feature", [a("name", f)] if f is not None else [a("glEsVersion", 0x00020000, 0x11)], []))
    app = []
    for lib in m["libs"]:
        app.append(("el", None, "uses-library", [a("name", lib)] if lib is not None else [a("required", 0, 0x12)], []))
    for kind, name, prefixed, filters, enabled in m["comps"]:
        at = [a("name", name) if prefixed else (None, "name", None, 3, name)] if name is not None else []
        if not enabled:
            at.append(a("enabled", 0, 0x12))
        fl = []
        for f in filters:
            items = []
            for x in f:
                items.append(("el", None, "category" if "category" in x else "action", [a("name", x)], []))
            fl.append(("el", None, "intent-filter", [], items))
        app.append(("el", None, kind, at, fl))
    kids.append(("el", None, "application", [a("label", m.get("app_label", "App"))] if m.get("app_label", "App") is not None else [], app))
    return [("ns", "android", AND, [("el", None, "manifest", root_attrs, kids)])]


def render_axml(m):
    from tools.writers import axmlwriter as W
    raw, _ = W.build(render(m), utf8=False, resmap={"versionCode": 0x0101021B, "versionName": 0x0101021C, "name": 0x01010003, "label": 0x01010001,
                                                  "minSdkVersion": 0x0101020C, "targetSdkVersion": 0x01010270, "maxSdkVersion": 0x01010271,
                                                  "enabled": 0x0101000E})
    return raw


def build(m):
    raw = render_axml(m)
    bio = io.BytesIO()
    with zipfile.ZipFile(bio, "w") as zf:
        zf.writestr("AndroidManifest.xml", raw)
        zf.writestr("classes.dex", b"")
    return bio.getvalue()


def walk(e):
    return [e.tag, [[k, v] for k, v in e.attrib.items()], e.text or "", [walk(k) for k in e], e.tail or ""]


def impl(case):
    from androguard.core.apk import APK
    a = APK(build(case), raw=True)
    root = a.get_android_manifest_xml()
    s = lambda l: sorted(l, key=lambda x: (x is None, x or ""))
    uses = s((n or "") + "\x00" + ("\x00" if mx is None else "\x01" + chr(mx)) for n, mx in a.uses_permissions)
    def observations():
        return [a.get_package(), a.get_androidversion_code(), a.get_androidversion_name(), s(set(a.get_permissions())), uses,
                    s(a.get_activities()), s(a.get_services()), s(a.get_receivers()), s(a.get_providers()), s(a.get_main_activities()), a.get_main_activity(),
                    a.get_min_sdk_version(), a.get_target_sdk_version(), a.get_max_sdk_version(), a.get_effective_target_sdk_version(),
                    s(a.get_features()), s(a.get_libraries())]
    first = observations()
    again = observations() == first
    # the other read-only queries of the class in between (the application name and icon, permission details, ...): asking
    # them must not change what the manifest queries answer
    for q in ("get_app_name", "get_app_icon", "get_declared_permissions", "get_declared_permissions_details", "get_details_permissions",
              "get_requested_aosp_permissions", "get_requested_third_party_permissions", "get_intent_filters_all" , "is_androidtv", "is_wearable",
              "is_leanback", "get_signature_names", "is_multidex", "get_files", "get_element_list"):
        try:
            f = getattr(a, q, None)
            if f is not None:
                f() if q not in ("get_element_list",) else None
        except Exception:
            pass
    again = again and observations() == first
    return {"tree": walk(root),
            "out": first, "again_same": again,
            "main": a.get_main_activity(), "perm_dups": len(a.get_permissions()) - len(set(a.get_permissions()))}


def canon(res):
    def enc(x):
        if x is None:
            return None
        if isinstance(x, str):
            return [ord(c) for c in x]
        if isinstance(x, list):
            return [enc(y) for y in x]
        return x
    return enc(res["out"])


def coq_xml(t):
    tag, attrs, text, kids, tail = t
    s = lambda x: zlist([ord(c) for c in x])
    return "(El %s [] %s %s %s %s)" % (s(tag), coq_list(["(%s, %s)" % (s(k), s(v)) for k, v in attrs]), s(text), coq_list([coq_xml(k) for k in kids]), s(tail))


def fmtname(pkg, v):
    if not v or not pkg:
        return v
    if v.startswith("."):
        return pkg + v
    if "." not in v:
        return pkg + "." + v
    return v


def oracle(case, res):
    if isinstance(res, Err):
        return "APK analysis failed: %s %s" % (res.name, res.msg[:150])
    m, out = case, res["out"]
    if not res.get("again_same", True):
        return "asked a second time, the same APK object gives other answers to the manifest queries"
    pkg = m["package"]
    mn, tg, mx = m["sdk"]
    want = [pkg, str(m["vcode"]), m["vname"], sorted({p for p, _, _ in m["perms"]}),
            sorted(p + "\x00" + ("\x00" if not isinstance(ms, int) else "\x01" + chr(ms)) for p, ms, _ in m["perms"])]
    for kind in ("activity", "service", "receiver", "provider"):
        want.append(sorted(fmtname(pkg, n) for k, n, _, _, _ in m["comps"] if k == kind and n is not None))     # an element without a name is not listed
    want.append(sorted({n for k, n, _, fl, en in m["comps"] if k in ("activity", "activity-alias") and en and n is not None and any(MAIN in f and LAUNCHER in f for f in fl)}))
    cands = sorted({fmtname(pkg, n) for n in want[9]})
    acts = set(want[5])
    want.append(None if not cands else ([c for c in cands if c in acts] or cands)[0])
    want += [None if mn is None else str(mn), None if tg is None else str(tg), None if mx is None else str(mx),
             tg if tg is not None else mn if mn is not None else 1, sorted(f for f in m["features"] if f is not None), sorted(l for l in m["libs"] if l is not None)]
    names = ["package", "version code", "version name", "permissions", "permissions with maxSdkVersion", "activities", "services", "receivers",
             "providers", "main activities", "main activity", "minSdkVersion", "targetSdkVersion", "maxSdkVersion", "effective target SDK", "features", "libraries"]
    for nm, g, w in zip(names, out, want):
        if g != w:
            return "%s: reported %r, the manifest declares %r" % (nm, g, w)
    if res["perm_dups"]:
        return "get_permissions lists %d duplicates" % res["perm_dups"]
    return None


def stats(cases, results):
    return {"manifests": len(cases), "components": sum(len(c["comps"]) for c in cases), "permissions": sum(len(c["perms"]) for c in cases),
            "split_main_launcher": sum(1 for c in cases for k, n, _, fl, en in c["comps"]
                                       if any(MAIN in f for f in fl) and any(LAUNCHER in f for f in fl) and not any(MAIN in f and LAUNCHER in f for f in fl)),
            "disabled_components": sum(1 for c in cases for x in c["comps"] if not x[4])}


STREAMS = [{"name": "manifests", "gen": gen, "impl": impl, "canon": canon, "coq_header": COQ_HEADER, "coq_type": "xml",
            "coq_input": lambda c: None, "coq_input_r": lambda c, r: coq_xml(r["tree"]), "coq_obs": "obs_manifest", "model_vo": "Apk/ManifestModel.vo",
            "pinned": False, "oracle": oracle, "stats": stats, "shard": 10, "case_timeout": 60}]
