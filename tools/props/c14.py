"""C14 - field cross-references are recorded on the field that is accessed."""
from tools.vlib import xref_common as X

ID = "C14"
TITLE = "Field cross-references are recorded on the field that is accessed"
PROPS = "C14"
LEVEL = "proof"
DESIGN_REF = "DESIGN.md section 5, C13/C14/C15/C16"
TECHNIQUE = ("Coq theorems about a hand-written relational model of Analysis._create_xref step 4: the full statement is refuted "
             "in the model by a kernel-evaluated witness (an access from another class), the part that holds (accesses from "
             "inside the owning class; nothing but field instructions is listed) is proved for all programs; model tied to the "
             "source by a differential run on generated multi-class, multi-DEX programs")
LEVEL_TEXT = ("Unbounded proof of the part of the statement the code satisfies: for every program, every read/write instruction "
              "in a method of the class that defines the field is listed, with method and offset and as the right kind, on the "
              "FieldAnalysis held by that class, and every listed access stems from such an instruction of the holder class. "
              "The full statement (any accessing class, one FieldAnalysis per field) is false of the model and of the code: "
              "C14_full_statement_refuted exhibits the witness, the same program is in the correspondence stream, and the "
              "behaviour is the recorded known finding KF-C14-cross-class.")
LEVEL_NOTE = X_NOTE = ("Trusted: Coq kernel; coq/Analysis/XrefModel.v as a description of what create_xref leaves behind; "
                       "tools/vlib/xref_common.py, tools/writers/dexwriter.py.")
TRUSTED = ["hand-written model coq/Analysis/XrefModel.v", "tools/vlib/xref_common.py, tools/writers/dexwriter.py"]
STREAMS = [X.STREAM(X.oracle_c14, X.classify_c14), X.STREAM14_SHADOW()]
