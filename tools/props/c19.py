"""C19 - reverse post-order numbering is a valid topological order of forward edges."""
from tools.vlib.coqfmt import Err

ID = "C19"
TITLE = "Reverse post-order numbering is a valid topological order of forward edges"
PROPS = "C19"
LEVEL = "proof"
DESIGN_REF = "DESIGN.md section 5, C19"
TECHNIQUE = ("Coq theorems by induction on the recursion fuel with a fold invariant over the successor list (visited set "
             "grows by exactly the newly finished nodes, gray nodes reach the current node, finished nodes are closed "
             "under successors), a fuel-sufficiency proof by counting unvisited nodes, and list lemmas for the numbering; "
             "about a hand-written model of Graph.post_order/compute_rpo tied to the source by a differential run on "
             "generated graphs")
LEVEL_TEXT = ("Unbounded proof over all finite graphs: for every node list without duplicates whose nodes are all reachable "
              "from the entry, the modelled depth-first numbering terminates within |nodes|+1 nested calls, gives the "
              "entry the number 1, assigns the nodes a permutation of 1..n, and numbers the source of every edge lower "
              "than its target unless the target reaches the source (the edge closes a cycle). The model is compared "
              "with the real Graph.compute_rpo (Node.num and Graph.rpo) on generated graphs on every run, with and without "
              "the handler marks (in_catch) that construct() leaves on the nodes, after histories of graph edits, and on "
              "large graphs (wide ones, and paths of up to 4500 blocks, which the package's own recursion limit admits).")
LEVEL_NOTE = ("Trusted: Coq kernel; coq/Dad/RpoModel.v as a rendering of post_order/compute_rpo (generator recursion as "
              "fuel, set membership as list membership, sorted() as 'unreached nodes first, then reverse finishing "
              "order'); the harness tools/props/c19.py. 'Back edge' is formalised as 'the target reaches the source'; "
              "Python's recursion limit is not modelled: a RecursionError counts as a failure on graphs of up to 4800 blocks (the package sets the limit to 5000 on import) and is ignored beyond.")
TRUSTED = ["hand-written model coq/Dad/RpoModel.v of Graph.post_order and Graph.compute_rpo",
           "correspondence harness tools/props/c19.py (graph generators, Python statement of the numbering property)"]

COQ_HEADER = "Require Import V.Dad.RpoModel."


def build(case, marks=False):
    from androguard.decompiler.graph import Graph
    from androguard.decompiler.node import Node

    class N(Node):
        catch_type = None

        def set_catch_type(self, t):
            self.catch_type = t

    n, entry, edges, catch = case[:4]
    g = Graph()
    nodes = [N("n%d" % i) for i in range(n)]
    for i in (case[4] if len(case) > 4 and case[4] else range(n)):      # the order in which the nodes are added to the graph
        g.add_node(nodes[i])
    for i, l in enumerate(edges):
        for j in l:
            g.add_edge(nodes[i], nodes[j])
    for i, l in enumerate(catch):
        for j in l:
            g.add_catch_edge(nodes[i], nodes[j])
    g.entry = nodes[entry]
    if marks and len(case) > 5 and case[5]:    # blocks of exception handlers, as construct() marks them before the later renumberings
        for i in case[5]:
            nodes[i].in_catch = True
    return g, nodes


def impl(case):
    g, nodes = build(case, marks=True)
    g.compute_rpo()
    idx = {x: i for i, x in enumerate(nodes)}
    return [[x.num for x in nodes], [idx[x] for x in g.rpo]]


def _dedup(l):
    out = []
    for x in l:
        if x not in out:
            out.append(x)
    return out


def _rand_graph(rng, n, style):
    edges = [[] for _ in range(n)]
    catch = [[] for _ in range(n)]
    if style == "tree+":           # spanning tree from 0 (all reachable) plus extra edges of every kind
        for v in range(1, n):
            edges[rng.randrange(v)].append(v)
        for _ in range(rng.randint(0, 2 * n)):
            a, b = rng.randrange(n), rng.randrange(n)
            (catch if rng.random() < 0.25 else edges)[a].append(b)
    elif style == "dag":
        for v in range(1, n):
            edges[rng.randrange(v)].append(v)
        for _ in range(rng.randint(0, 2 * n)):
            a, b = sorted((rng.randrange(n), rng.randrange(n)))
            if a != b:
                (catch if rng.random() < 0.25 else edges)[a].append(b)
    elif style == "cfg":           # structured: chain with forward branches and back edges (loops), catch edges
        for v in range(n - 1):
            edges[v].append(v + 1)
            if rng.random() < 0.4:
                edges[v].append(rng.randrange(v + 1, n))
            if rng.random() < 0.25:
                edges[v].append(rng.randrange(0, v + 1))
            if rng.random() < 0.15:
                catch[v].append(rng.randrange(n))
    else:                          # arbitrary, possibly with unreachable nodes
        for _ in range(rng.randint(0, 3 * n)):
            a, b = rng.randrange(n), rng.randrange(n)
            (catch if rng.random() < 0.2 else edges)[a].append(b)
    for l in edges + catch:
        rng.shuffle(l)
    return [_dedup(l) for l in edges], [_dedup(l) for l in catch]


def gen(rng, tier, ctx):
    cases = [(1, 0, [[]], [[]]), (1, 0, [[0]], [[]]), (2, 0, [[1], [0]], [[], []]), (2, 1, [[], [0]], [[], []]),
             (3, 0, [[1, 2], [2], []], [[], [], []]), (3, 0, [[2, 1], [2], [0]], [[], [], []]),
             (4, 0, [[1], [2], [1, 3], []], [[], [3], [], []]), (3, 0, [[1], [], []], [[], [], []])]
    total = 4000 if tier == "thorough" else 700
    for i in range(total):
        n = rng.choice((2, 3, 4, 5, 6, 8, 12, 20, 35)) if i % 10 else rng.randint(40, 60)
        style = rng.choice(("tree+", "tree+", "dag", "cfg", "cfg", "any"))
        edges, catch = _rand_graph(rng, n, style)
        entry = 0 if style != "any" or rng.random() < 0.5 else rng.randrange(n)
        if style in ("tree+", "dag") and rng.random() < 0.5:      # relabel so that the entry is not always node 0
            perm = list(range(n))
            rng.shuffle(perm)
            e2 = [[] for _ in range(n)]
            c2 = [[] for _ in range(n)]
            for a in range(n):
                e2[perm[a]] = [perm[b] for b in edges[a]]
                c2[perm[a]] = [perm[b] for b in catch[a]]
            edges, catch, entry = e2, c2, perm[0]
        if any(catch) and rng.random() < 0.6:
            # handler blocks: the targets of catch edges, then (to a fixed point) every other block all of whose predecessors
            # are handler blocks - the marks construct() leaves on the nodes, under which compute_rpo is called again later
            allp = [[a for a in range(n) if b in edges[a] or b in catch[a]] for b in range(n)]
            marked = {b for l in catch for b in l if b != entry}
            grew = True
            while grew:
                grew = False
                for b in range(n):
                    if b != entry and b not in marked and allp[b] and all(a in marked for a in allp[b]):
                        marked.add(b)
                        grew = True
            cases.append((n, entry, edges, catch, None, sorted(marked)))
        else:
            cases.append((n, entry, edges, catch))
    return cases


def _reach(sucs, src):
    seen, todo = {src}, [src]
    while todo:
        x = todo.pop()
        for y in sucs[x]:
            if y not in seen:
                seen.add(y)
                todo.append(y)
    return seen


def oracle(case, res):
    n, entry, edges, catch = case[:4]
    sucs = [edges[i] + catch[i] for i in range(n)]
    if len(_reach(sucs, entry)) != n:
        return None                      # not a rooted graph: outside the property
    if isinstance(res, Err):
        return "compute_rpo raised %s" % res.name
    nums, rpo = res
    if nums[entry] != 1:
        return "the entry node %d is numbered %d" % (entry, nums[entry])
    if sorted(nums) != list(range(1, n + 1)):
        return "the numbers %r are not a permutation of 1..%d" % (nums, n)
    if [nums[x] for x in rpo] != list(range(1, n + 1)):
        return "Graph.rpo %r is not the nodes in increasing number" % (rpo,)
    for x in range(n):
        for y in sucs[x]:
            if nums[x] >= nums[y] and x not in _reach(sucs, y):
                return "edge %d->%d is not part of a cycle but num %d >= num %d" % (x, y, nums[x], nums[y])
    return None


def stats(cases, results):
    d = {"graphs": len(cases), "rooted": 0, "with_unreachable_nodes": 0, "acyclic_rooted": 0, "with_catch_edges": 0,
         "nodes_total": 0, "edges_total": 0, "max_nodes": 0}
    for c, r in zip(cases, results):
        n, entry, edges, catch = c[:4]
        d["with_handler_blocks"] = d.get("with_handler_blocks", 0) + (len(c) > 5 and bool(c[5]))
        d["handler_blocks_with_catch_edges"] = d.get("handler_blocks_with_catch_edges", 0) + (len(c) > 5 and any(catch[i] for i in (c[5] or [])))
        sucs = [edges[i] + catch[i] for i in range(n)]
        rooted = len(_reach(sucs, entry)) == n
        d["rooted" if rooted else "with_unreachable_nodes"] += 1
        d["nodes_total"] += n
        d["edges_total"] += sum(map(len, sucs))
        d["max_nodes"] = max(d["max_nodes"], n)
        if any(catch):
            d["with_catch_edges"] += 1
        if rooted and all(x not in _reach(sucs, y) for x in range(n) for y in sucs[x]):
            d["acyclic_rooted"] += 1
    return d


def _nl(l):
    return "[" + "; ".join("%d%%nat" % x for x in l) + "]"


def coq_input(c):
    n, entry, edges, catch = c[:4]
    return "(%d%%nat, %d%%nat, [%s], [%s])" % (n, entry, "; ".join(_nl(l) for l in edges), "; ".join(_nl(l) for l in catch))


# ---- stream 2: histories of graph edits with intermediate compute_rpo calls ---------------------------------------------
def final_graph(case):
    """The graph the edit history leaves behind, by the documented meaning of the Graph API (independent of androguard):
    surviving nodes in insertion order, relabelled 0..m-1, edge lists in insertion order without duplicates."""
    n, entry, edges, catch, ops = case
    nodes = list(range(n))
    e = {i: list(edges[i]) for i in range(n)}
    c = {i: list(catch[i]) for i in range(n)}
    for op in ops:
        if op[0] == "rm":
            x = op[1]
            nodes.remove(x)
            for d in (e, c):
                d.pop(x, None)
                for k in d:
                    if x in d[k]:
                        d[k].remove(x)
        elif op[0] == "node":
            x = op[1]
            nodes.append(x)
            e[x], c[x] = [], []
        elif op[0] == "edge":
            if op[2] not in e[op[1]]:
                e[op[1]].append(op[2])
        elif op[0] == "cedge":
            if op[2] not in c[op[1]]:
                c[op[1]].append(op[2])
    idx = {x: i for i, x in enumerate(nodes)}
    return (len(nodes), idx[entry], [[idx[y] for y in e[x]] for x in nodes], [[idx[y] for y in c[x]] for x in nodes]), nodes


def impl_history(case):
    n, entry, edges, catch, ops = case
    g, nodes = build((n, entry, edges, catch))
    from androguard.decompiler.node import Node

    class N(Node):
        catch_type = None

        def set_catch_type(self, t):
            self.catch_type = t
    nodes = dict(enumerate(nodes))
    for op in ops:
        if op[0] == "rpo":
            g.compute_rpo()
        elif op[0] == "walk":
            it = g.post_order()
            for _ in range(op[1]):
                next(it, None)
            (it.close if op[1] % 2 else (lambda: None))()
            del it
        elif op[0] == "rm":
            g.remove_node(nodes[op[1]])
        elif op[0] == "node":
            nodes[op[1]] = N("n%d" % op[1])
            g.add_node(nodes[op[1]])
        elif op[0] == "edge":
            g.add_edge(nodes[op[1]], nodes[op[2]])
        elif op[0] == "cedge":
            g.add_catch_edge(nodes[op[1]], nodes[op[2]])
    g.compute_rpo()
    idx = {x: i for i, x in enumerate(g.nodes)}
    return [[x.num for x in g.nodes], [idx[x] for x in g.rpo]]


def gen_history(rng, tier, ctx):
    cases = []
    # r->a->b->d, r->c->d, a->c ; number, remove b, number again
    cases.append((5, 0, [[1, 3], [2, 3], [4], [4], []], [[], [], [], [], []], [("rpo",), ("rm", 2), ("rpo",)]))
    cases.append((5, 0, [[1, 3], [2, 3], [4], [4], []], [[], [], [], [], []], [("walk", 1)]))
    cases.append((1, 0, [[]], [[]], []))
    cases.append((3, 0, [[1], [2], []], [[], [], []], [("rpo",), ("rm", 1), ("rm", 2)]))
    total = 1500 if tier == "thorough" else 250
    while len(cases) < total:
        n = rng.choice((3, 4, 5, 6, 8, 12, 20))
        edges, catch = _rand_graph(rng, n, rng.choice(("tree+", "dag", "cfg")))
        cur = (n, 0, edges, catch, [])
        ops = []
        nxt = n
        for _ in range(rng.randint(1, 8)):
            (fg, alive) = final_graph((n, 0, edges, catch, ops))
            r = rng.random()
            if r < 0.28:
                op = ("rpo",)
            elif r < 0.35:
                op = ("walk", rng.randint(1, 3))         # a post-order walk that is started and given up after a few nodes
            elif r < 0.65 and len(alive) > 2:
                x = rng.choice([a for a in alive if a != 0])
                op = ("rm", x)
            elif r < 0.8:
                op = (rng.choice(("edge", "edge", "cedge")), rng.choice(alive), rng.choice(alive))
            else:
                ops.append(("node", nxt))
                op = ("edge", rng.choice(alive), nxt)
                nxt += 1
            trial = ops + [op]
            (m, ent, e2, c2), _ = final_graph((n, 0, edges, catch, trial))
            sucs = [e2[i] + c2[i] for i in range(m)]
            if len(_reach(sucs, ent)) == m:          # keep the graph rooted, so that every node is renumbered
                ops = trial
            elif op[0] == "edge" and ops and ops[-1][0] == "node":
                ops.pop()
        cases.append((n, 0, edges, catch, ops))
    return cases


def oracle_history(case, res):
    return oracle(final_graph(case)[0], res)


def stats_history(cases, results):
    d = {"histories": len(cases), "ops": 0, "rpo_between": 0, "removals": 0, "removal_after_rpo": 0}
    for c in cases:
        ops = c[4]
        d["ops"] += len(ops)
        d["rpo_between"] += sum(1 for o in ops if o[0] == "rpo")
        d["abandoned_walks"] = d.get("abandoned_walks", 0) + sum(1 for o in ops if o[0] == "walk")
        d["removals"] += sum(1 for o in ops if o[0] == "rm")
        seen = False
        for o in ops:
            if o[0] == "rpo":
                seen = True
            if o[0] == "rm" and seen:
                d["removal_after_rpo"] += 1
                break
    return d


# ---- stream 3: large graphs (beyond the sizes the model is evaluated on; decided by the numbering rule itself) ----------
def gen_large(rng, tier, ctx):
    cases = []
    for n in ((1249, 1250, 1251, 1300, 2500) if tier != "thorough" else (900, 1249, 1250, 1251, 1300, 2000, 2500, 4000, 5001)):
        edges = [[] for _ in range(n)]
        catch = [[] for _ in range(n)]
        for v in range(1, n):
            edges[rng.randrange(v)].append(v)
        for _ in range(n // 3):                     # forward and cross edges (acyclic: every edge must increase)
            a, b = sorted((rng.randrange(n), rng.randrange(n)))
            if a != b and b not in edges[a]:
                (catch if rng.random() < 0.2 and b not in catch[a] else edges)[a].append(b)
        for l in edges + catch:
            rng.shuffle(l)
        cases.append((n, 0, [_dedup(l) for l in edges], [_dedup(l) for l in catch]))
    # deep graphs: one long path (every block the only successor of the one before) with a few forward edges; the package
    # raises the interpreter's recursion limit to 5000 when it is imported so that such graphs can be walked
    for n in ((1500, 3000) if tier != "thorough" else (1100, 1500, 3000, 4500)):
        edges = [[v + 1] for v in range(n - 1)] + [[]]
        for _ in range(20):
            a, b = sorted((rng.randrange(n), rng.randrange(n)))
            if a != b and b not in edges[a]:
                edges[a].append(b)
        cases.append((n, 0, edges, [[] for _ in range(n)]))
    # if-without-else padded with a long chain of siblings:  0->1->2, 0->2, 0->3.. (all children of 0)
    n = 1400
    edges = [[] for _ in range(n)]
    edges[0] = [1, 2] + list(range(3, n))
    edges[1] = [2]
    cases.append((n, 0, edges, [[] for _ in range(n)]))
    return cases


def oracle_large(case, res):
    if isinstance(res, Err) and res.name == "RecursionError" and case[0] > 4800:
        return None                  # beyond the recursion limit the package sets for itself (5000): outside the model and the property
    return oracle(case, res)


STREAMS = [{
    "name": "graphs", "gen": gen, "impl": impl, "coq_header": COQ_HEADER,
    "coq_type": "nat * nat * list (list nat) * list (list nat)", "coq_input": coq_input,
    "coq_obs": "obs_rpo", "model_vo": "Dad/RpoModel.vo",
    "pinned": False, "oracle": oracle, "stats": stats, "shard": 120,
}, {
    "name": "histories", "gen": gen_history, "impl": impl_history, "coq_header": COQ_HEADER,
    "coq_type": "nat * nat * list (list nat) * list (list nat)", "coq_input": lambda c: coq_input(final_graph(c)[0]),
    "coq_obs": "obs_rpo", "model_vo": "Dad/RpoModel.vo",
    "pinned": False, "oracle": oracle_history, "stats": stats_history, "shard": 120,
}, {
    "name": "large", "gen": gen_large, "impl": impl, "oracle": oracle_large, "stats": stats, "case_timeout": 300,
}]
