"""C35 - parsers terminate on every input."""
import io
import os
import struct
import time
import zipfile

from tools.vlib.coqfmt import Err, z, zlist

ID = "C35"
TITLE = "Parsers terminate on every input"
PROPS = "C35"
LEVEL = "proof"
DESIGN_REF = "DESIGN.md section 5, C35"
TECHNIQUE = ("Coq theorems by induction on the fuel with 'every read consumes at least one byte' lemmas (the LEB128 readers of "
             "C03, the fixed-width reads) about hand-written models of the loops the property is anchored in - the string "
             "reader (C06), the ARSCHeader dummy-data skip loop, the DebugInfoItem parameter and opcode loops, the "
             "HiddenApiClassDataItem offset and flag loops, the whole binary XML parser and resource table walk, and the DEX map "
             "list with thirteen kinds of sections through one generic lemma (a loop over a reader that fails or leaves fewer "
             "bytes runs at most bytes + 1 times, whatever the count): a fuel linear in the number of bytes is never "
             "exhausted; models tied to the source by a differential run on generated, truncated and adversarial byte "
             "strings (for the map list: the start position of every object the real MapList creates); the complete parsers "
             "are run under a time limit on mutated shipped, generated and crafted files")
LEVEL_TEXT = ("Partial. Unbounded proof: for every byte string (and start position) each of the four modelled loops ends within "
              "(bytes left + 1) iterations - it returns a result or raises; counts and sizes read from the input (a parameter "
              "count of 2^32-1, a section size of 2^32-1) do not matter, because every iteration reads at least one byte and a "
              "read at the end of the data raises; an accepted chunk header makes the AXML chunk loop advance by at least "
              "eight bytes; and the complete binary XML parser as modelled for C26 (chunk loop, event loop, resource map, "
              "namespaces, attribute records, every string pool lookup) ends on EVERY byte string within fuel linear in its "
              "length; and so does the walk over a resource table as modelled for C28 (table, packages, string pools, type "
              "chunks, entries); nested encoded values (arrays and annotations of any announced size and depth: the model of C04) "
              "are read within (bytes + 1) levels, and the field and method lists of a class_data_item (the model of C05) end "
              "within (bytes left + 1) passes whatever counts the item announces; the map list of a DEX file as modelled "
              "(MapList.__init__ and MapItem.parse: the count and the items of the map, then per item its section from its own "
              "offset - string, type, proto and field id tables, string data items, code items with their try items and handler "
              "lists, encoded arrays and annotation items (the value reader of C04, nested to any depth), class data items (the reader of C05), type lists, annotation set ref lists, annotation set items, annotations directories, in the load order "
              "of C07) ends on EVERY byte string and offset, a map that is read has at most one item per "
              "twelve bytes, and the model is compared with the real MapList on generated and damaged maps (the kinds of the items, and the "
              "position at which every object of every section starts). Not proved: "
              "termination of the sections that are not modelled as part of that walk (method ids and class definitions - fixed "
              "records read with look-ups in the other tables -, and debug info and hidden API data as sections of "
              "the map: their readers have the theorems above) and of the zip layer; they are run on "
              "mutated, truncated and crafted inputs under a time limit that grows with the input size (reference "
              "resolution in resource tables is C29).")
LEVEL_NOTE = ("Trusted: Coq kernel; coq/Misc/TermModel.v as a rendering of ARSCHeader.__init__, DebugInfoItem.__init__ and "
              "HiddenApiClassDataItem.__init__ (BytesIO as the list of remaining bytes, struct.error on short reads, the "
              "IntEnum conversions as a range test), coq/Dex/StringsModel.v for read_null_terminated_string, "
              "coq/Dex/LebModel.v for the LEB128 readers; the harness tools/props/c35.py; the time limit of the whole-parser "
              "stream is wall-clock time on this machine.")
TRUSTED = ["hand-written models coq/Misc/TermModel.v, coq/Dex/StringsModel.v, coq/Dex/LebModel.v",
           "correspondence harness tools/props/c35.py (byte-string generators, mutation of shipped and generated files, time limit)"]

COQ_HEADER = "Require Import V.Misc.TermModel."


def rb(rng, n):
    return bytes(rng.choice((0, 0, 1, 2, 3, 8, 0x10, 0x80, 0xFF, rng.randrange(256))) for _ in range(n))


# ---- ARSCHeader -------------------------------------------------------------------------------------------------------------
def gen_arsc(rng, tier, ctx):
    cases = [(b"\x03\x00\x08\x00\x08\x00\x00\x00", 0, 0), (b"\x00" * 40, 0, 0), (b"\x00" * 40, 3, 0), (b"\xff" * 7, 0, 0),
             (b"\x00" * 9 + b"\x02\x01\x10\x00\x18\x00\x00\x00" + b"\x00" * 16, 1, 0),
             (b"\x00" * 5 + b"\x01\x01\x10\x00\x00\x00\x00\x00" + b"\x00" * 8, 5, 0)]
    for _ in range(900 if tier == "thorough" else 200):
        n = rng.choice((0, 4, 8, 9, 16, 24, 40, 100))
        data = bytearray(rb(rng, n))
        if n >= 16 and rng.random() < 0.6:           # a plausible header somewhere
            k = rng.randrange(0, n - 7)
            hs = rng.choice((8, 8, 16, 28, 4, 0))
            struct.pack_into("<HHI", data, k, rng.choice((1, 2, 3, 0x100, 0x102, 0x180, 0x200)), hs, rng.choice((hs, hs + 8, 8, 0, 4, n - k, 2**31)))
        start = rng.choice((0, 0, 1, rng.randrange(0, n + 2)))
        cases.append((bytes(data), start, rng.choice((0, 0, 0, 1, 3, 0x102))))
    return cases


def impl_arsc(case):
    from androguard.core.axml import ARSCHeader, ResParserError
    data, start, expected = case
    buff = io.BufferedReader(io.BytesIO(data))
    buff.seek(start)
    try:
        h = ARSCHeader(buff, expected_type=expected)
    except ResParserError:
        return Err("ResParserError")
    except struct.error:
        return Err("StructError")
    return [h.type, h.header_size, h.size, h.start, buff.tell()]


# ---- DebugInfoItem / HiddenApiClassDataItem ---------------------------------------------------------------------------------
def uleb(v):
    out = bytearray()
    while True:
        b = v & 0x7F
        v >>= 7
        out.append(b | (0x80 if v else 0))
        if not v:
            return bytes(out)


def gen_debug(rng, tier, ctx):
    cases = [b"\x00\x00\x00", b"\x01\x02\x03\x04\x00", b"\x05\xff\xff\xff\xff\x0f", b"", b"\x01"]
    for _ in range(900 if tier == "thorough" else 200):
        np_ = rng.choice((0, 0, 1, 2, 5))
        data = bytearray(uleb(rng.randrange(0, 1000)) + uleb(np_ if rng.random() < 0.9 else rng.choice((200, 2**28, 2**32 - 1))))
        for _ in range(np_):
            data += uleb(rng.randrange(0, 300))
        for _ in range(rng.randrange(0, 12)):
            op = rng.choice((1, 2, 3, 4, 5, 6, 7, 8, 9, 0x0A, 0x20, 0xFF))
            data.append(op)
            nargs = {1: 1, 2: 1, 3: 3, 4: 4, 5: 1, 6: 1, 9: 1}.get(op, 0)
            for _ in range(nargs):
                data += uleb(rng.choice((0, 1, 127, 128, 2**20, 2**32 - 1))) if rng.random() < 0.9 else b"\xff\xff"
        r = rng.random()
        if r < 0.6:
            data.append(0)
            data += rb(rng, rng.randrange(0, 3))
        elif r < 0.8 and data:
            data = data[:rng.randrange(len(data))]
        cases.append(bytes(data))
    return cases


def impl_debug(case):
    from androguard.core import dex
    from tools.props.c01 import MockCM
    buff = io.BytesIO(case)
    try:
        d = dex.DebugInfoItem(buff, MockCM())
    except struct.error:
        return Err("StructError")
    return [d.line_start, list(d.parameter_names), [[b.get_op_value(), [v for v, _ in b.format]] for b in d.bytecodes], len(case) - buff.tell()]


def gen_hidden(rng, tier, ctx):
    cases = [b"\x00\x00\x00\x00", b"\x10\x00\x00\x00" + b"\x0c\x00\x00\x00" + b"\x0d\x00\x00\x00" + b"\x01\x0a\x13", b"", b"\xff\xff\xff\xff" + b"\x00" * 20]
    for _ in range(900 if tier == "thorough" else 200):
        nc = rng.choice((0, 1, 2, 3, 6))
        flags = [rng.choice((0, 1, 2, 6, 8, 0x12, 0x16)) if rng.random() < 0.9 else rng.choice((7, 0x18, 0xFF, 0x80)) for _ in range(nc)]
        offs, body, at = [], b"", 4 + 4 * nc
        for f in flags:
            if rng.random() < 0.15:
                offs.append(0)
            else:
                offs.append(at + len(body))
                body += uleb(f)
        data = struct.pack("<I", 4 + 4 * nc + len(body) if rng.random() < 0.8 else rng.choice((0, 3, 4, 2**32 - 1))) + \
            b"".join(struct.pack("<I", o) for o in offs) + body
        r = rng.random()
        if r < 0.2 and data:
            data = data[:rng.randrange(len(data))]
        elif r < 0.35:
            data = bytearray(data)
            if len(data) > 4:
                struct.pack_into("<I", data, 4, rng.choice((4, 5, 8, 2**31, 2**32 - 1, 100)))
            data = bytes(data)
        cases.append(bytes(data) + rb(rng, rng.randrange(0, 3)))
    return cases


def impl_hidden(case):
    from androguard.core import dex
    from tools.props.c01 import MockCM
    buff = io.BytesIO(case)
    try:
        h = dex.HiddenApiClassDataItem(buff, MockCM())
    except struct.error:
        return Err("StructError")
    except ValueError:
        return Err("ValueError")
    return [h.section_size, [[int(a), int(b)] for a, b in h.flags], len(case) - buff.tell()]


# ---- whole parsers under a time limit ---------------------------------------------------------------------------------------
SHIPPED_AXML = ["AndroidManifest.xml", "AndroidManifestTextChunksXML.xml", "AndroidManifestUTF8Strings.xml", "AndroidManifest_StringNotTerminated.xml",
                "AndroidManifest_WrongChunkStart.xml", "AndroidManifestWrongFilesize.xml", "test.xml", "AndroidManifestNonZeroStyle.xml"]
SHIPPED_DEX = ["Test.dex", "FillArrays.dex", "ExceptionHandling.dex", "StringTests.dex", "AnalysisTest.dex"]
SHIPPED_APK = ["Test-debug.apk", "multidex.apk", "AndroidManifest_ShortName.apk"]


def seeds(ctx, rng):
    from tools.vlib import dexgen
    out = []
    for n in SHIPPED_AXML:
        p = os.path.join(ctx.repo, "tests/data/AXML", n)
        if os.path.exists(p):
            out.append(("axml", open(p, "rb").read()))
    for n in SHIPPED_DEX:
        p = os.path.join(ctx.repo, "tests/data/APK", n)
        if os.path.exists(p):
            out.append(("dex", open(p, "rb").read()))
    for n in SHIPPED_APK:
        p = os.path.join(ctx.repo, "tests/data/APK", n)
        if os.path.exists(p) and os.path.getsize(p):
            raw = open(p, "rb").read()
            out.append(("apk", raw))
            try:
                with zipfile.ZipFile(io.BytesIO(raw)) as zf:
                    if "resources.arsc" in zf.namelist():
                        out.append(("arsc", zf.read("resources.arsc")))
            except Exception:
                pass
    for _ in range(4):
        raw, _b = dexgen.build(dexgen.gen_model(rng))
        out.append(("dex", raw))
    from tools.writers.arscwriter import Table, Config, Simple, Complex, STRING, REFERENCE
    t = Table(package="com.ex", package_id=0x7F, utf8=False)
    for k in range(4):
        t.add_entry("string", k, "k%d" % k, Config(language="en" if k % 2 else ""), Simple(STRING, "v%d" % k))
    t.add_entry("style", 0, "st", Config(), Complex([(0x02000001, Simple(REFERENCE, 0x7F010001))]))
    out.append(("arsc", t.build()))
    return out


def gen_whole(rng, tier, ctx):
    base = seeds(ctx, rng)
    cases = list(base)
    # crafted: an unterminated string at the end of a DEX, a huge declared count
    for kind, raw in base:
        if kind == "dex" and len(raw) > 0x70:
            cases.append((kind, raw.rstrip(b"\0")[:len(raw) - 1]))
            b = bytearray(raw)
            struct.pack_into("<I", b, 0x38, 0xFFFFFFF)       # string_ids_size
            cases.append((kind, bytes(b)))
    # crafted: a DEX whose string data ends the file (the map list lies before it), the last terminator cut off, size and
    # checksum put right - the parser reaches the last string and has to notice the end of the data
    import zlib
    from tools.vlib import dexgen
    for _ in range(3):
        raw, _b = dexgen.build(dexgen.gen_model(rng), strings_last=True)
        b = bytearray(raw[:-1]) if raw.endswith(b"\0") else bytearray(raw)
        struct.pack_into("<I", b, 0x20, len(b))
        struct.pack_into("<I", b, 8, zlib.adler32(bytes(b[12:])) & 0xFFFFFFFF)
        cases.append(("dex", bytes(b)))
    # crafted: a type-spec chunk that announces 2^31 entries inside an otherwise intact table
    for kind, raw in base:
        if kind == "arsc":
            q = raw.find(b"\x02\x02\x10\x00")
            if q >= 0 and q + 16 <= len(raw):
                b = bytearray(raw)
                struct.pack_into("<I", b, q + 12, rng.choice((0x7FFFFFFF, 0xFFFFFFFF, 50000000)))
                cases.append((kind, bytes(b)))
    # crafted binary XML: namespace prefixes, tags and attribute names with characters lxml rejects (the printer repairs some and
    # gives up on others - either way it has to come back), and start tags with thousands of attributes that have no name
    from tools.writers import axmlwriter as W
    U = "http://schemas.android.com/apk/res/android"
    for ch in "'\\\t\r\n\"<&:; \x00\x7f\u2028":
        for prefix, uri in (("a" + ch + "b", U), (ch, "u")):
            if True:
                try:
                    raw, _ = W.build([("ns", prefix, uri, [("el", None, "manifest", [(uri, "name", None, 3, "v"), (None, "x" + ch, None, 3, "w")],
                                                               [("el", None, "t" + ch, [], [])])])], utf8=rng.random() < 0.5)
                    cases.append(("axml", raw))
                except Exception:
                    pass
    for n in ((1200, 3000) if tier != "thorough" else (1137, 1138, 1200, 3000, 8000, 20000)):
        for name in ("", "\x00"):
            raw, _ = W.build([("ns", "android", U, [("el", None, "manifest", [(U if k % 2 else None, name, None, 0x10, k) for k in range(n)], [])])], utf8=False)
            cases.append(("axml", raw))
    for _ in range(500 if tier == "thorough" else 90):
        kind, raw = rng.choice(base)
        b = bytearray(raw)
        r = rng.random()
        if r < 0.55 and b:
            for _ in range(rng.choice((1, 1, 2, 4, 8))):
                k = rng.randrange(len(b)) if rng.random() < 0.5 else rng.randrange(min(len(b), 200))
                b[k] = rng.choice((0, 1, 0x7F, 0x80, 0xFF, rng.randrange(256)))
        elif r < 0.75 and len(b) > 8:
            k = rng.randrange(0, len(b) - 4)
            struct.pack_into("<I", b, k, rng.choice((0, 1, 0xFFFFFFFF, 0x7FFFFFFF, 0x10000, len(b), len(b) + 1)))
        elif r < 0.9 and b:
            b = b[:rng.randrange(len(b))]
        else:
            b = bytearray(rb(rng, rng.randrange(0, 300)))
        cases.append((kind, bytes(b)))
    return cases


def impl_whole(case):
    kind, raw = case
    t0 = time.time()
    try:
        if kind == "dex":
            from androguard.core.dex import DEX
            d = DEX(raw)
            for c in d.get_classes():
                for m in c.get_methods():
                    code = m.get_code()
                    if code is not None:
                        list(m.get_instructions())
                        code.get_debug()
        elif kind == "axml":
            from androguard.core.axml import AXMLPrinter
            a = AXMLPrinter(raw)
            a.get_xml()
        elif kind == "arsc":
            from androguard.core.axml import ARSCParser
            a = ARSCParser(raw)
            for p in a.get_packages_names():
                a.get_locales(p)
        else:
            from androguard.core.apk import APK
            APK(raw, raw=True)
        out = "ok"
    except RecursionError:
        out = "exc:RecursionError"
    except Exception as e:
        out = "exc:" + type(e).__name__
    return [out, round(time.time() - t0, 3), len(raw)]


def oracle_whole(case, res):
    if isinstance(res, Err):
        if res.name == "Timeout":
            return "parsing %d bytes as %s did not finish within the time limit" % (len(case[1]), case[0])
        return None
    out, secs, n = res
    if secs > 5 + n / 20000.0:
        return "parsing %d bytes as %s took %.1f s" % (n, case[0], secs)
    return None


def stats_whole(cases, results):
    d = {"inputs": len(cases), "ok": 0, "exceptions": {}, "max_seconds": 0.0}
    for c, r in zip(cases, results):
        d[c[0]] = d.get(c[0], 0) + 1
        if isinstance(r, Err):
            d["exceptions"][r.name] = d["exceptions"].get(r.name, 0) + 1
        else:
            d["max_seconds"] = max(d["max_seconds"], r[1])
            if r[0] == "ok":
                d["ok"] += 1
            else:
                d["exceptions"][r[0][4:]] = d["exceptions"].get(r[0][4:], 0) + 1
    return d


def oracle_ends(case, res):
    if isinstance(res, Err) and res.name == "Timeout":
        n = len(case[0]) if isinstance(case, tuple) else len(case)
        return "the loop did not end on %d bytes of input within the time limit" % n
    return None


STREAMS = [
    {"name": "arsc-header", "gen": gen_arsc, "impl": impl_arsc, "coq_header": COQ_HEADER, "coq_type": "list Z * (Z * Z)",
     "coq_input": lambda c: "(%s, (%s, %s))" % (zlist(list(c[0])), z(c[1]), z(c[2])), "coq_obs": "obs_arsc", "model_vo": "Misc/TermModel.vo",
     "pinned": False, "shard": 120, "oracle": oracle_ends, "case_timeout": 10},
    {"name": "debug-info", "gen": gen_debug, "impl": impl_debug, "coq_header": COQ_HEADER, "coq_type": "list Z",
     "coq_input": lambda c: zlist(list(c)), "coq_obs": "obs_debug", "model_vo": "Misc/TermModel.vo", "pinned": False, "shard": 120,
     "oracle": oracle_ends, "case_timeout": 10},
    {"name": "hidden-api", "gen": gen_hidden, "impl": impl_hidden, "coq_header": COQ_HEADER, "coq_type": "list Z",
     "coq_input": lambda c: zlist(list(c)), "coq_obs": "obs_hidden", "model_vo": "Misc/TermModel.vo", "pinned": False, "shard": 120,
     "oracle": oracle_ends, "case_timeout": 10},
    {"name": "string-reader", "gen": lambda rng, tier, ctx: __import__("tools.props.c06", fromlist=["x"]).gen_nts(rng, tier, ctx),
     "impl": lambda c: __import__("tools.props.c06", fromlist=["x"]).impl_nts(c), "coq_header": "Require Import V.Dex.StringsModel.", "coq_type": "list Z * Z",
     "coq_input": lambda c: "(%s, %s)" % (zlist(list(c[0])), z(c[1])), "coq_obs": "obs_nts", "model_vo": "Dex/StringsModel.vo",
     "pinned": False, "shard": 120, "oracle": oracle_ends, "case_timeout": 10},
    {"name": "whole-parsers", "gen": gen_whole, "impl": impl_whole, "pinned": False, "oracle": oracle_whole, "stats": stats_whole,
     "case_timeout": 30},
]


# ---- the map list and its sections (coq/Dex/MapWalkModel.v) against the real MapList / MapItem.parse --------------------------------
# method ids are left out: MethodIdItem resolves its prototype while it is read and fails with AttributeError / KeyError on an index
# the other tables do not cover (no loop is involved; the model has no cross references)
MAP_KINDS = [0x0001, 0x0002, 0x0003, 0x0004, 0x1001, 0x1002, 0x1003, 0x2006, 0x1000, 0x2001, 0x2001, 0x2002, 0x2002, 0x0007, 0x0008,
             0x2004, 0x2004, 0x2005, 0x2005, 0x2000, 0x2000, 0x1001, 0x1002, 0x1003, 0x2006]


def rand_value(rng, depth):
    """an encoded_value"""
    r = rng.random()
    if depth > 0 and r < 0.15:
        n = rng.randint(0, 3)
        return bytes([0x1C]) + uleb(n) + b"".join(rand_value(rng, depth - 1) for _ in range(n))
    if depth > 0 and r < 0.25:
        n = rng.randint(0, 2)
        return bytes([0x1D]) + uleb(rng.randrange(50)) + uleb(n) + b"".join(uleb(rng.randrange(50)) + rand_value(rng, depth - 1) for _ in range(n))
    if r < 0.35:
        return bytes([rng.choice((0x1E, 0x1F, 0x3F))])
    ty = rng.choice((0x00, 0x02, 0x03, 0x04, 0x06, 0x10, 0x11, 0x17, 0x18, 0x19, 0x1A, 0x1B))
    n = 1 if ty == 0 else rng.randint(1, {0x02: 2, 0x03: 2, 0x04: 4, 0x06: 8, 0x10: 4, 0x11: 8}.get(ty, 4))
    return bytes([(n - 1) << 5 | ty]) + rb(rng, n)


def gen_map(rng, tier, ctx):
    """case = (bytes of the file, offset of the map list)"""
    cases = []

    def build(nitems, region, wild):
        wild_map = wild and rng.random() < 0.3        # the map itself is damaged; otherwise only what the sections say about themselves
        body = bytearray(rb(rng, region))
        # make some places look like sized lists: a small count followed by records
        for _ in range(rng.randint(0, 4)):
            if len(body) >= 8:
                struct.pack_into("<I", body, rng.randrange(0, len(body) - 4) & ~3, rng.choice((0, 1, 2, 3, 5)))
        items = []
        for _ in range(nitems):
            ty = rng.choice(MAP_KINDS)
            if wild_map and rng.random() < 0.15:
                ty = rng.choice((0x0009, 0x1004, 0xFFFF, 0x2007))             # no TypeMapItem
            count = rng.choice((0, 1, 1, 2, 3, 7, rng.randrange(0, 40), 0xFFFFFFFF if wild else 4, 0x7FFFFFFF if wild else 2))
            off = rng.choice((0, 4, rng.randrange(0, region + 1), rng.randrange(0, region + 1) & ~3, region, region + 5 if wild else 0,
                              0xFFFFFFF0 if wild else 8))
            if not wild:
                # a well-formed section: written into the body at a 4-aligned offset, the count made to fit
                off = (rng.randrange(0, region + 1) & ~3) if region else 0
                room = len(body) - off
                fixed = {1: 4, 2: 4, 3: 12, 4: 8}
                if ty in fixed:
                    count = rng.randint(0, min(6, room // fixed[ty]))
                elif ty in (0x1000, 7, 8):
                    count = 1
                elif ty == 0x2000:                      # class data items: four sizes, fields (2 numbers each), methods (3 each)
                    at, count = off, 0
                    for _ in range(rng.randint(0, 3)):
                        ns = [rng.randint(0, 3) for _ in range(4)]
                        item = b"".join(uleb(n) for n in ns)
                        for k, n in enumerate(ns):
                            for _ in range(n):
                                item += b"".join(uleb(rng.choice((0, 1, 5, 200, 70000))) for _ in range(2 if k < 2 else 3))
                        if at + len(item) > len(body):
                            break
                        body[at:at + len(item)] = item
                        at += len(item)
                        count += 1
                elif ty in (0x2004, 0x2005):            # annotation items, encoded arrays
                    at, count = off, 0
                    for _ in range(rng.randint(0, 3)):
                        if ty == 0x2005:
                            n = rng.randint(0, 3)
                            item = uleb(n) + b"".join(rand_value(rng, 2) for _ in range(n))
                        else:
                            n = rng.randint(0, 2)
                            item = bytes([rng.randrange(3)]) + uleb(rng.randrange(50)) + uleb(n) + b"".join(uleb(rng.randrange(50)) + rand_value(rng, 2) for _ in range(n))
                        if at + len(item) > len(body):
                            break
                        body[at:at + len(item)] = item
                        at += len(item)
                        count += 1
                elif ty == 0x2002:                      # string data items: length, bytes, NUL
                    at, count = off, 0
                    for _ in range(rng.randint(0, 4)):
                        text = bytes(rng.randrange(1, 256) for _ in range(rng.choice((0, 1, 5, 130, 300))))
                        item = uleb(rng.choice((len(text), 0, 200, 70000))) + text + b"\0"
                        if at + len(item) > len(body):
                            break
                        body[at:at + len(item)] = item
                        at += len(item)
                        count += 1
                elif ty == 0x2001:                      # code items: header, code units, try items, handler lists
                    at, count = off, 0
                    for _ in range(rng.randint(0, 3)):
                        at += -at % 4
                        insns = rng.choice((0, 1, 2, 3, 7))
                        tries = rng.choice((0, 0, 1, 2))
                        item = struct.pack("<4H2I", rng.randrange(16), rng.randrange(4), rng.randrange(4), tries, rng.randrange(100), insns) + rb(rng, 2 * insns)
                        if tries:
                            if insns % 2:
                                item += b"\0\0"
                            item += b"".join(struct.pack("<I2H", rng.randrange(insns + 1), 1, rng.randrange(8)) for _ in range(tries))
                            lists = rng.randint(1, 3)
                            item += uleb(lists)
                            for _ in range(lists):
                                n = rng.choice((0, 1, 2, -1, -2))
                                item += bytes([n & 0x7F]) + b"".join(uleb(rng.randrange(300)) + uleb(rng.randrange(300)) for _ in range(abs(n)))
                                if n <= 0:
                                    item += uleb(rng.randrange(300))
                        if at + len(item) > len(body):
                            break
                        body[at:at + len(item)] = item
                        at += len(item)
                        count += 1
                else:
                    k = {0x1001: 2, 0x1002: 4, 0x1003: 4}.get(ty)
                    at, count = off, 0
                    for _ in range(rng.randint(0, 3)):
                        if ty == 0x2006:
                            ns = [rng.randint(0, 2) for _ in range(3)]
                            need = 16 + 8 * sum(ns)
                            if at + need > len(body):
                                break
                            struct.pack_into("<4I", body, at, rng.randrange(1000), *ns)
                        else:
                            n = rng.randint(0, 5)
                            need = 4 + k * n + (2 if ty == 0x1001 and n % 2 else 0)
                            if at + need > len(body):
                                break
                            struct.pack_into("<I", body, at, n)
                        at += need
                        count += 1
            items.append((ty, count, off))
        # type, proto and field ids look their strings and types up while they are read: the tables they need are in the map
        kinds = {t for t, _, _ in items}
        if kinds & {0x2004, 0x2005}:
            # encoded values of the string, type, field, method and enum kinds are resolved while they are read: all four id tables
            # are in the map (the method ids as an empty table, see above)
            if 4 not in kinds:
                items.insert(rng.randrange(len(items) + 1), (4, rng.choice((0, 1)), rng.randrange(0, region + 1) & ~3))
            items.insert(rng.randrange(len(items) + 1), (5, 0, rng.randrange(0, region + 1) & ~3))
            kinds = {t for t, _, _ in items}
        if kinds & {2, 3, 4} and 1 not in kinds:
            items.insert(rng.randrange(len(items) + 1), (1, rng.choice((0, 1, 3)), rng.randrange(0, region + 1)))
        if kinds & {3, 4} and 2 not in kinds:
            items.insert(rng.randrange(len(items) + 1), (2, rng.choice((0, 1, 3)), rng.randrange(0, region + 1) & ~3))
        if not wild and rng.random() < 0.3 and len(body) >= 4:
            # a well-formed file with one word changed: often the count of a list
            struct.pack_into("<I", body, rng.randrange(0, len(body) - 3) & ~3, rng.choice((0xFFFFFFFF, 0x7FFFFFFF, 1000, len(body), 6)))
        while len(body) % 4:
            body.append(0)
        moff = len(body)
        m = struct.pack("<I", rng.choice((len(items), len(items), len(items) + 1, 0xFFFFFFFF)) if wild_map else len(items))
        m += b"".join(struct.pack("<HHII", t, rng.randrange(65536), n, o) for t, n, o in items)
        raw = bytes(body) + m
        if wild_map and rng.random() < 0.3:
            raw = raw[:rng.randrange(moff, len(raw) + 1)]
        # (the map is always read where it was written: bytes read as a map somewhere else name kinds whose readers look other
        # tables up - KeyError in the code, outside the model; an offset behind the end is covered by the cut maps)
        return (raw, moff if rng.random() < 0.9 else len(raw) + rng.randrange(0, 3))
    for _ in range(900 if tier == "thorough" else 300):
        cases.append(build(rng.randint(0, 6), rng.choice((0, 16, 64, 200, 200)), rng.random() < 0.4))
    return cases


def impl_map(case):
    from androguard.core.dex import ClassManager, DalvikPacker, MapList
    raw, off = case
    cm = ClassManager(None)
    cm.packer = DalvikPacker(0x12345678)
    try:
        ml = MapList(cm, off, io.BytesIO(raw))
    except struct.error:
        return Err("StructError")
    out = []
    for mi in ml.map_item:
        it = mi.get_item()
        if it is ml:
            it = []
        elif not isinstance(it, list):
            it = [getattr(it, a) for a in ("type", "proto", "field_id_items", "method_id_items", "code") if isinstance(getattr(it, a, None), list)][0]
        out.append([int(mi.get_type()), mi.get_size(), mi.get_offset(), [i.offset for i in it]])      # where every object of the section starts
    return out


def oracle_map(case, res):
    """independent of the model: the objects of a section are bounded by the bytes of the file, whatever its count says"""
    if isinstance(res, Err):
        if res.name == "Timeout":
            return "MapList on %d bytes (map at %d) did not finish within the time limit" % (len(case[0]), case[1])
        return None
    raw, off = case
    if 12 * len(res) + 4 > len(raw):
        return "%d map items read from %d bytes" % (len(res), len(raw))
    for ty, count, o, starts in res:
        n = len(starts)
        if starts != sorted(set(starts)) or any(not 0 <= s < len(raw) for s in starts):
            return "section of type 0x%04x: the objects start at %r in a file of %d bytes" % (ty, starts, len(raw))
        if n > len(raw) or n > count:
            return "section of type 0x%04x: %d objects from a count of %d and %d bytes" % (ty, n, count, len(raw))
    return None


STREAMS.insert(4, {"name": "map-list", "gen": gen_map, "impl": impl_map, "coq_header": "Require Import V.Dex.MapWalkModel.", "coq_type": "list Z * Z",
                   "coq_input": lambda c: "(%s, %s)" % (zlist(list(c[0])), z(c[1])), "coq_obs": "obs_map", "model_vo": "Dex/MapWalkModel.vo",
                   "pinned": False, "shard": 60, "oracle": oracle_map, "case_timeout": 20,
                   "stats": lambda cases, results: {"files": len(cases), "parsed": sum(1 for r in results if not isinstance(r, Err)),
                                                    "sections": sum(len(r) for r in results if not isinstance(r, Err)),
                                                    "objects": sum(sum(len(x[3]) for x in r) for r in results if not isinstance(r, Err)),
                                                    "struct_errors": sum(1 for r in results if isinstance(r, Err) and r.name == "StructError"),
                                                    "value_errors": sum(1 for r in results if isinstance(r, Err) and r.name == "ValueError")}})
