"""C09 - corrupted or non-DEX input is rejected at the header."""
import os
import struct
import zlib

from tools.vlib.coqfmt import Err, zlist

ID = "C09"
TITLE = "Corrupted or non-DEX input is rejected at the header"
PROPS = "C09"
LEVEL = "proof"
DESIGN_REF = "DESIGN.md section 5, C09"
TECHNIQUE = ("Coq theorems about a hand-written model of the header checks and of Adler-32: the low half of the checksum "
             "is 1 + the byte sum modulo 65521 (fold lemma), a single byte change moves the sum by a non-zero amount "
             "below 256 (lia), so the checksum changes; case analysis of the check sequence; model tied to the source by "
             "a differential run (every offset >= 12 of a shipped DEX file and of generated files, random header fields)")
LEVEL_TEXT = ("Unbounded proof: for every buffer, a wrong structural magic byte, endian tag, header size or checksum makes "
              "the modelled header check return an error; for every buffer the check accepts (any length) and every "
              "offset >= 12, replacing that byte by any other byte value makes the check return an error; Adler-32 of any "
              "byte string changes under every single-byte change. The model is compared on every run with the real "
              "DEX() constructor (MapList replaced by a probe, so 'accepted' means parsing went past the header) and "
              "with zlib.adler32.")
LEVEL_NOTE = ("Trusted: Coq kernel; coq/Dex/HeaderModel.v as a rendering of HeaderItem.__init__/DalvikPacker.__init__ "
              "(struct unpacking as little-endian byte arithmetic, zlib.adler32 as the RFC 1950 definition); the harness "
              "tools/props/c09.py, which replaces dex.MapList by a probe to observe 'parsing continued'.")
TRUSTED = ["hand-written model coq/Dex/HeaderModel.v (check order of HeaderItem.__init__, RFC 1950 Adler-32)",
           "correspondence harness tools/props/c09.py (MapList probe, generators)"]

COQ_HEADER = "Require Import V.Dex.HeaderModel."


class _Past(Exception):
    pass


def impl_header(case):
    from androguard.core import dex
    orig = dex.MapList

    def probe(*a, **k):
        raise _Past()
    dex.MapList = probe
    try:
        try:
            dex.DEX(bytes(case))
        except _Past:
            pass
        return 1
    finally:
        dex.MapList = orig


def impl_adler(case):
    return zlib.adler32(bytes(case))


def make_file(rng, n_data, **over):
    f = {"magic": b"dex\n035\x00", "file_size": None, "header_size": 0x70, "endian": 0x12345678, "link_size": 0, "link_off": 0,
         "map_off": 0x70, "string_ids_size": rng.randrange(4), "string_ids_off": 0x70, "type_ids_size": rng.randrange(70000) if rng.random() < 0.1 else rng.randrange(100),
         "type_ids_off": 0x70, "proto_ids_size": rng.randrange(100), "proto_ids_off": 0x70, "field_ids_size": 0, "field_ids_off": 0,
         "method_ids_size": 1, "method_ids_off": 0x70, "class_defs_size": 1, "class_defs_off": 0x70, "data_size": n_data, "data_off": 0x70}
    if rng.random() < 0.5:
        f["type_ids_size"] = rng.randrange(100)
    f.update(over)
    data = bytes(rng.randrange(256) for _ in range(n_data))
    sig = bytes(rng.randrange(256) for _ in range(20))
    size = 0x70 + n_data if f["file_size"] is None else f["file_size"]
    rest = sig + struct.pack("<20I", size, f["header_size"], f["endian"], f["link_size"], f["link_off"], f["map_off"],
                             f["string_ids_size"], f["string_ids_off"], f["type_ids_size"], f["type_ids_off"],
                             f["proto_ids_size"], f["proto_ids_off"], f["field_ids_size"], f["field_ids_off"],
                             f["method_ids_size"], f["method_ids_off"], f["class_defs_size"], f["class_defs_off"],
                             f["data_size"], f["data_off"]) + data
    return list(f["magic"] + struct.pack("<I", zlib.adler32(rest)) + rest)


def _real(ctx):
    for root in (ctx.repo, "/repo"):
        p = os.path.join(root, "tests", "data", "APK", "Test.dex")
        if os.path.isfile(p) and os.path.getsize(p) > 112:
            with open(p, "rb") as fh:
                return list(fh.read())
    return None


def valid_header(bs):
    """Transcribes header_check = Ok (HeaderModel.v)."""
    if len(bs) < 112:
        return False
    b = bytes(bs)
    le = lambda o: struct.unpack_from("<I", b, o)[0]
    return (le(40) == 0x12345678 and b[0:2] == b"de" and b[2] in (0x78, 0x79) and b[3] == 0x0A and b[7] == 0
            and zlib.adler32(b[12:]) == le(8) and le(36) == 0x70 and le(64) <= 65535 and le(72) <= 65535)


def gen_header(rng, tier, ctx):
    big = tier == "thorough"
    cases = []
    bases = []
    real = _real(ctx)
    if real:
        bases.append(real)
    for n in (0, 1, 7, 40):
        bases.append(make_file(rng, n, type_ids_size=rng.randrange(100)))
    bases.append(make_file(rng, 9, magic=b"dey\n035\x00", type_ids_size=rng.randrange(100)))      # the optimised-DEX magic: the same rules hold
    if real:
        bases.append(list(b"dey") + real[3:])
    for base in bases:
        cases.append(list(base))
        for off in range(12, len(base)):                     # every offset after the checksum field
            vals = range(256) if (big and len(base) <= 113) else [rng.randrange(256) for _ in range(2 if big else 1)]
            for v in vals:
                if v != base[off]:
                    m = list(base)
                    m[off] = v
                    cases.append(m)
        for off in range(0, 12):                             # and the magic / checksum bytes themselves
            for v in (rng.randrange(256), base[off] ^ 1, 0x78, 0x79):
                if v != base[off]:
                    m = list(base)
                    m[off] = v
                    cases.append(m)
    for base in bases:                                       # stored checksum = Adler-32 of some *other* range of the file
        b = bytes(base)
        for rng_bytes in (b[12:112], b[112:], b[8:], b[:], b[32:], b[12:len(b) - 1], b[13:], b[12:] + b"\0", b""):
            for val in (zlib.adler32(rng_bytes), zlib.crc32(b[12:]), zlib.adler32(b[12:]) ^ 0x80000000,
                        int.from_bytes(struct.pack(">I", zlib.adler32(b[12:])), "little")):
                m = list(b[:8] + struct.pack("<I", val) + b[12:])
                if m != base:
                    cases.append(m)
    # magics near the right ones, the checksum right (it does not cover the magic): rotations and windows of the two prefixes,
    # case changes, neighbouring letters, the two prefixes swapped into each other's version field
    two = b"dex\ndey\ndex\ndey"
    near = {two[i:i + 4] for i in range(len(two) - 3)} | {b"DEX\n", b"Dex\n", b"dex\r", b"dex ", b"dez\n", b"dew\n", b"dfx\n", b"eex\n", b"dex\x00", b"\x00dex",
                                                          b"dey\r", b"dex\x0b", b"xed\n", b"yed\n", b"de\nx", b"d\nex"}
    for m4 in sorted(near):
        for ver in (b"035\x00", b"039\x00", b"dex\n"[:3] + b"\x00"):
            if m4 + ver not in (b"dex\n035\x00",):
                cases.append(make_file(rng, rng.choice((0, 8)), magic=m4 + ver))
    for hs in list(range(0, 0x100)) + [0x170, 0x1070, 0x700000, 0x70000000, 0x80000070, 0xFFFFFFFF]:   # every small header size, the checksum right
        if hs != 0x70:
            cases.append(make_file(rng, rng.choice((0, 8, 16)), header_size=hs))
    for _ in range(1500 if big else 300):                    # wrong fields with a *correct* checksum
        kind = rng.randrange(8)
        over = {}
        if kind == 0:
            over["magic"] = bytes(rng.choice((rng.randrange(256), c)) for c in b"dex\n035\x00")
        elif kind == 1:
            over["endian"] = rng.choice((0x78563412, 0x12345679, 0, rng.randrange(1 << 32)))
        elif kind == 2:
            over["header_size"] = rng.choice((0, 0x6F, 0x71, 0x7000, rng.randrange(1 << 32)))
        elif kind == 3:
            over["type_ids_size"] = rng.choice((65535, 65536, 1 << 31))
        elif kind == 4:
            over["proto_ids_size"] = rng.choice((65535, 65536, 1 << 31))
        elif kind == 5:
            over["map_off"] = 0
        elif kind == 6:
            over["magic"] = rng.choice((b"dey\n036\x00", b"dex\n0ab\x00", b"dex\n\xff\xff\xff\x00", b"DEX\n035\x00"))
        f = make_file(rng, rng.randrange(20), **over)
        if kind == 7:
            f = f[:rng.randrange(0, 130)]
        cases.append(f)
    return cases


def oracle_header(case, res):
    """The property, on the real code: rejected unless every header field is right."""
    if valid_header(case):
        return None if res == 1 else "a buffer with a correct header was rejected (%r)" % (res,)
    if res == 1:
        b = bytes(case)
        return "parsing went past the header although the header is wrong (len %d, magic %r)" % (len(b), b[:8])
    return None


def stats_header(cases, results):
    d = {}
    for c, r in zip(cases, results):
        key = ("valid-header" if valid_header(c) else "invalid-header") + "/" + ("accepted" if r == 1 else r.name if isinstance(r, Err) else "?")
        d[key] = d.get(key, 0) + 1
    return d


def gen_adler(rng, tier, ctx):
    cases = [[], [0], [255], [1, 2, 3], [255] * 300, [0] * 70, list(b"Wikipedia")]
    for _ in range(1500 if tier == "thorough" else 300):
        n = rng.choice((1, 2, 5, 30, 120, 257, 600))
        base = [rng.choice((0, 255, rng.randrange(256))) for _ in range(n)]
        cases.append(base)
        m = list(base)
        i = rng.randrange(n)
        m[i] = (m[i] + rng.randrange(1, 256)) % 256
        cases.append(m)
    return cases


STREAMS = [
    {
        "name": "header", "gen": gen_header, "impl": impl_header, "coq_header": COQ_HEADER,
        "coq_type": "list Z", "coq_input": zlist, "coq_obs": "obs_header", "model_vo": "Dex/HeaderModel.vo",
        "pinned": False, "oracle": oracle_header, "stats": stats_header, "shard": 60,
        "nontrivial": lambda c, r: True,
    },
    {
        "name": "adler32", "gen": gen_adler, "impl": impl_adler, "coq_header": COQ_HEADER,
        "coq_type": "list Z", "coq_input": zlist, "coq_obs": "obs_adler", "model_vo": "Dex/HeaderModel.vo",
        "pinned": False, "shard": 100,
    },
]
