"""C06 - DEX strings decode to exactly the UTF-16 text their MUTF-8 bytes encode."""
import io
import random
import struct

from tools.vlib.coqfmt import Err, z, zlist

ID = "C06"
TITLE = "DEX strings decode to exactly the UTF-16 text their MUTF-8 bytes encode"
PROPS = "C06"
LEVEL = "proof"
DESIGN_REF = "DESIGN.md section 5, C06"
TECHNIQUE = ("Coq theorems (induction over the chunk loop of the string reader; a kernel-evaluated sweep of all 65536 code "
             "units for the per-unit encoding facts, arithmetic on the surrogate halves for the pair case, strong induction on "
             "the unit list for the decoder; induction on the item list for the section layout) about a hand-written model of "
             "read_null_terminated_string, readuleb128, StringDataItem, the string_data section parse, "
             "ClassManager.get_raw_string and the MUTF-8 decoder; model tied to the source by a differential run on generated "
             "DEX files, direct decoder calls and stream reads")
LEVEL_TEXT = ("Unbounded proof: (1) for every buffer and position the chunked reader returns the bytes up to the first NUL and "
              "the position just after it, and fails when there is none, whatever the chunk boundaries; (2) for every sequence "
              "of UTF-16 code units (any values 0..65535: U+0000, lone and paired surrogates included) decoding its MUTF-8 "
              "encoding returns the str whose UTF-16 form is exactly that sequence (a high+low pair becomes one supplementary "
              "code point, everything else one code point per unit); (3) for every list of strings laid out as a string_data "
              "section at any offset of any file, followed by anything, the section parse returns one item per string at its "
              "offset, and get_raw_string of an id pointing at the k-th item returns the k-th text. The model is compared "
              "with the real DEX parser (string items, get_raw_string of every index, get_strings, const-string operands, "
              "class/method/field names) on every run.")
LEVEL_NOTE = ("Trusted: Coq kernel; coq/Dex/StringsModel.v as a rendering of read_null_terminated_string (BytesIO.read/seek/tell "
              "as list operations), readuleb128, StringDataItem, MapItem's loop over the section, get_raw_string and of the "
              "decoder loop of the third-party mutf8 package that androguard.core.mutf8.decode resolves to (lead bytes "
              "0x80-0xBF and 0xF0-0xFF, and the package's UTF-8 fast path for them, are outside the model and are not "
              "generated); Python's str as a list of code points; the harness tools/props/c06.py and tools/writers/dexwriter.py.")
TRUSTED = ["hand-written model coq/Dex/StringsModel.v", "correspondence harness tools/props/c06.py and the independent DEX writer tools/writers/dexwriter.py"]

COQ_HEADER = "Require Import V.Dex.StringsModel."
SPECIAL = [0, 1, 0x7F, 0x80, 0x7FF, 0x800, 0xD7FF, 0xD800, 0xDBFF, 0xDC00, 0xDFFF, 0xE000, 0xFEFF, 0xFFFE, 0xFFFF, 0x41, 0x5C, 0x22,
           0xED, 0xC0, 0xD000, 0xDABC, 0xDEAD]


def rand_units(rng, maxlen=12):
    n = rng.choice((0, 1, 1, 2, 3, 5, 8, maxlen))
    out = []
    for _ in range(n):
        r = rng.random()
        if r < 0.4:
            out.append(rng.choice(SPECIAL))
        elif r < 0.55:
            out += [rng.randrange(0xD800, 0xDC00), rng.randrange(0xDC00, 0xE000)]
        elif r < 0.65:
            out.append(rng.randrange(0xD800, 0xE000))
        elif r < 0.85:
            out.append(rng.randrange(0x20, 0x7F))
        else:
            out.append(rng.randrange(0x10000))
    return out


def enc_units(us):
    out = bytearray()
    for u in us:
        if u != 0 and u < 0x80:
            out.append(u)
        elif u < 0x800:
            out += bytes((0xC0 | (u >> 6), 0x80 | (u & 0x3F)))
        else:
            out += bytes((0xE0 | (u >> 12), 0x80 | ((u >> 6) & 0x3F), 0x80 | (u & 0x3F)))
    return bytes(out)


def join_pairs(us):
    out, i = [], 0
    while i < len(us):
        if 0xD800 <= us[i] < 0xDC00 and i + 1 < len(us) and 0xDC00 <= us[i + 1] < 0xE000:
            out.append(0x10000 + ((us[i] - 0xD800) << 10) + (us[i + 1] - 0xDC00))
            i += 2
        else:
            out.append(us[i])
            i += 1
    return out


def text_of(s):
    if s.startswith("ANDROGUARD[INVALID_STRING]"):
        return Err("UnicodeError")
    if s == "AG:IS: invalid string":
        return Err("KeyError")
    return [ord(c) for c in s]


# ---- pools ---------------------------------------------------------------------------------------------------------------
def gen_pools(rng, tier, ctx):
    """case = (list of unit lists, strings_last, tail bytes, number of const-string instructions)"""
    cases = [([[0xFEFF, 0xD83D, 0xDE00], [0xFFFE, 0xDC00], [0], [0xD800], [0xDC00, 0xD800], [0xD800, 0xD800, 0xDC00]], False, b"", 4),
             ([[0x61] * 130, [0x62] * 127, [0x800] * 43, [0x63]], True, b"", 2),
             ([[0x61], [0x62, 0x63]], True, b"", 2)]
    for _ in range(120 if tier == "thorough" else 22):
        n = rng.choice((1, 2, 3, 6, 12))
        uss = [rand_units(rng, rng.choice((12, 12, 70, 140))) for _ in range(n)]
        last = rng.random() < 0.5
        tail = bytes(rng.randrange(256) for _ in range(rng.choice((0, 0, 1, 3, 50, 200)))) if last else b""
        cases.append((uss, last, tail, rng.randrange(0, 5)) + ((rng.choice(("reverse", rng.randrange(1, 10**6))),) if rng.random() < 0.4 else ()))
    return cases


def build_pool(case):
    from tools.writers.dexwriter import DexBuilder, Code, Str, Str32
    uss, last, tail, nconst = case[:4]
    strs = ["".join(chr(u) for u in us) for us in uss]
    order = case[4] if len(case) > 4 else None            # the string data items written in another order than the string ids
    if isinstance(order, int):
        seed = order
        order = lambda n: random.Random(seed).sample(range(n), n)
    b = DexBuilder(extra_strings=strs, strings_last=last, tail=tail, string_data_order=order)
    k = b.add_class("Lp/A;")
    units = []
    for j, s in enumerate(strs[:nconst]):
        units += [0x001A, Str(s)] if j % 2 == 0 else [0x001B, Str32(s)]
    units.append(0x000E)
    mname = strs[0] if strs else "m"
    k.add_method(mname, "V", (), access=1, direct=False, code=Code(2, 1, 0, units))
    if len(strs) > 1:
        k.add_field(strs[1], "I", access=1, static=False)
    raw = b.build()
    return raw, b, strs


def impl_pools(case):
    from androguard.core.dex import DEX
    raw, b, strs = build_pool(case)
    d = DEX(raw)
    cm = d.get_class_manager()
    n = len(b.strings)
    items = [[it.get_off(), it.get_utf16_size(), text_of(it.get())] for it in d.strings]
    texts = [text_of(cm.get_raw_string(i)) for i in range(n)]
    texts2 = [text_of(cm.get_raw_string(i)) for i in reversed(range(n))][::-1]
    consts = []
    cls = d.get_classes()[0]
    names = []
    for m in cls.get_methods():
        names.append(text_of(m.get_name()))
        for ins in m.get_instructions():
            if ins.get_op_value() in (0x1A, 0x1B):
                consts.append([ins.get_ref_kind(), text_of(ins.get_raw_string()), text_of(cm.get_string(ins.get_ref_kind()))])
    for f in cls.get_fields():
        names.append(text_of(f.get_name()))
    return {"items": items, "texts": texts, "texts2": texts2, "all": [text_of(s) for s in d.get_strings()], "consts": consts, "names": names,
            "pool": [[ord(c) for c in s] for s in b.strings], "sd_off": b.string_data_off, "ids": list(b.string_data_offsets),
            "raw": raw}


def coq_pools(case, res):
    return "((%s, (%s, %s)), %s)" % (zlist(list(res["raw"])), z(res["sd_off"]), z(len(res["ids"])), zlist(res["ids"]))


def canon_pools(res):
    return [res["items"], res["texts"]]


def oracle_pools(case, res):
    if isinstance(res, Err):
        return "parsing the generated DEX failed: %s %s" % (res.name, res.msg[:160])
    uss, last, tail, nconst = case[:4]
    # DEX.strings / DEX.get_strings() list the string data items in the order of the file; string ids are another matter
    place = {i: k for k, i in enumerate(sorted(range(len(res["ids"])), key=lambda i: res["ids"][i]))}
    for i, units in enumerate(res["pool"]):
        want = join_pairs(units)
        k = place[i]
        for what, got in (("get_raw_string(%d)" % i, res["texts"][i]), ("get_raw_string(%d) asked again" % i, res["texts2"][i]),
                          ("get_strings()[%d]" % k, res["all"][k]), ("string item %d" % k, res["items"][k][2])):
            if got != want:
                return "%s: UTF-16 units %s decoded to %s, expected code points %s" % (
                    what, [hex(u) for u in units], got if isinstance(got, Err) else [hex(c) for c in got], [hex(c) for c in want])
        if res["items"][k][1] != len(units):
            return "string item %d: utf16_size %d, the file says %d" % (k, res["items"][k][1], len(units))
    for idx, raw_s, s in res["consts"]:
        want = join_pairs(res["pool"][idx])
        if raw_s != want or s != want:
            return "const-string operand (string %d): %s / %s, expected %s" % (idx, raw_s, s, want)
    want_names = [join_pairs(us) for us in uss[:2]]
    if res["names"][:len(want_names)] != want_names[:len(res["names"])]:
        return "method/field names %s, expected %s" % (res["names"], want_names)
    return None


def stats_pools(cases, results):
    d = {"files": len(cases), "strings": 0, "units": 0, "nul": 0, "lone_surrogates": 0, "pairs": 0, "strings_last": 0, "bom_first": 0}
    d["data_order_differs_from_id_order"] = sum(1 for c in cases if len(c) > 4)
    for uss, last, tail, nc in (c[:4] for c in cases):
        d["strings_last"] += last
        for us in uss:
            d["strings"] += 1
            d["units"] += len(us)
            d["nul"] += us.count(0)
            j = join_pairs(us)
            d["pairs"] += sum(1 for c in j if c >= 0x10000)
            d["lone_surrogates"] += sum(1 for c in j if 0xD800 <= c < 0xE000)
            d["bom_first"] += bool(us) and us[0] in (0xFEFF, 0xFFFE)
    return d


# ---- decoder -------------------------------------------------------------------------------------------------------------
def gen_decode(rng, tier, ctx):
    cases = [enc_units([0xFEFF, 0xD83D, 0xDE00]), enc_units([0xFFFE, 0xD83D, 0xDE00, 0x41]), b"\xed\xa0\x80\xed\xb0", b"\xed\xa0\x80\xed",
             b"\xed\xa0\x80\xed\xb0\x80", b"\xc0", b"\xe0\x80", b"a\x00b", b""]
    for _ in range(1500 if tier == "thorough" else 300):
        data = enc_units(rand_units(rng, 20))
        r = rng.random()
        if r < 0.2 and data:
            data = data[:rng.randrange(len(data))]              # cut anywhere: truncated multi-byte forms
        elif r < 0.3 and data:
            k = rng.randrange(len(data))
            data = data[:k] + bytes([rng.choice((0xED, 0xC0, 0xE0, 0xEF, 0xDF, 0x7F, 0x01))]) + data[k:]
        if any((0x80 <= x < 0xC0 or x >= 0xF0) for x in lead_bytes(data)):
            continue                                             # outside the model (stray continuation / four-byte lead)
        cases.append(data)
    return cases


def lead_bytes(data):
    i, out = 0, []
    while i < len(data):
        b = data[i]
        out.append(b)
        if b < 0x80:
            i += 1
        elif (b & 0xE0) == 0xC0:
            i += 2
        elif (b & 0xF0) == 0xE0:
            if (b == 0xED and i + 5 < len(data) and (data[i + 1] & 0xF0) == 0xA0 and data[i + 3] == 0xED and (data[i + 4] & 0xF0) == 0xB0):
                i += 6
            else:
                i += 3
        else:
            i += 1
    return out


def impl_decode(case):
    from androguard.core import mutf8
    try:
        return [ord(c) for c in mutf8.decode(case)]
    except UnicodeDecodeError:
        return Err("UnicodeError")


def stats_decode(cases, results):
    return {"byte_strings": len(cases), "rejected": sum(1 for r in results if isinstance(r, Err)),
            "with_supplementary": sum(1 for r in results if not isinstance(r, Err) and any(c >= 0x10000 for c in r))}


# ---- stream reads --------------------------------------------------------------------------------------------------------
def gen_nts(rng, tier, ctx):
    cases = [(b"abc", 0), (b"abc\x00", 0), (b"\x00", 0), (b"", 0), (b"a" * 127 + b"\x00" + b"b", 0), (b"a" * 128 + b"\x00", 0),
             (b"a" * 128, 0), (b"a" * 255 + b"\x00\x00x", 0), (b"xx" + b"a" * 126 + b"\x00", 2)]
    for _ in range(600 if tier == "thorough" else 120):
        n = rng.choice((0, 1, 5, 126, 127, 128, 129, 200, 255, 256, 257, 300, 400))
        data = bytearray(rng.randrange(1, 256) for _ in range(n))
        for _ in range(rng.choice((0, 1, 1, 2, 3))):
            if data:
                data[rng.choice((rng.randrange(len(data)), len(data) - 1, min(len(data) - 1, 127), min(len(data) - 1, 128)))] = 0
        pos = rng.choice((0, 0, 1, rng.randrange(0, len(data) + 1)))
        cases.append((bytes(data), pos))
    return cases


def impl_nts(case):
    from androguard.core.dex import read_null_terminated_string
    data, pos = case
    f = io.BytesIO(data)
    f.seek(pos)
    try:
        out = read_null_terminated_string(f)
    except ValueError:
        return Err("ValueError")
    return [list(out), f.tell()]


def oracle_nts(case, res):
    data, pos = case
    k = data.find(b"\x00", pos)
    if k < 0:
        return None if isinstance(res, Err) and res.name == "ValueError" else "no NUL after position %d but the reader returned %r" % (pos, res)
    if isinstance(res, Err):
        return "NUL at %d but the reader failed with %s" % (k, res.name)
    if bytes(res[0]) != data[pos:k] or res[1] != k + 1:
        return "read from %d: got %d bytes and position %d, expected %d bytes and position %d" % (pos, len(res[0]), res[1], k - pos, k + 1)
    return None


# ---- a big pool: string indices above 0x7fff in const-string, strings whose length prefix takes three bytes (no model) ------
def gen_big(rng, tier, ctx):
    """case = (number of filler strings, lengths of the long strings, seed)"""
    return [(40000, [16383, 16384, 16385, 20000], rng.randrange(1, 10**6))] + ([(33000, [70000], rng.randrange(1, 10**6))] if tier == "thorough" else [])


def impl_big(case):
    from tools.writers.dexwriter import DexBuilder, Code, Str, Str32
    from androguard.core.dex import DEX
    nfill, lengths, seed = case
    r = random.Random(seed)
    longs = ["".join(chr(r.choice((0x41, 0xE9, 0x4E2D, 0x7A))) for _ in range(n - 1)) + "z" for n in lengths]
    late = ["zz%d" % i for i in range(6)] + ["\uffee" + "x" * i for i in range(3)]          # sort behind the fillers
    fill = ["f%05d" % i for i in range(nfill)]
    b = DexBuilder(extra_strings=fill + longs + late)
    k = b.add_class("Lp/A;")
    units = []
    for j, t in enumerate(late + longs[:2]):
        units += [0x001A, Str(t)] if j % 3 else [0x001B, Str32(t)]
    units.append(0x000E)
    k.add_method("m", "V", (), access=1, direct=False, code=Code(2, 1, 0, units))
    d = DEX(b.build())
    cm = d.get_class_manager()
    consts = []
    for m in d.get_classes()[0].get_methods():
        for ins in m.get_instructions():
            if ins.get_op_value() in (0x1A, 0x1B):
                consts.append([ins.get_ref_kind(), b.strings[ins.get_ref_kind()] == ins.get_raw_string(), b.strings[ins.get_ref_kind()] == cm.get_string(ins.get_ref_kind())])
    all_ = d.get_strings()
    bad = [i for i, t in enumerate(b.strings) if all_[i] != t][:5]
    sizes = {len(it.get()): it.get_utf16_size() for it in d.strings if len(it.get()) >= 16000}
    return {"consts": consts, "first_wrong_strings": bad, "n": len(all_), "want_n": len(b.strings), "long_sizes": sorted(sizes.items()),
            "want_idx": sorted(b.string_index(t) for t in late + longs[:2])}


def oracle_big(case, res):
    if isinstance(res, Err):
        return "parsing the generated DEX failed: %s %s" % (res.name, res.msg[:160])
    if res["n"] != res["want_n"] or res["first_wrong_strings"]:
        return "get_strings(): %d strings (%d written); the strings at %r differ from the ones written" % (res["n"], res["want_n"], res["first_wrong_strings"])
    if sorted(c[0] for c in res["consts"]) != res["want_idx"]:
        return "const-string operands %r, the code refers to the strings %r" % (sorted(c[0] for c in res["consts"]), res["want_idx"])
    for idx, raw_ok, s_ok in res["consts"]:
        if not (raw_ok and s_ok):
            return "const-string with string index %d (0x%x): get_raw_string / get_string do not return that string" % (idx, idx)
    if min(res["want_idx"]) < 0x8000:
        return None
    for n, size in res["long_sizes"]:
        if n != size:
            return "a string of %d UTF-16 units reports utf16_size %d" % (n, size)
    if sorted(n for n, _ in res["long_sizes"]) != sorted(n for n in case[1] if n >= 16000):
        return "long strings of %r units written, found %r" % (case[1], [n for n, _ in res["long_sizes"]])
    return None


STREAMS = [
    {"name": "big-pool", "gen": gen_big, "impl": impl_big, "pinned": False, "oracle": oracle_big, "case_timeout": 240,
     "stats": lambda cases, results: {"files": len(cases), "strings": sum(c[0] for c in cases)}},
    {"name": "pools", "gen": gen_pools, "impl": impl_pools, "canon": canon_pools, "coq_header": COQ_HEADER,
     "coq_type": "(list Z * (Z * Z)) * list Z", "coq_input": lambda c: None, "coq_input_r": coq_pools, "coq_obs": "obs_pool",
     "model_vo": "Dex/StringsModel.vo", "pinned": False, "oracle": oracle_pools, "stats": stats_pools, "shard": 6},
    {"name": "decoder", "gen": gen_decode, "impl": impl_decode, "coq_header": COQ_HEADER, "coq_type": "list Z",
     "coq_input": lambda c: zlist(list(c)), "coq_obs": "obs_decode", "model_vo": "Dex/StringsModel.vo", "pinned": False,
     "stats": stats_decode, "shard": 100},
    {"name": "stream-reads", "gen": gen_nts, "impl": impl_nts, "coq_header": COQ_HEADER, "coq_type": "list Z * Z",
     "coq_input": lambda c: "(%s, %s)" % (zlist(list(c[0])), z(c[1])), "coq_obs": "obs_nts", "model_vo": "Dex/StringsModel.vo",
     "pinned": False, "oracle": oracle_nts, "shard": 60},
]
