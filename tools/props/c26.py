"""C26 - binary XML is converted to the XML tree it encodes."""
from tools.vlib.coqfmt import Err, z, zlist, coq_list

ID = "C26"
TITLE = "Binary XML is converted to the XML tree it encodes"
PROPS = "C26"
LEVEL = "proof"
DESIGN_REF = "DESIGN.md section 5, C26"
TECHNIQUE = ("Coq theorems (induction over trees with a nested induction over the child lists for the stack machine that "
             "builds the element tree; list inductions for the cleaning of values and names) about a hand-written model of "
             "the whole path from the bytes of a binary XML file to the element tree - chunk headers, string pool in both "
             "encodings, resource map, chunk loop, name/namespace resolution, attribute formatting (the C27 model), tree "
             "construction, and the composition of the layers over whole documents (induction over chunk lists); model tied to the source by a differential run on documents serialised by an independent writer")
LEVEL_TEXT = ("Partial. Unbounded proof: for every element tree (any depth and width, any texts before, between and after "
              "children) the events of the tree in document order rebuild exactly that tree - element nesting, and every "
              "text in its place; printed attribute values contain only XML characters and clean values are unchanged; "
              "printed names contain only name characters; for every string pool chunk without styles - UTF-16 or UTF-8, any "
              "number of strings of valid code points, supplementary characters, one- and two-unit length prefixes, any "
              "padding - parsing the chunk and asking for string i returns exactly the i-th string; every node chunk written at "
              "any position of any buffer - element start with any number of 20-byte attribute records, element end, text, "
              "namespace start and end, and the resource map - is decoded to exactly its event (or state change) and the "
              "parser moves to the end of the chunk; any SEQUENCE of such chunks is decoded to exactly the sequence of its "
              "events, the parser's loop is the fold over them, and for the bytes of a whole document (header, pool, chunks) "
              "whose events resolve - through that pool - to the document-order events of a tree x, the parser returns x; "
              "and end to end, without any hypothesis about the model: every element tree whose element and attribute names "
              "are XML names as they stand - any shape and depth, any texts, any attributes in any namespace and of any value "
              "type (the formatted value of C27, cleaned; repeated keys overwrite), any namespace declarations around the "
              "root, either pool encoding - is parsed from its bytes to exactly that tree, without a resource map and with "
              "one in front (as aapt writes manifests: the name of an attribute the map covers is then the system attribute "
              "name of its resource id when the table knows it, else the name in the pool). Not proved: names that need "
              "repair (non-ASCII, leading digit, embedded prefix - the repair function has its own theorems), comments, "
              "styled pools - these are modelled and compared with the code, and with the document description, on every "
              "run.")
LEVEL_NOTE = ("Trusted: Coq kernel; coq/Axml/PoolModel.v (StringBlock; malformed UTF-8 outside the model), "
              "coq/Axml/AxmlModel.v (AXMLParser/AXMLPrinter; names restricted to ASCII because of str.isalpha, comments and a "
              "second root outside the model, the namespace map as 'last declaration of a prefix wins', lxml's Element as a "
              "record of tag, attribute list with overwrite, text, children, tail), coq/Misc/TermModel.v (ARSCHeader), "
              "coq/Axml/FormatValueModel.v (C27); the table of system attribute names is passed in by the harness; "
              "the harness tools/props/c26.py and tools/writers/axmlwriter.py, arscwriter.string_pool.")
TRUSTED = ["hand-written models coq/Axml/PoolModel.v, coq/Axml/AxmlModel.v (+ TermModel.v, FormatValueModel.v)",
           "correspondence harness tools/props/c26.py and the independent AXML writer tools/writers/axmlwriter.py"]

COQ_HEADER = "Require Import V.Axml.PoolModel V.Axml.AxmlModel."
AND = "http://schemas.android.com/apk/res/android"
APP = "http://schemas.android.com/apk/res-auto"
RESIDS = {"name": 0x01010003, "label": 0x01010001, "versionCode": 0x0101021B, "exported": 0x01010010, "theme": 0x01010000, "value": 0x01010024}
NAMES = ["manifest", "application", "activity", "a", "b", "meta-data", "x.y", "intent_filter", "item", "_root", "_", "A1"]
ATTRS = ["name", "label", "versionCode", "exported", "theme", "value", "package", "custom", "k-1", "_id", "_"]
TEXTS = ["foo", "bar", " ", "héllo", "x中", "a&b<c>", "\U0001F600", "中" * 50, "я" * 100, "a" * 130, "é" * 127 + "x",
         "No.\u4e00", "a\u0100b", "x\u3000y", "\u00e9\u0200", "\u0100a", "\u00a0", " \t "]       # a unit with low byte 0 after a unit with high byte 0


def rand_attr(rng, nss):
    nm = rng.choice(ATTRS)
    ns = rng.choice(nss) if nss and rng.random() < 0.7 else None
    r = rng.random()
    if r < 0.4:
        return (ns, nm, None, 3, rng.choice(["com.ex.App", ".Main", "", "vé", "@string/x", "a\x00b", "tab\there", "中文", "z" * 40, "文" * 43, "ж" * 64, "q" * 127, "q" * 128, "ü" * 200, "No.\u4e00", "k\u0300", "1\u0100"]))
    if r < 0.55:
        return (ns, nm, None, 0x10, rng.choice((0, 1, 7, 2**31 - 1, 2**31, 2**32 - 1)))
    if r < 0.65:
        return (ns, nm, None, 0x11, rng.choice((0, 0x1F, 0xFFFFFFFF, 0x7F010001)))
    if r < 0.75:
        return (ns, nm, None, 0x12, rng.choice((0, 1, 0xFFFFFFFF, 2)))
    if r < 0.87:
        return (ns, nm, None, 1, rng.choice((0x7F010001, 0x01040000, 0, 0x0101021B)))
    if r < 0.93:
        return (ns, nm, None, 2, rng.choice((0x7F010001, 0x01010000)))
    return (ns, nm, None, rng.choice((0x1C, 0x1D, 0x1E, 0x1F)), rng.choice((0xFF00FF00, 0x12345678, 0, 0xFFFFFFFF)))


def rand_el(rng, depth, nss):
    attrs, seen = [], set()
    for _ in range(rng.choice((0, 1, 2, 3, 5))):
        a = rand_attr(rng, nss)
        attrs.append(a)
    kids = []
    if depth < 3:
        for _ in range(rng.choice((0, 0, 1, 2, 3))):
            r = rng.random()
            if r < 0.3:
                kids.append(("text", rng.choice(TEXTS)))
            else:
                kids.append(rand_el(rng, depth + 1, nss))
    return ("el", rng.choice(nss) if nss and rng.random() < 0.15 else None, rng.choice(NAMES), attrs, kids)


def gen(rng, tier, ctx):
    """case = (nodes, utf8, use resource map)"""
    cases = []
    cases.append(([("ns", "android", AND, [("el", None, "a", [], [("text", "foo"), ("el", None, "b", [], []), ("text", "bar"), ("text", "baz"),
                                                                 ("el", None, "c", [(AND, "name", None, 3, ".X")], [("text", "in")]), ("text", "tail")])])], False, True))
    for _ in range(240 if tier == "thorough" else 50):
        nss = rng.choice(([], [AND], [AND], [AND, APP]))
        root = rand_el(rng, 0, nss)
        doc = [root]
        for uri in nss:
            doc = [("ns", {AND: "android", APP: "app"}[uri], uri, doc)]
        use_map = rng.random() < 0.7
        cases.append((doc, rng.random() < 0.5, use_map) + ((True,) if use_map and rng.random() < 0.3 else ()))     # True: the mapped names stripped from the pool
    return cases


def build(case):
    from tools.writers import axmlwriter as W
    doc, utf8, use_map = case[:3]
    raw, pool = W.build(doc, utf8=utf8, resmap=RESIDS if use_map else None, strip_mapped=len(case) > 3)
    return raw


def walk(e):
    return [[ord(c) for c in e.tag], [[[ord(c) for c in k], [ord(c) for c in v]] for k, v in e.attrib.items()],
            [ord(c) for c in (e.text or "")], [walk(k) for k in e], [ord(c) for c in (e.tail or "")]]


def impl(case):
    from androguard.core.axml import AXMLPrinter
    from androguard.core.resources import public
    raw = build(case)
    a = AXMLPrinter(raw)
    inv = public.SYSTEM_RESOURCES["attributes"]["inverse"]
    sysattr = [[i, [ord(c) for c in inv[i]]] for i in sorted(RESIDS.values()) if i in inv]
    root = a.get_xml_obj()
    tree = None if root is None else walk(root)
    xml = None if root is None else a.get_xml(pretty=False).decode("utf-8", "replace")
    again = None
    if root is not None:
        a.get_xml()                                   # the default, indented rendering: a getter, it must leave the tree alone
        again = walk(a.get_xml_obj())
    return {"valid": bool(a.is_valid()), "tree": tree, "tree_after_get_xml": again, "raw": raw, "sysattr": sysattr, "xml": xml}


def canon(res):
    return res["tree"]


def coq_input(case, res):
    return "(%s, %s)" % (coq_list(["(%s, %s)" % (z(i), zlist(s)) for i, s in res["sysattr"]]), zlist(list(res["raw"])))


# ---- the property, stated on the description ------------------------------------------------------------------------------
def fmt(atype, data):
    if atype == 3:
        return data
    if atype == 0x10:
        return str(data - 2**32 if data > 0x7FFFFFFF else data)
    if atype == 0x11:
        return "0x%08X" % data
    if atype == 0x12:
        return "false" if data == 0 else "true"
    if atype in (1, 2):
        return "%s%s%08X" % ("@" if atype == 1 else "?", "android:" if data >> 24 == 1 else "", data)
    if 0x1C <= atype <= 0x1F:
        return "#%08X" % data
    raise ValueError(atype)


def clean(v):
    if "\x00" in v:
        v = v[:v.index("\x00")]
    ok = lambda c: c in "\t\n\r" or 0x20 <= ord(c) <= 0xD7FF or 0xE000 <= ord(c) <= 0xFFFD or ord(c) >= 0x10000
    return "".join(c if ok(c) else "_" for c in v)


def expected(nodes):
    """the trees (a list: the element nodes of this level) with text/tail placed as XML does"""
    out = []
    for n in nodes:
        if n[0] == "ns":
            out += expected(n[3])
        elif n[0] == "el":
            _, ns, name, attrs, kids = n
            at = []
            for (ans, an, raw, ty, data) in attrs:
                key = ("{%s}" % ans if ans else "") + an
                val = clean(fmt(ty, data))
                for q in at:
                    if q[0] == key:
                        q[1] = val
                        break
                else:
                    at.append([key, val])
            text, children = "", []
            for k in kids:
                if k[0] == "text":
                    if children:
                        children[-1][4] += k[1]
                    else:
                        text += k[1]
                else:
                    children += expected([k])
            out.append([("{%s}" % ns if ns else "") + name, at, text, children, ""])
    return out


def enc(t):
    return [[ord(c) for c in t[0]], [[[ord(c) for c in k], [ord(c) for c in v]] for k, v in t[1]], [ord(c) for c in t[2]], [enc(k) for k in t[3]],
            [ord(c) for c in t[4]]]


def oracle(case, res):
    if isinstance(res, Err):
        return "AXMLPrinter failed: %s %s" % (res.name, res.msg[:150])
    want = expected(case[0])
    if len(want) != 1:
        return None
    if not res["valid"]:
        return "a well-formed document is reported as invalid"
    if res["tree"] != enc(want[0]):
        return "printed tree differs from the encoded document: %s" % res["xml"][:400]
    if res["tree_after_get_xml"] != res["tree"]:
        return "the tree differs after a call of get_xml(): %s" % res["xml"][:300]
    return None


def stats(cases, results):
    d = {"documents": len(cases), "utf8_pools": sum(1 for c in cases if c[1]), "with_resource_map": sum(1 for c in cases if c[2]), "mapped_names_stripped": sum(1 for c in cases if len(c) > 3), "elements": 0,
         "attributes": 0, "text_chunks": 0}

    def walk_(nodes):
        for n in nodes:
            if n[0] == "ns":
                walk_(n[3])
            elif n[0] == "el":
                d["elements"] += 1
                d["attributes"] += len(n[3])
                walk_(n[4])
            else:
                d["text_chunks"] += 1
    for c in cases:
        walk_(c[0])
    return d


STREAMS = [{"name": "documents", "gen": gen, "impl": impl, "canon": canon, "coq_header": COQ_HEADER, "coq_type": "list (Z * str) * list Z",
            "coq_input": lambda c: None, "coq_input_r": coq_input, "coq_obs": "obs_axml", "model_vo": "Axml/AxmlModel.vo", "pinned": False,
            "oracle": oracle, "stats": stats, "shard": 8, "case_timeout": 60}]
