"""C27 - resource values are formatted with Android's meaning."""
import struct
from fractions import Fraction

from tools.vlib.coqfmt import Err, z

ID = "C27"
TITLE = "Resource values are formatted with Android's meaning"
PROPS = "C27"
LEVEL = "proof"
DESIGN_REF = "DESIGN.md section 5, C27"
TECHNIQUE = ("Coq theorems (bit operations rewritten to div/mod and closed by lia, digit-rendering lemmas with their parsing "
             "inverses, a correct-rounding lemma for the six-decimal rendering of an exact fraction) about a hand-written model "
             "of format_value and complexToFloat in which every double is an exact dyadic fraction; model tied to the source by "
             "a differential run over every value type with boundary and random data, and through ARSC entries")
LEVEL_TEXT = ("Unbounded proof over all 2^32 data values: the modelled complexToFloat equals the AOSP definition (signed 24-bit "
              "mantissa times the radix multiplier) for every data word; a dimension or fraction is printed as that exact value "
              "(times 100 for fractions) correctly rounded to six decimals followed by its unit; decimal integers are printed as "
              "the signed 32-bit value; hex integers, colours, references and attributes as eight upper-case hex digits that "
              "denote the data word, references and attributes with the android: prefix exactly for package 1; booleans as "
              "false for 0 and true otherwise; floats as the correctly rounded six-decimal rendering of the IEEE single, inf and "
              "nan spelled out. The model is compared with the real format_value on every run.")
LEVEL_NOTE = ("Trusted: Coq kernel; coq/Axml/FormatValueModel.v as a rendering of format_value/complexToFloat: the doubles that "
              "occur (24-bit mantissa times 2^-8..2^-31, times 100; IEEE singles widened by struct.unpack('=f')) are exactly "
              "representable, so Python's arithmetic on them is exact and is modelled by exact fractions; '%f'/'{:f}' is modelled "
              "as correct rounding half-to-even (CPython's dtoa), '%d' '%X' '%08X' by coq/Lib/Fmt.v; unit indices 6..15 "
              "(dimension) and 2..15 (fraction) raise IndexError in the code and in the model and are outside the theorems; the "
              "harness tools/props/c27.py.")
TRUSTED = ["hand-written model coq/Axml/FormatValueModel.v and the rendering library coq/Lib/Fmt.v",
           "correspondence harness tools/props/c27.py (exact-rational statement of the Android meaning as oracle) and "
           "tools/writers/arscwriter.py for the stream through ARSC entries"]

COQ_HEADER = "Require Import V.Axml.FormatValueModel."
DIM_UNITS = ["px", "dip", "sp", "pt", "in", "mm"]
FRAC_UNITS = ["%", "%p"]
BOUND = [0, 1, 2, 0x7F, 0x80, 0xFF, 0x100, 0x101, 0x1FF, 0x7FFF, 0x8000, 0xFFFF, 0x10000, 0xFFFFFF, 0x1000000, 0x1000001,
         0x1FFFFFF, 0x2000000, 0x7F010001, 0x7FFFFF00, 0x7FFFFFFF, 0x80000000, 0x80000001, 0x80000100, 0xFFFFFB01,
         0xC0000030, 0xFFFFFF00, 0xFFFFFF01, 0xFFFFFFFF, 0x00000100, 0x00000130, 0x7FFFFF11, 0x00000001, 0x3F800000,
         0xBF800000, 0x7F800000, 0xFF800000, 0x7FC00000, 0xFFC00000, 0x7F800001, 0x00000001, 0x80000000, 0x007FFFFF,
         0x00800000, 0x7F7FFFFF, 0x4B000000, 0x4B800000, 0x4A7FFFFF, 0x3A83126F, 0x358637BD, 0x33D6BF95, 0x3F000000]
TYPES = [0, 1, 2, 3, 4, 5, 6, 7, 8, 0x0F, 0x10, 0x11, 0x12, 0x13, 0x1B, 0x1C, 0x1D, 0x1E, 0x1F, 0x20, 0x21, 0xFF]


def gen(rng, tier, ctx):
    cases = set()
    for t in TYPES:
        for d in BOUND:
            cases.add((t, d))
    n = 12000 if tier == "thorough" else 1500
    for _ in range(n):
        t = rng.choice(TYPES + [4, 5, 5, 5, 6, 6, 6, 0x10, 0x11, 1, 2])
        r = rng.random()
        if t in (5, 6):
            m = rng.choice((0, 1, 2, 0x7FFFFF, 0x800000, 0x800001, 0xFFFFFF, 0xFFFFFE, rng.randrange(1 << 24), rng.randrange(1 << 24),
                            rng.randrange(256), 0xFFFFFF - rng.randrange(256)))
            low = rng.randrange(256) if r < 0.6 else (rng.randrange(4) << 4) | rng.randrange(6 if t == 5 else 2)
            d = (m << 8) | low
        elif t == 4:
            e = rng.choice((0, 1, 2, 100, 103, 104, 105, 106, 107, 108, 120, 126, 127, 128, 130, 140, 149, 150, 151, 160, 200, 253, 254, 255))
            f = rng.choice((0, 1, 0x400000, 0x7FFFFF, rng.randrange(1 << 23), rng.randrange(1 << 23)))
            d = (rng.randrange(2) << 31) | (e << 23) | f
        elif r < 0.3:
            d = rng.choice(BOUND)
        elif r < 0.5:
            d = (rng.choice((0, 1, 2, 0x7F, 0x80, 0xFF)) << 24) | rng.randrange(1 << 24)
        else:
            d = rng.randrange(1 << 32)
        cases.add((t, d))
    return sorted(cases)


def impl(case):
    from androguard.core.axml import format_value
    return format_value(case[0], case[1])


def s32(d):
    return d - (1 << 32) if d >= (1 << 31) else d


def aosp_complex(d):
    """AOSP complex_to_float as an exact fraction: signed 24-bit mantissa, radix 23p0 / 16p7 / 8p15 / 0p23."""
    m = d >> 8
    if m >= 1 << 23:
        m -= 1 << 24
    return Fraction(m, (1, 1 << 7, 1 << 15, 1 << 23)[(d >> 4) & 3])


def six_decimals_ok(text, value):
    """text is [-]digits.dddddd and lies within half a unit of the sixth decimal of value"""
    import re
    if not re.fullmatch(r"-?[0-9]+\.[0-9]{6}", text):
        return False
    got = Fraction(text)
    if text.startswith("-") and value > 0 or (not text.startswith("-")) and value < 0:
        return False
    return abs(got - value) <= Fraction(1, 2000000)


def oracle(case, res):
    t, d = case
    if t == 5 and (d & 15) >= 6 or t == 6 and (d & 15) >= 2:
        return None                                   # unknown unit: outside the property (the code raises IndexError)
    if isinstance(res, Err):
        return "format_value(0x%02x, 0x%08x) raised %s" % (t, d, res.name)
    say = lambda want: "format_value(0x%02x, 0x%08x) = %r, Android's meaning is %s" % (t, d, res, want)
    if t == 3:
        return None if res == "<string>" else say("the string looked up")
    if t in (1, 2):
        want = ("@" if t == 1 else "?") + ("android:" if d >> 24 == 1 else "") + "%08X" % d
        return None if res == want else say(want)
    if t == 4:
        v = struct.unpack("<f", struct.pack("<I", d))[0]
        if v != v:
            return None if res == "nan" else say("nan")
        if v in (float("inf"), float("-inf")):
            return None if res == ("inf" if v > 0 else "-inf") else say("infinite")
        ok = six_decimals_ok(res, Fraction(v)) and (res.startswith("-") == (d >> 31 == 1))
        return None if ok else say("the IEEE single %r to six decimals" % v)
    if t == 0x11:
        return None if res == "0x%08X" % d else say("0x%08X" % d)
    if t == 0x12:
        return None if res == ("false" if d == 0 else "true") else say("false for 0, true otherwise")
    if t == 5:
        u = DIM_UNITS[d & 15]
        v = aosp_complex(d)
        ok = res.endswith(u) and six_decimals_ok(res[:-len(u)], v)
        return None if ok else say("%s%s (exactly %s)" % (float(v), u, v))
    if t == 6:
        u = FRAC_UNITS[d & 15]
        v = aosp_complex(d) * 100
        ok = res.endswith(u) and six_decimals_ok(res[:len(res) - len(u)], v) and not res[:len(res) - len(u)].endswith("%")
        return None if ok else say("%s%s (exactly %s)" % (float(v), u, v))
    if 0x1C <= t <= 0x1F:
        return None if res == "#%08X" % d else say("#%08X" % d)
    if 0x10 <= t <= 0x1F:
        return None if res == "%d" % s32(d) else say("%d" % s32(d))
    return None


def stats(cases, results):
    d = {}
    for (t, v), r in zip(cases, results):
        k = "type=0x%02x" % t + ("/err" if isinstance(r, Err) else "")
        if t in (5, 6):
            k += "/neg" if v >> 31 else "/pos"
        d[k] = d.get(k, 0) + 1
    return d


# ---- stream 2: the same formatting reached through ARSC entries (ARSCResStringPoolRef.format_value) ----------------------
def gen_arsc(rng, tier, ctx):
    cases = []
    for _ in range(40 if tier == "thorough" else 6):
        ents = []
        for i in range(40):
            t = rng.choice((1, 2, 4, 5, 6, 0x10, 0x11, 0x12, 0x1C, 0x1D, 0x1E, 0x1F, 0x13))
            if t in (5, 6):
                d = (rng.choice((0x800000, 0xFFFFFF, 0x7FFFFF, 1, rng.randrange(1 << 24))) << 8) | (rng.randrange(4) << 4) | rng.randrange(6 if t == 5 else 2)
            elif t in (1, 2):
                d = rng.choice((0x01010000 | rng.randrange(1 << 16), 0x02000000 | rng.randrange(1 << 16)))   # never resolvable here
            else:
                d = rng.choice(BOUND + [rng.randrange(1 << 32)])
            ents.append((t, d))
        cases.append(ents)
    return cases


def impl_arsc(case):
    from tools.writers.arscwriter import Table, Config, Simple
    from androguard.core.axml import ARSCParser
    t = Table(package="com.ex")
    ids = []
    for i, (ty, d) in enumerate(case):
        ids.append(t.add_entry("vals", i, "k%d" % i, Config(), Simple(ty, d)))
    p = ARSCParser(t.build())
    out = []
    p._analyse()
    for rid, (ty, d) in zip(ids, case):
        ate = list(p.resource_values[rid].values())[0]
        out.append(ate.key.format_value())
    return out


def oracle_arsc(case, res):
    if isinstance(res, Err):
        return "ARSC stream failed: %s %s" % (res.name, res.msg[:100])
    for (t, d), r in zip(case, res):
        why = oracle((t, d), r)
        if why:
            return "ARSCResStringPoolRef.format_value: " + why
    return None


# ---- stream 3: ARSCParser.get_resource_dimen / get_resource_color (decided by the Android meaning directly) ----------------
def gen_dimen(rng, tier, ctx):
    cases = []
    for _ in range(30 if tier == "thorough" else 5):
        ents = []
        for i in range(60):
            if rng.random() < 0.7:
                m = rng.choice((0x800000, 0xFFFFFF, 0x7FFFFF, 1, 0, 0xFFFFFB, rng.randrange(1 << 24)))
                ents.append((5, (m << 8) | (rng.randrange(4) << 4) | rng.randrange(6)))
            else:
                ents.append((0x1C, rng.choice(BOUND + [rng.randrange(1 << 32)])))
        cases.append(ents)
    return cases


def impl_dimen(case):
    from tools.writers.arscwriter import Table, Config, Simple
    from androguard.core.axml import ARSCParser
    t = Table(package="com.ex")
    ids = [t.add_entry("vals", i, "k%d" % i, Config(), Simple(ty, d)) for i, (ty, d) in enumerate(case)]
    p = ARSCParser(t.build())
    p._analyse()
    out = []
    for rid, (ty, d) in zip(ids, case):
        ate = list(p.resource_values[rid].values())[0]
        out.append((p.get_resource_dimen(ate) if ty == 5 else p.get_resource_color(ate))[1])
    return out


def oracle_dimen(case, res):
    import re
    if isinstance(res, Err):
        return "ARSC dimen/color stream failed: %s %s" % (res.name, res.msg[:100])
    for (ty, d), r in zip(case, res):
        if ty == 5:
            u = DIM_UNITS[d & 15]
            v = aosp_complex(d)
            m = re.fullmatch(r"(-?[0-9.e+-]+)" + u, str(r))
            if not m or Fraction(float(m.group(1))) != v:
                return "get_resource_dimen of 0x%08x gives %r, Android's meaning is %s%s" % (d, r, float(v), u)
        else:
            if not (isinstance(r, str) and re.fullmatch(r"#[0-9a-f]{8}", r) and int(r[1:], 16) == d):
                return "get_resource_color of 0x%08x gives %r" % (d, r)
    return None


STREAMS = [
    {"name": "format_value", "gen": gen, "impl": impl, "coq_header": COQ_HEADER, "coq_type": "Z * Z",
     "coq_input": lambda c: "(%s, %s)" % (z(c[0]), z(c[1])), "coq_obs": "obs_format",
     "model_vo": "Axml/FormatValueModel.vo", "pinned": False, "oracle": oracle, "stats": stats, "shard": 400},
    {"name": "arsc-entries", "gen": gen_arsc, "impl": impl_arsc, "coq_header": COQ_HEADER, "coq_type": "list (Z * Z)",
     "coq_input": lambda c: "[" + "; ".join("(%s, %s)" % (z(t), z(d)) for t, d in c) + "]",
     "coq_obs": "(fun l => VList (map obs_format l))", "model_vo": "Axml/FormatValueModel.vo", "pinned": False,
     "oracle": oracle_arsc},
    {"name": "arsc-dimen-color", "gen": gen_dimen, "impl": impl_dimen, "oracle": oracle_dimen},
]
