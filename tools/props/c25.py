"""C25 - merged short-circuit conditions route control as the original branches did."""
import itertools
import re

from tools.vlib.coqfmt import Err, z, coq_bool

ID = "C25"
TITLE = "Merged short-circuit conditions route control as the original branches did"
PROPS = "C25"
LEVEL = "proof"
DESIGN_REF = "DESIGN.md section 5, C25"
TECHNIQUE = ("Coq theorems by structural induction on the condition tree (negation is an involution and complements the "
             "printed truth value, for any nesting and any pending negations) and by case analysis on the four merge cases "
             "(routing preserved for every assignment, whatever the operands are); about a hand-written model of "
             "Condition.neg, of the print-time negation of Writer.visit_short_circuit_condition, of the merge cases of "
             "short_circuit_struct and of the negate-and-swap step of Writer.visit_cond_node; model tied to the source by "
             "running the real merge and the real Writer on every chain of two and three conditional nodes and evaluating "
             "the printed text under every truth assignment")
LEVEL_TEXT = ("Unbounded proof: for every condition tree (any depth, any mix of && and ||, any pending negations) and every "
              "assignment of the comparisons, the negated tree prints a condition with the complementary truth value, and "
              "negating twice gives the tree back; printing by 'negate the first operand in place, then print' has the "
              "truth value of the declarative reading; each of the four merge cases, applied to any two conditional nodes "
              "with any operands and any successors, routes every assignment to the successor the original two nodes "
              "route it to; negating a node and swapping its successors does not change the routing. The graph "
              "bookkeeping of short_circuit_struct (post order, predecessor counts, node_map) is not modelled: the merged "
              "graphs are taken from the real code on every run and their printed conditions are evaluated.")
LEVEL_NOTE = ("Trusted: Coq kernel; coq/Dad/ShortCircuitModel.v as a rendering of Condition/ShortCircuitBlock.neg, of the "
              "meaning of a printed condition (Java's !, &&, ||, with the parentheses the writer emits), of the merge cases "
              "and of visit_cond_node's negation; the harness tools/props/c25.py (graph construction, extraction of the "
              "Condition trees, a small evaluator of the printed text).")
TRUSTED = ["hand-written model coq/Dad/ShortCircuitModel.v", "correspondence harness tools/props/c25.py (evaluator of the printed condition text)"]

COQ_HEADER = "Require Import V.Dad.ShortCircuitModel."
NEXITS = 3


def all_specs(n):
    targets = list(range(n)) + ["X%d" % k for k in range(NEXITS)]

    def ok(spec):
        seen, todo = {0}, [0]
        while todo:
            for t in spec[todo.pop()]:
                if isinstance(t, int) and t not in seen:
                    seen.add(t)
                    todo.append(t)
        if len(seen) != n:
            return False

        def dag(v, stack):
            return v not in stack and all(dag(t, stack | {v}) for t in spec[v] if isinstance(t, int))
        return dag(0, frozenset())
    for combo in itertools.product(itertools.product(targets, repeat=2), repeat=n):
        if ok(combo):
            yield [list(x) for x in combo]


def gen(rng, tier, ctx):
    two = list(all_specs(2))
    three = list(all_specs(3))
    if tier != "thorough":
        three = rng.sample(three, 260)
    cases = [(2, s) for s in two] + [(3, s) for s in three]
    # the same chains inside an exception handler (every block in_catch, or every block but the first)
    cases += [(2, s, k) for s in two for k in (1, 2)] + [(3, s, rng.choice((1, 2))) for s in three[::3]]
    return cases


def envs(n):
    """the order of ShortCircuitModel.envs"""
    out = [[]]
    for _ in range(n):
        out = [x for e in out for x in ([False] + e, [True] + e)]
    return out


def build(spec, in_catch=0):
    from androguard.decompiler.basic_blocks import CondBlock, ReturnBlock
    from androguard.decompiler.control_flow import short_circuit_struct
    from androguard.decompiler.graph import Graph
    from androguard.decompiler.instruction import ConditionalZExpression, Constant, Param, ReturnInstruction
    g = Graph()
    conds = [CondBlock("c%d" % i, [ConditionalZExpression("!=", Param("c%d" % i, "I"))]) for i in range(len(spec))]
    exits = {"X%d" % k: ReturnBlock("X%d" % k, [ReturnInstruction(Constant(k, "I"))]) for k in range(NEXITS)}
    node = lambda t: conds[t] if isinstance(t, int) else exits[t]
    for x in conds + list(exits.values()):
        g.add_node(x)
    for i, (t, f) in enumerate(spec):
        conds[i].true, conds[i].false = node(t), node(f)
        g.add_edge(conds[i], node(t))
        g.add_edge(conds[i], node(f))
    g.entry = conds[0]
    for k, x in enumerate(conds + list(exits.values())):
        if in_catch == 1 or (in_catch == 2 and k > 0):
            x.in_catch = True
    g.compute_rpo()
    short_circuit_struct(g, g.immediate_dominators(), {})
    return g


def cond_tree(n):
    from androguard.decompiler.basic_blocks import ShortCircuitBlock
    if isinstance(n, ShortCircuitBlock):
        c = n.cond
        return ["sc", cond_tree(c.cond1), cond_tree(c.cond2), bool(c.isand), bool(c.isnot)]
    ins = n.get_ins()[-1]
    return ["leaf", int(n.name[1:]), {"!=": False, "==": True}[ins.op]]


def graph_tree(n):
    if not n.type.is_cond:
        return ["exit", int(n.name[1:])]
    return ["node", cond_tree(n), graph_tree(n.true), graph_tree(n.false)]


def cond_nodes(n, out):
    """the conditional nodes in the order of ShortCircuitModel.conds_of (tree unfolding from the entry)"""
    if n.type.is_cond:
        out.append(n)
        cond_nodes(n.true, out)
        cond_nodes(n.false, out)
    return out


def evaluate(text, env):
    e = re.sub(r"pc(\d) != 0", lambda m: " %s " % env[int(m.group(1))], text)
    e = re.sub(r"pc(\d) == 0", lambda m: " %s " % (not env[int(m.group(1))]), e)
    e = e.replace("&&", " and ").replace("||", " or ").replace("!", " not ")
    return bool(eval(e, {}))


def routes(g, n, negate):
    from androguard.decompiler.writer import Writer
    table = {}
    for x in list(g.nodes):
        if x.type.is_cond:
            if negate:
                x.neg()
                x.true, x.false = x.false, x.true
    struct = [cond_tree(x) for x in (cond_nodes_swapped(g.entry, []) if negate else cond_nodes(g.entry, []))]
    for x in list(g.nodes):
        if x.type.is_cond:
            w = Writer(g, None)
            x.visit_cond(w)
            table[x] = (str(w), x.true, x.false)
    out = []
    for env in envs(n):
        cur = g.entry
        while cur.type.is_cond:
            text, t, f = table[cur]
            cur = t if evaluate(text, env) else f
        out.append(int(cur.name[1:]))
    return out, struct, sorted(t for t, _, _ in table.values())


def cond_nodes_swapped(n, out):
    """the same unfolding order on a graph whose successors have been swapped"""
    if n.type.is_cond:
        out.append(n)
        cond_nodes_swapped(n.false, out)
        cond_nodes_swapped(n.true, out)
    return out


def whole_if(spec, n):
    """the real writer prints the if statement of a fully merged chain and decides itself to negate"""
    from androguard.decompiler.basic_blocks import ShortCircuitBlock
    from androguard.decompiler.writer import Writer
    g = build(spec)
    e = g.entry
    if not isinstance(e, ShortCircuitBlock) or e.true.type.is_cond or e.false.type.is_cond or e.true is e.false:
        return None
    e.follow["if"] = e.true
    w = Writer(g, None)
    w.visit_node(e)
    src = str(w)
    m = re.search(r"if \((.*)\) \{\n\s*return (\d+);\n\s*\}\n\s*return (\d+);", src)
    if m is None:
        return [src, None]
    return [src, [(int(m.group(2)) if evaluate(m.group(1), env) else int(m.group(3))) for env in envs(n)]]


def impl(case):
    n, spec = case[:2]
    ic = case[2] if len(case) > 2 else 0
    g = build(spec, ic)
    tree = graph_tree(g.entry)
    plain, _, texts = routes(g, n, False)
    g2 = build(spec, ic)
    negated, neg_struct, texts2 = routes(g2, n, True)
    return {"tree": tree, "plain": plain, "negated": negated, "neg_struct": neg_struct, "texts": texts, "texts_negated": texts2,
            "writer": whole_if(spec, n) if not ic else None}


def vcond(c):
    return [c[1], c[2]] if c[0] == "leaf" else [vcond(c[1]), vcond(c[2]), c[3], c[4]]


def canon(res):
    return [res["plain"], res["negated"], True, [vcond(c) for c in res["neg_struct"]]]


def coq_cond(c):
    if c[0] == "leaf":
        return "(Leaf %s %s)" % (z(c[1]), coq_bool(c[2]))
    return "(SC %s %s %s %s)" % (coq_cond(c[1]), coq_cond(c[2]), coq_bool(c[3]), coq_bool(c[4]))


def coq_cfg(t):
    if t[0] == "exit":
        return "(Exit %s)" % z(t[1])
    return "(Node %s %s %s)" % (coq_cond(t[1]), coq_cfg(t[2]), coq_cfg(t[3]))


def original(spec, env):
    cur = 0
    while isinstance(cur, int):
        cur = spec[cur][0] if env[cur] else spec[cur][1]
    return int(cur[1:])


def oracle(case, res):
    n, spec = case[:2]
    if isinstance(res, Err):
        return "merging or printing failed: %s %s" % (res.name, res.msg[:150])
    want = [original(spec, env) for env in envs(n)]
    for what, got, texts in (("printed as merged", res["plain"], res["texts"]), ("printed after neg() and swap", res["negated"], res["texts_negated"])):
        if got != want:
            k = next(i for i in range(len(want)) if got[i] != want[i])
            return "chain %s (node -> [true, false]), conditions %s %s: with outcomes %s the original chain goes to X%d, the printed conditions go to X%d" % (
                spec, what, texts, envs(n)[k], want[k], got[k])
    if res["writer"] is not None:
        src, got = res["writer"]
        if got is None:
            return "the writer's if statement has an unexpected shape: %r" % src
        if got != want:
            k = next(i for i in range(len(want)) if got[i] != want[i])
            return "chain %s: the if statement the writer prints (%r) sends outcomes %s to X%d, the original chain to X%d" % (
                spec, src, envs(n)[k], got[k], want[k])
    return None


def stats(cases, results):
    d = {"chains": len(cases), "inside_a_catch_handler": sum(1 for c in cases if len(c) > 2), "two_node": sum(1 for c in cases if c[0] == 2), "three_node": sum(1 for c in cases if c[0] == 3),
         "merged_blocks": 0, "nested_conditions": 0, "with_pending_negation": 0, "writer_statements": 0}

    def walk(c):
        if c[0] == "sc":
            d["merged_blocks"] += 1
            d["nested_conditions"] += c[1][0] == "sc" or c[2][0] == "sc"
            d["with_pending_negation"] += bool(c[4])
            walk(c[1]); walk(c[2])
    for r in results:
        if isinstance(r, Err):
            continue
        for c in r["neg_struct"]:
            walk(c)
        d["writer_statements"] += r["writer"] is not None
    return d


STREAMS = [{"name": "chains", "gen": gen, "impl": impl, "canon": canon, "coq_header": COQ_HEADER, "coq_type": "Z * cfg",
            "coq_input": lambda c: None, "coq_input_r": lambda c, r: "(%s, %s)" % (z(c[0]), coq_cfg(r["tree"])), "coq_obs": "obs_sc",
            "model_vo": "Dad/ShortCircuitModel.vo", "pinned": False, "oracle": oracle, "stats": stats, "shard": 60}]
