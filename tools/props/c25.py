"""C25 - merged short-circuit conditions route control as the original branches did."""
import itertools
import re

from tools.vlib.coqfmt import Err, z, coq_bool, coq_list

ID = "C25"
TITLE = "Merged short-circuit conditions route control as the original branches did"
PROPS = "C25"
LEVEL = "proof"
DESIGN_REF = "DESIGN.md section 5, C25"
TECHNIQUE = ("Coq theorems by structural induction on the condition tree (negation is an involution and complements the "
             "printed truth value, for any nesting and any pending negations), by case analysis on the four merge cases, and "
             "by strong induction on the length of walks for the merge on graphs (a simulation in both directions between "
             "the graph before and after a merge); about a hand-written model of Condition.neg, of the print-time negation of "
             "Writer.visit_short_circuit_condition, of short_circuit_struct as a whole (graph with handler marks, live flags "
             "and edge order, the precondition entered_from_one_block, MergeNodes with its re-pointing of the visible "
             "predecessors, post-order driver, passes until nothing changes) and of the negate-and-swap step of "
             "Writer.visit_cond_node; model tied to the source by running the model's driver and the real "
             "short_circuit_struct on the same chains and comparing the merged structures they leave behind")
LEVEL_TEXT = ("Unbounded proof: for every condition tree (any depth, any mix of && and ||, any pending negations) and every "
              "assignment of the comparisons, the negated tree prints a condition with the complementary truth value, and "
              "negating twice gives the tree back; printing by 'negate the first operand in place, then print' has the "
              "truth value of the declarative reading; negating a node and swapping its successors does not change the "
              "routing; and ON GRAPHS: for every graph of conditional blocks (any shape, loops and shared successors "
              "included, blocks of exception handlers, blocks already merged away that are still pointed at), whichever of "
              "the four merge cases applies at a block under the precondition the code tests, every walk from every block "
              "reaches the same exit before and after the merge and the merged graph has no further walks; with the "
              "precondition of the code before the repair db98cb62 the statement is false (witness evaluated in the "
              "kernel). The driver (post order, the if/elif of the cases, passes until nothing changes) is part of the "
              "model: for every chain of two and three conditions exhaustively, and for random chains of up to five with "
              "any pattern of handler blocks, the structure it computes is the structure the real code leaves behind, "
              "and the printed conditions are evaluated under every assignment. The passes AS A WHOLE are proved too "
              "(Dad/ShortCircuitSound.v, struct_keeps_walks): started on any graph whose edge lists agree with its pointers, "
              "with unused block ids from some m on and an entry nothing points at, whatever the driver merges in however "
              "many passes, a walk from the entry of the result ends at an exit exactly when a walk from the original entry "
              "does - the invariants (edges, unused ids, entry without predecessors) are shown to be kept from one merge "
              "to the next; every chain whose targets are blocks other than block 0 or exits - all the chains the stream runs - meets the "
              "hypotheses (chain_hypotheses), so the graph and entry that obs_struct observes have the walks of the chain "
              "(struct_keeps_chain_walks), a walk of the result never being longer than the walk of the chain; hence the route "
              "obs_struct computes for an assignment - the result unfolded (blocks + 2) deep - is the chain's exit whenever the "
              "chain ends within (blocks + 1) steps (observed_route_is_the_chains). Outside the model (its "
              "leaf is an abstract comparison): the same chains over every kind of comparison a block can hold (zero tests "
              "with all six operators, boolean and null tests, two-register tests, cmp-long / cmpl / cmpg results tested "
              "against zero), evaluated with operand values under Java's precedence; and compound conditions (random "
              "mixes of &&, || and !) compiled to branch chains as if statements and do-while exits, taken through the "
              "whole decompiler, javac and a JVM and compared with the bytecode's own result.")
LEVEL_NOTE = ("Trusted: Coq kernel; coq/Dad/ShortCircuitModel.v, ShortCircuitGraph.v, ShortCircuitDriver.v as a rendering of "
              "Condition/ShortCircuitBlock.neg, of the meaning of a printed condition (Java's !, &&, ||, with the parentheses "
              "the writer emits), of short_circuit_struct / MergeNodes / Graph.preds / Graph.post_order and of "
              "visit_cond_node's negation; the harness tools/props/c25.py (graph construction, extraction of the Condition "
              "trees, a small evaluator of the printed text; blocks removed from the graph but still pointed at by a "
              "handler block are followed as they stand, their comparison - shared with the merged block - negated once).")
TRUSTED = ["hand-written model coq/Dad/ShortCircuitModel.v", "correspondence harness tools/props/c25.py (evaluator of the printed condition text)"]

COQ_HEADER = "Require Import V.Dad.ShortCircuitModel V.Dad.ShortCircuitGraph V.Dad.ShortCircuitDriver."
NEXITS = 3


def all_specs(n):
    targets = list(range(n)) + ["X%d" % k for k in range(NEXITS)]

    def ok(spec):
        seen, todo = {0}, [0]
        while todo:
            for t in spec[todo.pop()]:
                if isinstance(t, int) and t not in seen:
                    seen.add(t)
                    todo.append(t)
        if len(seen) != n:
            return False

        def dag(v, stack):
            return v not in stack and all(dag(t, stack | {v}) for t in spec[v] if isinstance(t, int))
        return dag(0, frozenset())
    for combo in itertools.product(itertools.product(targets, repeat=2), repeat=n):
        if ok(combo):
            yield [list(x) for x in combo]


def gen(rng, tier, ctx):
    two = list(all_specs(2))
    three = list(all_specs(3))
    if tier != "thorough":
        three = rng.sample(three, 260)
    cases = [(2, s) for s in two] + [(3, s) for s in three]
    # the same chains inside an exception handler (every block in_catch, or every block but the first)
    cases += [(2, s, k) for s in two for k in (1, 2)] + [(3, s, rng.choice((1, 2))) for s in three[::3]]
    # longer chains (four and five conditions, random DAGs) and any pattern of blocks inside handlers
    for _ in range(400 if tier == "thorough" else 60):
        n = rng.choice((3, 4, 4, 5))
        spec = []
        for i in range(n):
            later = list(range(i + 1, n)) + ["X%d" % k for k in range(NEXITS)]
            spec.append([rng.choice(later if rng.random() < 0.9 else ["X0", "X1"]), rng.choice(later)])
        for j in range(1, n):                       # every block gets a predecessor among the earlier ones
            if not any(j in spec[i] for i in range(j)):
                spec[rng.randrange(j)][rng.randrange(2)] = j
        flags = 0
        if rng.random() < 0.6:                      # as construct() marks them: the entry never; a handler entry (random); a block all of whose predecessors are marked
            flags = [False] + [rng.random() < 0.3 for _ in range(n - 1)]
            for j in range(1, n):
                if all(flags[i] for i in range(j) if j in spec[i]):
                    flags[j] = True
        cases.append((n, spec, flags))
    return cases


def envs(n):
    """the order of ShortCircuitModel.envs"""
    out = [[]]
    for _ in range(n):
        out = [x for e in out for x in ([False] + e, [True] + e)]
    return out


def build(spec, in_catch=0):
    from androguard.decompiler.basic_blocks import CondBlock, ReturnBlock
    from androguard.decompiler.control_flow import short_circuit_struct
    from androguard.decompiler.graph import Graph
    from androguard.decompiler.instruction import ConditionalZExpression, Constant, Param, ReturnInstruction
    g = Graph()
    conds = [CondBlock("c%d" % i, [ConditionalZExpression("!=", Param("c%d" % i, "I"))]) for i in range(len(spec))]
    exits = {"X%d" % k: ReturnBlock("X%d" % k, [ReturnInstruction(Constant(k, "I"))]) for k in range(NEXITS)}
    node = lambda t: conds[t] if isinstance(t, int) else exits[t]
    for x in conds + list(exits.values()):
        g.add_node(x)
    for i, (t, f) in enumerate(spec):
        conds[i].true, conds[i].false = node(t), node(f)
        g.add_edge(conds[i], node(t))
        g.add_edge(conds[i], node(f))
    g.entry = conds[0]
    for k, x in enumerate(conds + list(exits.values())):
        if isinstance(in_catch, list):
            x.in_catch = k < len(in_catch) and in_catch[k]
        elif in_catch == 1 or (in_catch == 2 and k > 0):
            x.in_catch = True
    g.compute_rpo()
    short_circuit_struct(g, g.immediate_dominators(), {})
    return g


def cond_tree(n):
    from androguard.decompiler.basic_blocks import ShortCircuitBlock
    if isinstance(n, ShortCircuitBlock):
        c = n.cond
        return ["sc", cond_tree(c.cond1), cond_tree(c.cond2), bool(c.isand), bool(c.isnot)]
    ins = n.get_ins()[-1]
    return ["leaf", int(n.name[1:]), {"!=": False, "==": True}[ins.op]]


def graph_tree(n):
    if not n.type.is_cond:
        return ["exit", int(n.name[1:])]
    return ["node", cond_tree(n), graph_tree(n.true), graph_tree(n.false)]


def cond_nodes(n, out):
    """the conditional nodes in the order of ShortCircuitModel.conds_of (tree unfolding from the entry)"""
    if n.type.is_cond:
        out.append(n)
        cond_nodes(n.true, out)
        cond_nodes(n.false, out)
    return out


def evaluate(text, env):
    e = re.sub(r"pc(\d) != 0", lambda m: " %s " % env[int(m.group(1))], text)
    e = re.sub(r"pc(\d) == 0", lambda m: " %s " % (not env[int(m.group(1))]), e)
    e = e.replace("&&", " and ").replace("||", " or ").replace("!", " not ")
    return bool(eval(e, {}))


def routes(g, n, negate):
    from androguard.decompiler.writer import Writer
    from androguard.decompiler.basic_blocks import ShortCircuitBlock
    table = {}
    negated = set()           # blocks whose comparison has been negated in place, directly or as part of a merged condition

    def parts(x):
        out = [x]
        if isinstance(x, ShortCircuitBlock):
            out += parts(x.cond.cond1) + parts(x.cond.cond2)
        return out

    def neg_swap(x):
        if x not in negated:      # a removed block shares its comparison with the merged block it went into: negate once
            x.neg()
            negated.update(parts(x))
        x.true, x.false = x.false, x.true
    for x in list(g.nodes):
        if x.type.is_cond:
            if negate:
                neg_swap(x)
    struct = [cond_tree(x) for x in (cond_nodes_swapped(g.entry, []) if negate else cond_nodes(g.entry, []))]
    # blocks that were merged away and removed from the graph but are still pointed at by a block of an exception handler
    # (MergeNodes re-points the visible predecessors only) are printed first, as they stand: printing a merged block with
    # isnot negates its first part in place (Writer.visit_short_circuit_condition), and that part is the comparison the
    # removed block still shares; the decompiler itself does not print the removed block after the merged one
    ghosts, seen, todo = [], set(), [g.entry]
    in_graph = set(g.nodes)
    while todo:
        x = todo.pop()
        if x in seen or not x.type.is_cond:
            continue
        seen.add(x)
        if x not in in_graph:
            ghosts.append(x)
        todo += [x.true, x.false]
    for x in ghosts:
        if negate:
            neg_swap(x)
        w = Writer(g, None)
        x.visit_cond(w)
        table[x] = (str(w), x.true, x.false)
    for x in list(g.nodes):
        if x.type.is_cond:
            w = Writer(g, None)
            x.visit_cond(w)
            table[x] = (str(w), x.true, x.false)
    out = []
    for env in envs(n):
        cur = g.entry
        while cur.type.is_cond:
            if cur not in table:
                # a block that was merged away and removed from the graph, still pointed at by a block of an exception
                # handler (MergeNodes re-points the visible predecessors only): it is printed and followed as it stands
                if negate:
                    neg_swap(cur)
                w = Writer(g, None)
                cur.visit_cond(w)
                table[cur] = (str(w), cur.true, cur.false)
            text, t, f = table[cur]
            cur = t if evaluate(text, env) else f
        out.append(int(cur.name[1:]))
    return out, struct, sorted(t for t, _, _ in table.values())


def cond_nodes_swapped(n, out):
    """the same unfolding order on a graph whose successors have been swapped"""
    if n.type.is_cond:
        out.append(n)
        cond_nodes_swapped(n.false, out)
        cond_nodes_swapped(n.true, out)
    return out


def whole_if(spec, n):
    """the real writer prints the if statement of a fully merged chain and decides itself to negate"""
    from androguard.decompiler.basic_blocks import ShortCircuitBlock
    from androguard.decompiler.writer import Writer
    g = build(spec)
    e = g.entry
    if not isinstance(e, ShortCircuitBlock) or e.true.type.is_cond or e.false.type.is_cond or e.true is e.false:
        return None
    e.follow["if"] = e.true
    w = Writer(g, None)
    w.visit_node(e)
    src = str(w)
    m = re.search(r"if \((.*)\) \{\n\s*return (\d+);\n\s*\}\n\s*return (\d+);", src)
    if m is None:
        return [src, None]
    return [src, [(int(m.group(2)) if evaluate(m.group(1), env) else int(m.group(3))) for env in envs(n)]]


def impl(case):
    n, spec = case[:2]
    ic = case[2] if len(case) > 2 else 0
    g = build(spec, ic)
    tree = graph_tree(g.entry)
    plain, _, texts = routes(g, n, False)
    g2 = build(spec, ic)
    negated, neg_struct, texts2 = routes(g2, n, True)
    return {"tree": tree, "plain": plain, "negated": negated, "neg_struct": neg_struct, "texts": texts, "texts_negated": texts2,
            "writer": whole_if(spec, n) if not ic else None}


def vcond(c):
    return [c[1], c[2]] if c[0] == "leaf" else [vcond(c[1]), vcond(c[2]), c[3], c[4]]


def canon(res):
    return [res["plain"], res["negated"], True, [vcond(c) for c in res["neg_struct"]]]


def coq_cond(c):
    if c[0] == "leaf":
        return "(Leaf %s %s)" % (z(c[1]), coq_bool(c[2]))
    return "(SC %s %s %s %s)" % (coq_cond(c[1]), coq_cond(c[2]), coq_bool(c[3]), coq_bool(c[4]))


def coq_cfg(t):
    if t[0] == "exit":
        return "(Exit %s)" % z(t[1])
    return "(Node %s %s %s)" % (coq_cond(t[1]), coq_cfg(t[2]), coq_cfg(t[3]))


def original(spec, env):
    cur = 0
    while isinstance(cur, int):
        cur = spec[cur][0] if env[cur] else spec[cur][1]
    return int(cur[1:])


def oracle(case, res):
    n, spec = case[:2]
    if isinstance(res, Err):
        return "merging or printing failed: %s %s" % (res.name, res.msg[:150])
    want = [original(spec, env) for env in envs(n)]
    for what, got, texts in (("printed as merged", res["plain"], res["texts"]), ("printed after neg() and swap", res["negated"], res["texts_negated"])):
        if got != want:
            k = next(i for i in range(len(want)) if got[i] != want[i])
            return "chain %s (node -> [true, false]), conditions %s %s: with outcomes %s the original chain goes to X%d, the printed conditions go to X%d" % (
                spec, what, texts, envs(n)[k], want[k], got[k])
    if res["writer"] is not None:
        src, got = res["writer"]
        if got is None:
            return "the writer's if statement has an unexpected shape: %r" % src
        if got != want:
            k = next(i for i in range(len(want)) if got[i] != want[i])
            return "chain %s: the if statement the writer prints (%r) sends outcomes %s to X%d, the original chain to X%d" % (
                spec, src, envs(n)[k], got[k], want[k])
    return None


def stats(cases, results):
    d = {"chains": len(cases), "inside_a_catch_handler": sum(1 for c in cases if len(c) > 2), "two_node": sum(1 for c in cases if c[0] == 2), "three_node": sum(1 for c in cases if c[0] == 3), "four_and_five_node": sum(1 for c in cases if c[0] > 3),
         "merged_blocks": 0, "nested_conditions": 0, "with_pending_negation": 0, "writer_statements": 0}

    def walk(c):
        if c[0] == "sc":
            d["merged_blocks"] += 1
            d["nested_conditions"] += c[1][0] == "sc" or c[2][0] == "sc"
            d["with_pending_negation"] += bool(c[4])
            walk(c[1]); walk(c[2])
    for r in results:
        if isinstance(r, Err):
            continue
        for c in r["neg_struct"]:
            walk(c)
        d["writer_statements"] += r["writer"] is not None
    return d


def coq_chain(case):
    """the chain itself: per block (true target, false target, in a handler?); exits are -1 - k (negative, so that no block the passes create can collide with one)"""
    n, spec = case[:2]
    ic = case[2] if len(case) > 2 else 0
    tg = lambda t: z(t) if isinstance(t, int) else z(-1 - int(t[1:]))
    return "(%s, %s)" % (z(n), coq_list(["((%s, %s), %s)" % (tg(t), tg(f), coq_bool(ic[i] if isinstance(ic, list) else (ic == 1 or (ic == 2 and i > 0)))) for i, (t, f) in enumerate(spec)]))


STREAMS = [{"name": "chains", "gen": gen, "impl": impl, "canon": canon, "coq_header": COQ_HEADER, "coq_type": "Z * list ((Z * Z) * bool)",
            "coq_input": coq_chain, "coq_obs": "obs_struct",
            "model_vo": "Dad/ShortCircuitDriver.vo", "pinned": False, "oracle": oracle, "stats": stats, "shard": 60}]


# ---- stream 2: the same chains over every kind of comparison a conditional block can hold (no model: the model's leaf is abstract) ----
OPS = ["==", "!=", "<", ">=", ">", "<="]
CMP = {"==": lambda a, b: a == b, "!=": lambda a, b: a != b, "<": lambda a, b: a < b, ">=": lambda a, b: a >= b,
       ">": lambda a, b: a > b, "<=": lambda a, b: a <= b}


def rand_kind(rng):
    k = rng.choice(("z", "z", "bool", "obj", "two", "cmp", "cmp", "cmp"))
    if k in ("bool", "obj"):
        return [k, rng.choice(OPS[:2])]
    if k == "cmp":
        return [k, rng.choice(OPS), rng.choice((("cmp", "J"), ("cmpl", "F"), ("cmpg", "F"), ("cmpl", "D"), ("cmpg", "D")))]
    return [k, rng.choice(OPS)]


def gen_kinds(rng, tier, ctx):
    two, three = list(all_specs(2)), list(all_specs(3))
    cases = []
    for s in two:
        for _ in range(3 if tier == "thorough" else 1):
            cases.append((2, s, [rand_kind(rng) for _ in range(2)]))
    for s in (three if tier == "thorough" else rng.sample(three, 150)):
        cases.append((3, s, [rand_kind(rng) for _ in range(3)]))
    for kind in (["cmp", "<", ("cmpl", "F")], ["cmp", ">=", ("cmpg", "D")], ["cmp", "!=", ("cmp", "J")], ["bool", "=="], ["obj", "!="], ["two", "<="]):
        for s in two[::2]:
            cases.append((2, s, [kind, kind]))          # every merge case with the same kind on both sides
    return cases


def leaf_values(kind):
    """the operand values a leaf is tried with, and its outcome under each"""
    k, op = kind[0], kind[1]
    if k == "z":
        return [({"c": v}, CMP[op](v, 0)) for v in (-1, 0, 1)]
    if k == "bool":
        return [({"c": v}, CMP[op](int(v), 0)) for v in (False, True)]
    if k == "obj":
        return [({"c": v}, (v is None) == (op == "==")) for v in (None, "an object")]
    return [({"a": a, "b": b}, CMP[op](a, b)) for a, b in ((0, 1), (1, 0), (0, 0))]


def java_cond(text, values):
    """the value of a printed condition under Java's precedence: || < && < ==,!= < relational < !"""
    toks = re.findall(r"\|\||&&|==|!=|<=|>=|[!()<>]|-?\d+|\w+", text)
    if "".join(toks) != re.sub(r"\s+", "", text):
        raise ValueError("unexpected characters in the condition %r" % text)
    pos = [0]

    def peek():
        return toks[pos[0]] if pos[0] < len(toks) else None

    def take():
        pos[0] += 1
        return toks[pos[0] - 1]

    def unary():
        t = take()
        if t == "!":
            v = unary()
            if not isinstance(v, bool):
                raise ValueError("! applied to a non-boolean in %r" % text)
            return not v
        if t == "(":
            v = disj()
            if take() != ")":
                raise ValueError("unbalanced parentheses in %r" % text)
            return v
        if t == "null":
            return None
        if re.fullmatch(r"-?\d+", t):
            return int(t)
        return values[t]

    def rel():
        v = unary()
        if peek() in ("<", "<=", ">", ">="):
            op = take()
            v = CMP[op](v, unary())
        return v

    def eq():
        v = rel()
        while peek() in ("==", "!="):
            op = take()
            w = rel()
            v = (v is w or (type(v) is type(w) and v == w)) == (op == "==")
        return v

    def conj():
        v = eq()
        while peek() == "&&":
            take()
            w = eq()
            v = v and w
        return v

    def disj():
        v = conj()
        while peek() == "||":
            take()
            w = conj()
            v = v or w
        return v
    v = disj()
    if pos[0] != len(toks) or not isinstance(v, bool):
        raise ValueError("not a boolean condition: %r" % text)
    return v


def build_kinds(spec, kinds):
    from androguard.decompiler.basic_blocks import CondBlock, ReturnBlock
    from androguard.decompiler.control_flow import short_circuit_struct
    from androguard.decompiler.graph import Graph
    from androguard.decompiler.instruction import (BinaryCompExpression, ConditionalExpression, ConditionalZExpression, Constant, Param,
                                                   ReturnInstruction, Variable)
    g = Graph()

    def leaf(i, kind):
        k, op = kind[0], kind[1]
        if k == "z":
            return ConditionalZExpression(op, Param("c%d" % i, "I"))
        if k == "bool":
            return ConditionalZExpression(op, Param("c%d" % i, "Z"))
        if k == "obj":
            return ConditionalZExpression(op, Param("c%d" % i, "Ljava/lang/Object;"))
        if k == "two":
            return ConditionalExpression(op, Param("a%d" % i, "I"), Param("b%d" % i, "I"))
        z = ConditionalZExpression(op, Variable(100 + i))       # if-<op>z on the register a cmp wrote, then the cmp propagated into it
        z.replace(100 + i, BinaryCompExpression(kind[2][0], Param("a%d" % i, kind[2][1]), Param("b%d" % i, kind[2][1]), kind[2][1]))
        return z
    conds = [CondBlock("c%d" % i, [leaf(i, kinds[i])]) for i in range(len(spec))]
    exits = {"X%d" % k: ReturnBlock("X%d" % k, [ReturnInstruction(Constant(k, "I"))]) for k in range(NEXITS)}
    node = lambda t: conds[t] if isinstance(t, int) else exits[t]
    for x in conds + list(exits.values()):
        g.add_node(x)
    for i, (t, f) in enumerate(spec):
        conds[i].true, conds[i].false = node(t), node(f)
        g.add_edge(conds[i], node(t))
        g.add_edge(conds[i], node(f))
    g.entry = conds[0]
    g.compute_rpo()
    short_circuit_struct(g, g.immediate_dominators(), {})
    return g


def impl_kinds(case):
    from androguard.decompiler.writer import Writer
    n, spec, kinds = case
    per_leaf = [leaf_values(k) for k in kinds]
    combos = list(itertools.product(*per_leaf))
    out = {}
    for negate in (False, True):
        g = build_kinds(spec, kinds)
        table = {}
        for x in list(g.nodes):
            if x.type.is_cond:
                if negate:                      # what visit_cond_node does when it decides to print the negation
                    x.neg()
                    x.true, x.false = x.false, x.true
                w = Writer(g, None)
                x.visit_cond(w)
                table[x] = (str(w), x.true, x.false)
        got = []
        for combo in combos:
            values = {}
            for i, (vals, _) in enumerate(combo):
                for nm, v in vals.items():
                    values["p%s%d" % (nm, i)] = v
            cur = g.entry
            while cur.type.is_cond:
                text, t, f = table[cur]
                cur = t if java_cond(text, values) else f
            got.append(int(cur.name[1:]))
        out["negated" if negate else "plain"] = got
        out["texts_negated" if negate else "texts"] = sorted(t for t, _, _ in table.values())
    out["outcomes"] = [[bool(o) for _, o in combo] for combo in combos]
    out["values"] = [[vals for vals, _ in combo] for combo in combos]
    return out


def oracle_kinds(case, res):
    n, spec, kinds = case
    if isinstance(res, Err):
        return "merging or printing failed: %s %s" % (res.name, res.msg[:150])
    want = [original(spec, env) for env in res["outcomes"]]
    for what, got, texts in (("printed as merged", res["plain"], res["texts"]), ("printed after neg() and swap", res["negated"], res["texts_negated"])):
        if got != want:
            k = next(i for i in range(len(want)) if got[i] != want[i])
            return "chain %s (node -> [true, false]) over the comparisons %s, conditions %s %s: with operands %s (branch outcomes %s) the original chain goes to X%d, the printed conditions go to X%d" % (
                spec, kinds, what, texts, res["values"][k], res["outcomes"][k], want[k], got[k])
    return None


def stats_kinds(cases, results):
    d = {"chains": len(cases)}
    for c in cases:
        for k in c[2]:
            key = "leaf_" + k[0] + ("_" + k[2][0] + "_" + k[2][1] if k[0] == "cmp" else "")
            d[key] = d.get(key, 0) + 1
    return d


STREAMS.append({"name": "comparison-kinds", "gen": gen_kinds, "impl": impl_kinds, "pinned": False, "oracle": oracle_kinds, "stats": stats_kinds,
                "nontrivial": lambda c, r: not isinstance(r, Err)})


# ---- stream 3: compound conditions compiled to branch chains, through the whole decompiler, javac and a JVM (no model) ----------------
NEGC = {"eq": "ne", "ne": "eq", "lt": "ge", "ge": "lt", "gt": "le", "le": "gt"}


def rand_bexpr(rng, depth):
    if depth == 0 or rng.random() < 0.25:
        r = rng.random()
        if r < 0.5:
            return ("leaf", rng.choice(sorted(NEGC)), rng.choice(("p0", "p1", "p2", "p3")), None)
        if r < 0.8:
            a, b = rng.sample(("p0", "p1", "p2", "p3"), 2)
            return ("leaf", rng.choice(sorted(NEGC)), a, b)
        return ("lcmp", rng.choice(sorted(NEGC)), rng.choice(("p4", "l0")), "p5")        # cmp-long, then a zero test of its result
    k = rng.choice(("and", "or", "and", "or", "not"))
    if k == "not":
        return ("not", rand_bexpr(rng, depth - 1))
    return (k, rand_bexpr(rng, depth - 1), rand_bexpr(rng, depth - 1))


def compile_bexpr(e, T, F, nxt, flat, fresh):
    """jump to T when e holds and to F when it does not; the code that follows is the one labelled nxt (T or F)"""
    k = e[0]
    if k == "leaf" or k == "lcmp":
        _, cmp_, a, b = e
        if k == "lcmp":
            flat.append(("cmpl", "i3", a, b))
            a, b = "i3", None
        flat.append(("br", cmp_, a, b, T) if nxt == F else ("br", NEGC[cmp_], a, b, F))
    elif k == "not":
        compile_bexpr(e[1], F, T, nxt, flat, fresh)
    else:
        m = fresh()
        if k == "and":
            compile_bexpr(e[1], m, F, m, flat, fresh)
        else:
            compile_bexpr(e[1], T, m, m, flat, fresh)
        flat.append(("label", m))
        compile_bexpr(e[2], T, F, nxt, flat, fresh)


def bexpr_method(rng, idx, loop):
    n = [0]

    def fresh():
        n[0] += 1
        return "M%d" % n[0]
    e = rand_bexpr(rng, rng.choice((2, 2, 3)))
    flat = [("const", r, 0) for r in ("i0", "i1", "i2", "i3")] + [("const", "l0", rng.choice((0, 5))), ("const", "l1", 0)]
    if loop:            # do { i0 += p0; c0--; } while (c0 > 0 && e); return i0
        flat += [("const", "c0", rng.choice((2, 3))), ("label", "T"), ("bin", "add", 3, "i0", "i0", "p0"), ("bin", "add", 8, "c0", "c0", -1),
                 ("br", "le", "c0", None, "E")]
        compile_bexpr(e, "T", "E", "E", flat, fresh)
        flat += [("label", "E"), ("ret", "i0")]
    else:               # if (e) return 1; else return 2  (either arm first)
        first = rng.choice(("T", "F"))
        compile_bexpr(e, "T", "F", first, flat, fresh)
        for lb in (first, "F" if first == "T" else "T"):
            flat += [("label", lb), ("const", "i0", 1 if lb == "T" else 2), ("ret", "i0")]
    return {"name": "m%d" % idx, "ret": "I", "params": ["I", "I", "I", "I", "J", "J"], "flat": flat, "expr": e}


def gen_bytecode(rng, tier, ctx):
    from tools.vlib import javadiff as J
    cases = []
    for b in range(12 if tier == "thorough" else 2):
        methods = [bexpr_method(rng, i, False) for i in range(8)] + [bexpr_method(rng, 8 + i, True) for i in range(6)] + [J.gen_dowhile(rng, 14 + i) for i in range(2)]
        argsets = []
        for m in methods:
            vals = (-1, 0, 1, 5)
            argsets.append([tuple(rng.choice(vals) for _ in m["params"]) for _ in range(24)])
        cases.append((methods, argsets))
    return cases


def impl_bytecode(case):
    from tools.props import c21
    return c21.impl_structured(case)


def oracle_bytecode(case, res):
    from tools.vlib import javadiff as J
    if isinstance(res, Err):
        return "harness failed: %s %s" % (res.name, res.msg[:200])
    methods, argsets = case
    for m, tuples, r in zip(methods, argsets, res):
        if "decompile_error" in r:
            return "method %s (condition %r): decompiling raised %s" % (m["name"], m.get("expr"), r["decompile_error"])
        if "error" in r:
            return "method %s (condition %r): the source is not accepted by javac: %s\n%s" % (m["name"], m.get("expr"), r["error"][:300], r["source"][:900])
        for t, g in zip(tuples, r["values"]):
            w = J.interpret(m, t)
            if g != w:
                return "method %s (condition %r): for arguments %r the decompiled source returns %r, the bytecode %r\n%s" % (
                    m["name"], m.get("expr"), t, g, w, r["source"][:900])
    return None


STREAMS.append({"name": "compiled-conditions", "gen": gen_bytecode, "impl": impl_bytecode, "pinned": False, "oracle": oracle_bytecode,
                "case_timeout": 600,
                "stats": lambda cases, results: {"methods": sum(len(c[0]) for c in cases), "argument_tuples": sum(len(a) for c in cases for a in c[1]),
                                                  "merged_conditions_in_source": sum(r.get("source", "").count("&&") + r.get("source", "").count("||") for rs in results if not isinstance(rs, Err) for r in rs)}})
