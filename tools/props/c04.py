"""C04 - encoded constant values keep their declared width and signedness."""
import re

from tools.vlib.coqfmt import Err, zlist, coq_list

ID = "C04"
TITLE = "Encoded constant values keep their declared width and signedness"
PROPS = "C04"
LEVEL = "proof"
DESIGN_REF = "DESIGN.md section 5, C04"
TECHNIQUE = ("Coq theorems (the shift/or accumulation of the value bytes is their little-endian sum; sign extension from the "
             "encoded width by lia; induction on the nesting fuel for arrays and annotations; digit lemmas for the printed "
             "initialiser) about a hand-written model of EncodedValue/EncodedArray/EncodedAnnotation, set_static_fields and the "
             "field initialiser printing; model tied to the source by a differential run on generated DEX files with every value "
             "type at every legal width and sign boundary")
LEVEL_TEXT = ("Unbounded proof: for every value header and every following bytes, the modelled reader reports for short, int "
              "and long the little-endian value of the value_arg+1 bytes sign-extended from that width, for char, float, double "
              "and the index types the zero-extended value, for byte the signed byte, for boolean the value_arg bit, null as "
              "null, and consumes exactly those bytes; encoding any value of the type's range in any sufficient width and "
              "reading it back returns the value; arrays and annotations of any nesting depth return their elements in order; "
              "static values are bound to the static fields in order; the printed initialiser of an integral field denotes the "
              "value read. The model is compared with the real parser and with DvClass.get_source on every run.")
LEVEL_NOTE = ("Trusted: Coq kernel; coq/Dex/EncodedValueModel.v as a rendering of EncodedValue/_getintvalue, EncodedArray, "
              "EncodedAnnotation, AnnotationElement, set_static_fields and of the initialiser printing in DvClass.get_source "
              "(index-typed values are compared as indices: the harness resolves both sides through the pools; float and double "
              "are the raw bit patterns, as in the code; the Java syntax of the printed initialiser - True/False/None, no L "
              "suffix - is not part of the statement); LEB128 readers are the C03 models; the harness tools/props/c04.py and "
              "tools/writers/dexwriter.py.")
TRUSTED = ["hand-written model coq/Dex/EncodedValueModel.v (+ coq/Dex/LebModel.v, coq/Lib/Fmt.v)",
           "correspondence harness tools/props/c04.py and the independent DEX writer tools/writers/dexwriter.py"]

COQ_HEADER = "Require Import V.Dex.EncodedValueModel."
VT = {"B": 0x00, "S": 0x02, "C": 0x03, "I": 0x04, "J": 0x06, "F": 0x10, "D": 0x11}
MAXW = {0x02: 2, 0x03: 2, 0x04: 4, 0x06: 8, 0x10: 4, 0x11: 8, 0x17: 4, 0x18: 4, 0x19: 4, 0x1A: 4, 0x1B: 4}
PATTERNS = [b"\x00", b"\x01", b"\x7f", b"\x80", b"\xff", b"\xfe", b"\x00\x80", b"\xff\x7f", b"\xff\xff", b"\x00\x01", b"\x80\x00",
            b"\x00\x00\x80", b"\xff\xff\x7f", b"\xff\xff\xff", b"\x00\x00\x00\x80", b"\xff\xff\xff\x7f", b"\xff\xff\xff\xff",
            b"\x2d\xce", b"\xfe\xff", b"\x00\x80\x00", b"\x01\x00\x00\x00", b"\x00" * 7 + b"\x80", b"\xff" * 7 + b"\x7f",
            b"\xff" * 8, b"\x00" * 4 + b"\x80", b"\xff" * 5, b"\x00" * 5 + b"\x80", b"\x12\x34\x56\x78\x9a\xbc\xde\xf0"]


def _rand_bytes(rng, w):
    cands = [p for p in PATTERNS if len(p) == w]
    if cands and rng.random() < 0.6:
        return rng.choice(cands)
    return bytes(rng.choice((0, 0x7F, 0x80, 0xFF, rng.randrange(256))) for _ in range(w))


STRINGS = ["hello", "", "a\"b", "x\ny", "é", "{}", "{0} of {1}", "a{{b}}c", "Hello, {name}!", "{", "}", "%s %d", "100%", "%", "\\", "true", "null",
           "{\"k\": 1}", "\U0001F600"]


def gen(rng, tier, ctx):
    """case = list of static fields: (descriptor, value bytes | None)   value bytes = one encoded_value"""
    cases = []
    # every legal width of every integral type, with every boundary pattern of that width
    fixed = []
    for desc in "SCIJFD":
        vt = VT[desc]
        for w in range(1, MAXW[vt] + 1):
            for p in [q for q in PATTERNS if len(q) == w]:
                fixed.append((desc, bytes([vt | (w - 1) << 5]) + p))
    for b in (0, 1, 0x7F, 0x80, 0xFF, 0xFE):
        fixed.append(("B", bytes([0x00, b])))
    for k in range(0, len(fixed), 40):
        cases.append(fixed[k:k + 40])
    for _ in range(80 if tier == "thorough" else 12):
        fs = []
        for _ in range(rng.randrange(1, 30)):
            r = rng.random()
            if r < 0.55:
                desc = rng.choice("BSCIJFD")
                vt = VT[desc]
                if desc == "B":
                    v = bytes([0x00 | (rng.choice((0, 0, 3)) << 5), rng.choice((0, 1, 0x7F, 0x80, 0xFF, rng.randrange(256)))])
                else:
                    w = rng.randrange(1, MAXW[vt] + 1)
                    v = bytes([vt | (w - 1) << 5]) + _rand_bytes(rng, w)
                fs.append((desc, v))
            elif r < 0.63:
                fs.append(("Z", bytes([0x1F | (rng.choice((0, 1, 1, 2, 7)) << 5)])))
            elif r < 0.70:
                fs.append((rng.choice(("Ljava/lang/Object;", "Ljava/lang/String;", "[I")), bytes([0x1E])))
            elif r < 0.80:
                fs.append(("Ljava/lang/String;", ("string", rng.choice(STRINGS))))
            elif r < 0.86:
                fs.append(("Ljava/lang/Class;", ("type", rng.choice(("Lgen/V;", "I", "[Ljava/lang/String;")))))
            elif r < 0.90:
                fs.append(("Ljava/lang/Object;", ("field", 0)))
            elif r < 0.95:   # an array holding values of several kinds (legal inside annotations; the reader is the same)
                inner = [bytes([0x04 | (1 << 5), 0x00, 0x80]), bytes([0x1F | (1 << 5)]), bytes([0x00, 0xFF]), bytes([0x1E]),
                         bytes([0x1C, 1, 0x06, 0xFF])]
                rng.shuffle(inner)
                k = rng.randrange(0, len(inner) + 1)
                fs.append(("[Ljava/lang/Object;", bytes([0x1C, k]) + b"".join(inner[:k])))
            else:            # a nested annotation: type index 0, one element named by string index 0 holding an int
                fs.append(("Ljava/lang/Object;", bytes([0x1D, 0, 1, 0, 0x04 | (3 << 5), 0xFF, 0xFF, 0xFF, 0x7F])))
        if rng.random() < 0.3:
            fs += [("I", None)] * rng.randrange(1, 4)       # fields without a value at the end
        cases.append(fs)
    cases.append([("I", bytes([0x04, 0xFF])), ("S", bytes([0x02, 0xFF])), ("J", bytes([0x06, 0xFF])), ("C", bytes([0x23, 0xFF, 0xFF]))])
    for k in range(0, len(STRINGS), 4):                   # every string of the pool as a field constant, a few to a class
        cases.append([("Ljava/lang/String;", ("string", t)) for t in STRINGS[k:k + 4]])
    return cases


def build(case):
    from tools.writers.dexwriter import DexBuilder, encode_value, uleb
    b = DexBuilder(extra_strings=STRINGS, extra_types=["Lgen/V;", "I", "[Ljava/lang/String;"])
    c = b.add_class("Lgen/V;")
    for k, (desc, v) in enumerate(case):
        c.add_field("f%03d" % k, desc, access=0x8, static=True, value=("null", None) if v is not None else None)
    b._collect()
    # static fields are laid out in field_id order = name order here; rebuild the values in that order as raw bytes
    order = sorted(range(len(case)), key=lambda k: b.field_index("Lgen/V;", "f%03d" % k, case[k][0]))
    assert order == list(range(len(case)))
    raws = []
    for desc, v in case:
        if v is None:
            raws.append(None)
        elif isinstance(v, bytes):
            raws.append(v)
        elif v[0] == "field":
            raws.append(bytes([0x19, b.field_index("Lgen/V;", "f000", case[0][0])]))
        else:
            raws.append(encode_value(v[0], v[1], b))
    last = max([i for i, r in enumerate(raws) if r is not None], default=-1)
    for k, f in enumerate(c.fields):
        name, typ, access, static, _ = f
        c.fields[k] = (name, typ, access, static, ("raw", raws[k]) if (k <= last and raws[k] is not None) else
                       (("raw", bytes([0x1E])) if k <= last else None))
    arr = uleb(last + 1) + b"".join((raws[k] if raws[k] is not None else bytes([0x1E])) for k in range(last + 1)) if last >= 0 else b"\x00"
    data = b.build()
    return data, arr, b


def _canon(ev, b, d):
    t = ev.get_value_type()
    v = ev.get_value()
    if t == 0x00:
        return [0, v]
    if 0x02 <= t < 0x17:
        return [t, v]
    if t == 0x17:
        return [t, b._sidx.get(str(v), -99)]
    if t == 0x18:
        return [t, b._tidx.get(str(v), -99)]
    if t in (0x19, 0x1B):
        return [t, b._fidx.get((v[0], v[2], v[1]), -99)]
    if t == 0x1A:
        return [t, -98]
    if t == 0x1C:
        return [28, [_canon(x, b, d) for x in v.get_values()]]
    if t == 0x1D:
        return [29, v.get_type_idx(), [[e.get_name_idx(), _canon(e.get_value(), b, d)] for e in v.get_elements()]]
    if t == 0x1E:
        return [30]
    if t == 0x1F:
        return [31, bool(v)]
    return [t]


def impl(case):
    from androguard.core.dex import DEX
    from androguard.core.analysis.analysis import Analysis
    from androguard.decompiler.decompiler import DecompilerDAD
    data, arr, b = build(case)
    d = DEX(data)
    dx = Analysis(d)
    d.set_decompiler(DecompilerDAD(d, dx))
    cls = d.get_class("Lgen/V;")
    src = cls.get_source()
    printed = dict(re.findall(r"^\s+static \S+ (f\d\d\d) = (.*);$", src, re.M))
    fields = {f.get_name(): f for f in cls.get_fields()}
    out = []
    for k, (desc, v) in enumerate(case):
        f = fields["f%03d" % k]
        iv = f.get_init_value()
        if iv is None:
            out.append(None)
            continue
        c = _canon(iv, b, d)
        p = printed.get("f%03d" % k)
        t = iv.get_value_type()
        printable = (t == 0x00 or 0x02 <= t < 0x17 or t in (0x1E, 0x1F)) and desc != "Ljava/lang/String;"
        out.append([c, p if printable else None] + ([p] if t == 0x17 else []))      # a string: the literal as printed, for the oracle
    return out


def canon(res):
    return [r[:2] if r else r for r in res]


def coq_input(case):
    data, arr, b = build(case)
    protos = [0 if desc == "Ljava/lang/String;" else ord(desc[0]) for desc, v in case]
    return "(%s, %s)" % (zlist(list(arr)), zlist(protos))


def _sx(raw):
    v = int.from_bytes(raw, "little")
    return v - (1 << (8 * len(raw))) if raw and raw[-1] & 0x80 else v


def oracle(case, res):
    """the DEX definition of each value type, applied to the generated bytes"""
    if isinstance(res, Err):
        return "parsing or decompiling a generated DEX failed: %s %s" % (res.name, res.msg[:160])
    for k, ((desc, v), r) in enumerate(zip(case, res)):
        if isinstance(v, tuple) and v[0] == "string":
            from tools.props import c23
            if r is None or r[0][0] != 0x17:
                return "field f%03d: the string constant %r is reported as %r" % (k, v[1], r)
            if r[0][1] != build(case)[2]._sidx[v[1]]:
                return "field f%03d: the string constant %r resolves to string %d" % (k, v[1], r[0][1])
            lit = r[2] if len(r) > 2 else None
            units = None if lit is None else c23.java_lex(c23.utf16([ord(ch) for ch in lit]))
            if units != c23.utf16([ord(ch) for ch in v[1]]):
                return "field f%03d: the decompiler prints the initialiser %r for the string constant %r" % (k, lit, v[1])
            continue
        if v is None or not isinstance(v, bytes):
            continue
        t, arg = v[0] & 0x1F, v[0] >> 5
        if r is None:
            return "field f%03d (%s): no initial value reported for the encoded bytes %s" % (k, desc, v.hex())
        got, printed = r
        want = None
        if t in (0x02, 0x04, 0x06):
            want = _sx(v[1:])
        elif t in (0x03, 0x10, 0x11):
            want = int.from_bytes(v[1:], "little")
        elif t == 0x00:
            want = v[1] - 256 if v[1] > 127 else v[1]
        if want is not None:
            if got[1] != want:
                return "field f%03d (%s): encoded value %s is reported as %r, the format defines %d" % (k, desc, v.hex(), got[1], want)
            if printed is not None and desc in "BSCIJ":
                try:
                    shown = int(printed, 0)
                except ValueError:
                    return "field f%03d (%s): the initialiser %r is not a number" % (k, desc, printed)
                if shown != want:
                    return "field f%03d (%s): the decompiler prints %r for the value %d" % (k, desc, printed, want)
        if t == 0x1F and got != [31, arg != 0]:
            return "field f%03d: boolean with value_arg %d reported as %r" % (k, arg, got)
        if t == 0x1E and got != [30]:
            return "field f%03d: null reported as %r" % (k, got)
    return None


def stats(cases, results):
    d = {}
    for case in cases:
        for desc, v in case:
            if isinstance(v, bytes):
                k = "type=0x%02x/width=%d" % (v[0] & 0x1F, len(v) - 1)
            else:
                k = "no-value" if v is None else v[0]
            d[k] = d.get(k, 0) + 1
    return d


# ---- stream 2: classes that share one array of static values; values read after a rename ---------------------------------------
def gen_shared(rng, tier, ctx):
    """case = (classes in class_defs order: (name, number of static int fields, values), rename): equal value lists are written
    once and shared; with rename the field f0 of the first class (whose name is also the text of a String constant) is renamed
    before any value is read"""
    import itertools
    cases = []
    base = [("Lp/A;", 3, [5, 7]), ("Lp/B;", 2, [5, 7]), ("Lp/C;", 4, [5, 7]), ("Lp/D;", 1, [9])]
    orders = list(itertools.permutations(range(4)))
    if tier != "thorough":
        orders = rng.sample(orders, 8)
    for o in orders:
        cases.append(([base[i] for i in o], False))
    for _ in range(20 if tier == "thorough" else 4):
        vals = [[rng.choice((1, -1, 300, 70000)) for _ in range(rng.randint(1, 3))] for _ in range(2)]
        cl = [("Lq/K%d;" % i, rng.randint(1, 5), rng.choice(vals)) for i in range(rng.randint(2, 5))]
        cases.append((cl, rng.random() < 0.5))
    cases.append(([("Lp/A;", 2, [1])], True))
    return cases


def impl_shared(case):
    from tools.writers.dexwriter import DexBuilder
    from androguard.core.dex import DEX
    classes, rename = case
    b = DexBuilder(share_static_values=True)
    for name, nf, vals in classes:
        c = b.add_class(name)
        for i in range(nf):
            c.add_field("f%d" % i, "I", access=0x8, static=True, value=("int", vals[i]) if i < len(vals) else None)
        c.add_field("a_s", "Ljava/lang/String;", access=0x8, static=True, value=("string", "f0"))     # sorts first; the text of a field name
    d = DEX(b.build())
    if rename:
        first = [c for c in d.get_classes() if c.get_name() == classes[0][0]][0]
        [f for f in first.get_fields() if f.get_name() == "f0"][0].set_name("renamed")
    out = []
    for name, nf, vals in classes:
        c = [x for x in d.get_classes() if x.get_name() == name][0]
        row = {}
        for f in c.get_fields():
            iv = f.get_init_value()
            row[f.get_name()] = None if iv is None else iv.get_value()
        out.append(row)
    return out


def oracle_shared(case, res):
    if isinstance(res, Err):
        return "parsing the generated DEX failed: %s %s" % (res.name, res.msg[:160])
    classes, rename = case
    for k, ((name, nf, vals), row) in enumerate(zip(classes, res)):
        for i in range(nf):
            fname = "renamed" if (rename and k == 0 and i == 0) else "f%d" % i
            want = vals[i] if i < len(vals) else None
            if row.get(fname, "missing") != want:
                return "class %s (definition %d of %d): static field %s has the initial value %r, encoded is %r" % (name, k + 1, len(classes), fname, row.get(fname, "missing"), want)
        if row.get("a_s") != "f0":
            return "class %s: the String constant \"f0\" is reported as %r%s" % (name, row.get("a_s"), " after a field of that name was renamed" if rename else "")
    return None


STREAMS = [{"name": "shared-arrays", "gen": gen_shared, "impl": impl_shared, "pinned": False, "oracle": oracle_shared,
            "stats": lambda cases, results: {"files": len(cases), "classes": sum(len(c[0]) for c in cases), "with_rename": sum(1 for c in cases if c[1])}},
           {"name": "static-values", "gen": gen, "impl": impl, "coq_header": COQ_HEADER, "coq_type": "list Z * list Z",
            "coq_input": coq_input, "coq_obs": "obs_static", "model_vo": "Dex/EncodedValueModel.vo", "pinned": False,
            "oracle": oracle, "canon": canon, "stats": stats, "shard": 10}]
