"""C12 - Every instruction inside a try range carries that range's handlers."""
from tools.vlib import cfg_common as C

ID = "C12"
TITLE = "Every instruction inside a try range carries that range's handlers"
PROPS = "C12"
LEVEL = "proof"
DESIGN_REF = "DESIGN.md section 5, C10/C11/C12/C40"
TECHNIQUE = ('Coq theorems (try starts are leaders, so a block cannot straddle a range start; with pairwise disjoint ranges at most one range overlaps a block) about the hand-written model of Exceptions.get_exception over the modelled blocks and determineException; model tied to the source by a differential run on generated methods with try tables')
LEVEL_TEXT = ("Unbounded proof: for every method whose try ranges are pairwise disjoint and start at instruction offsets, a modelled block reports a range iff that range covers the block's first instruction (equivalently, one of its instructions), the reported range is the only one overlapping the block, its handler list is the try item's handler list with the handler blocks looked up by address, and a block none of whose instructions is covered reports nothing. The model is compared with the real get_exception_analysis on generated methods on every run.")
LEVEL_NOTE = ("Trusted: Coq kernel; coq/Analysis/CfgModel.v as a rendering of _create_basic_block, determineNext, "
              "determineException, get_ins_off, set_childs, get_exception (an instruction is its byte length and kind; the "
              "linear sweep that produces the instruction list is C02's subject, not this model's); the assembler "
              "tools/vlib/dalvik_asm.py, the DEX writer and the harness tools/vlib/cfg_common.py.")
TRUSTED = ["hand-written model coq/Analysis/CfgModel.v", "tools/vlib/dalvik_asm.py, tools/writers/dexwriter.py, tools/vlib/cfg_common.py "
           "(generated methods, observation of MethodAnalysis, statement of the partition rules as oracle)"]
STREAMS = [C.STREAM(C.per_method(C.check_exceptions)), C.STREAM_SHIPPED(C.per_method_shipped(C.check_exceptions))]
