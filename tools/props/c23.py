"""C23 - Java string literals denote exactly the original string."""
import os
import shutil
import subprocess
import tempfile

from tools.vlib.coqfmt import Err, zlist

ID = "C23"
TITLE = "Java string literals denote exactly the original string"
PROPS = "C23"
LEVEL = "proof"
DESIGN_REF = "DESIGN.md section 5, C23"
TECHNIQUE = ("Coq theorem by per-token kernel-evaluated sweeps (every 16-bit unit through both lexer phases), prefix-run "
             "lemmas, surrogate arithmetic by lia and induction on the string, about a hand-written model of "
             "writer.string() and a hand-written model of the Java lexer; string() model tied to the source by a "
             "differential run over every BMP code point, the lexer model tied to javac by compiling generated literals")
LEVEL_TEXT = ("Unbounded proof: for every str (any length, code points 0..0x10FFFF, unpaired surrogates included) the "
              "literal written by the modelled string(), read by Java's two lexical phases (unicode-escape translation "
              "with the backslash-parity rule, then string-literal escapes), denotes exactly the UTF-16 code units of "
              "the str; the literal is printable ASCII. The string() model is compared with the real writer.string and "
              "Writer.visit_constant on every BMP code point (in 64-character strings), sampled supplementary "
              "characters and random strings on every run; the Python transcription of the lexer used as oracle is "
              "compared with the Coq lexer on random texts and with javac on generated literals. The path in front of "
              "string() is exercised too, outside the model: generated DEX files whose methods return string constants "
              "(every escape class, unpaired surrogates, supplementary characters, texts that look like escapes) are "
              "decompiled with DvMethod and DvClass and the literal in the source, read by the lexer transcription, has "
              "to denote the code units of the DEX string.")
LEVEL_NOTE = ("Trusted: Coq kernel (vm_compute for the 65536-unit sweeps); coq/Dad/JStringModel.v as a rendering of "
              "string() (str as code points, '%x' of a nibble, str.encode('unicode-escape') of \\r \\n \\t); "
              "coq/Dad/JavaLex.v as the meaning of JLS 3.3/3.10.5/3.10.7 (validated against the installed javac 17 on "
              "generated literals, not proved); the harness tools/props/c23.py.")
TRUSTED = ["hand-written model coq/Dad/JStringModel.v of writer.string()",
           "hand-written specification coq/Dad/JavaLex.v of Java's reading of a string literal (validated against javac 17)",
           "correspondence harness tools/props/c23.py (generators, Python transcription of JavaLex.v)"]

COQ_HEADER = "Require Import V.Dad.JavaLex V.Dad.JStringModel."


# ---- Python transcription of coq/Dad/JavaLex.v (kept in step by the 'javalex' stream) ----
def hexval(c):
    if 48 <= c <= 57:
        return c - 48
    if 97 <= c <= 102:
        return c - 87
    if 65 <= c <= 70:
        return c - 55
    return None


def unicode_escapes(src):
    out, st, k, acc = [], "N", 0, 0      # N = UNorm true (UNorm false is never entered from UNorm true)
    for c in src:
        if st == "N":
            if c == 92:
                st = "E"
            else:
                out.append(c)
        elif st == "E":
            if c == 117:
                st = "U"
            else:
                out += [92, c]
                st = "N"
        elif st == "U":
            if c == 117:
                continue
            h = hexval(c)
            if h is None:
                return None
            st, k, acc = "H", 3, h
        else:
            h = hexval(c)
            if h is None:
                return None
            acc = acc * 16 + h
            if k == 1:
                out.append(acc)
                st = "N"
            else:
                k -= 1
    if st == "N":
        return out
    if st == "E":
        return out + [92]
    return None


SIMPLE = {98: 8, 116: 9, 110: 10, 102: 12, 114: 13, 115: 32, 34: 34, 39: 39, 92: 92}


def literal(u):
    out, st, more, acc = [], "S", 0, 0
    for c in u:
        if st == "O":
            if more >= 1 and 48 <= c <= 55:
                acc = acc * 8 + (c - 48)
                if more == 1:
                    out.append(acc)
                    st = "B"
                else:
                    more -= 1
                continue
            out.append(acc)
            st = "B"             # and read c as a body character
        if st == "S":
            if c != 34:
                return None
            st = "B"
        elif st == "B":
            if c == 34:
                st = "D"
            elif c == 92:
                st = "E"
            elif c in (10, 13):
                return None
            else:
                out.append(c)
        elif st == "E":
            if c in SIMPLE:
                out.append(SIMPLE[c])
                st = "B"
            elif 48 <= c <= 55:
                st, acc, more = "O", c - 48, (2 if c - 48 <= 3 else 1)
            else:
                return None
        else:
            return None
    return out if st == "D" else None


def java_lex(src):
    u = unicode_escapes(src)
    return None if u is None else literal(u)


def utf16(cps):
    out = []
    for c in cps:
        if c < 0x10000:
            out.append(c)
        else:
            out += [0xD800 + ((c - 0x10000) >> 10), 0xDC00 + ((c - 0x10000) & 0x3FF)]
    return out


# ---- stream 1: the real string() / Writer.visit_constant against the model and the specification ----
def impl_literal(case):
    from androguard.decompiler.writer import Writer, string
    s = "".join(map(chr, case))
    w = Writer(None, None)
    w.visit_constant(s)
    return [string(s), str(w)]


INTERESTING = [0, 8, 9, 10, 12, 13, 27, 31, 32, 34, 39, 47, 48, 55, 57, 65, 70, 92, 97, 102, 110, 114, 116, 117, 126, 127,
               128, 159, 160, 233, 255, 256, 0x7FF, 0x800, 0xFFF, 0x1000, 0x2028, 0x2029, 0xD7FF, 0xD800, 0xDBFF, 0xDC00,
               0xDFFF, 0xE000, 0xFEFF, 0xFFFE, 0xFFFF, 0x10000, 0x10001, 0x103FF, 0x10400, 0x1F600, 0xFFFFF, 0x100000,
               0x10FC00, 0x10FFFF]


def gen_literal(rng, tier, ctx):
    cases = [[], [92, 117, 48, 48, 52, 49], [92, 92, 117, 48, 48, 52, 49], [92], [34], [39], [0x1F600], [0xD83D], [0xDE00, 0xD83D]]
    for base in range(0, 0x10000, 64):             # every BMP code point, 64 to a string
        cases.append(list(range(base, base + 64)))
    for c in INTERESTING:
        cases.append([c])
        cases.append([92, c, 92])
    # every ASCII character (and the other interesting ones) directly before and after each character that could
    # continue an escape sequence: octal digits, 8, u, backslash, quotes, letters of the short escapes
    followers = [48, 49, 51, 52, 55, 56, 57, 117, 92, 34, 39, 110, 116, 98, 102, 114, 115, 120, 85, 10, 13]
    for c in list(range(128)) + [x for x in INTERESTING if x >= 128] + [0x10000, 0x10001, 0xFFFF, 0x10FFFF]:
        st = []
        for d in followers:
            st += [c, d]
        cases.append(st)
        cases.append([c, c, 48, c, c, 117, 48, 48, 52, 49])
    # ordinary text: words a writer could mistake for something else, lines, and every control character at either end
    words = ["true", "false", "null", "0", "1", "-1", "1.0", "0x10", "1L", "this", "new", "int", "void", "class", "String", "a", " ", "  ",
             "hello world", "Hello, World!", "key=value", "a.b.C", "Lp/A;", "%s %d", "/* c */", "// c", "<init>", "x y\tz"]
    for w in words:
        for text in (w, w + "\n", "\n" + w, w + "\r\n", w + "\n\n", w + "\t", w + "\r", w + "\x00", w + " ", w + "\n" + w, w + "\n" + w + "\n"):
            cases.append([ord(ch) for ch in text])
    for c in list(range(32)) + [127, 0x85, 0x2028, 0x2029]:
        cases.append([104, 105, c])
        cases.append([c, 104, 105])
    n_supp = 4000 if tier == "thorough" else 400
    for _ in range(n_supp // 8):
        cases.append([rng.randrange(0x10000, 0x110000) for _ in range(8)])
    for hi in range(0x10000, 0x110000, 0x400 if tier == "thorough" else 0x4000):   # every high surrogate value
        cases.append([hi, hi + 0x3FF, hi + rng.randrange(0x400)])
    for _ in range(3000 if tier == "thorough" else 400):
        n = rng.randint(1, 24)
        cases.append([rng.choice((rng.choice(INTERESTING), rng.randrange(32, 127), rng.randrange(0, 0x110000),
                                  rng.randrange(0xD800, 0xE000), rng.choice((92, 117, 34, 39))))
                      for _ in range(n)])
    return cases


def oracle_literal(case, res):
    if isinstance(res, Err):
        return "string() raised %s" % res.name
    lit, via_writer = res
    if via_writer != lit:
        return "Writer.visit_constant wrote %r, string() returns %r" % (via_writer[:80], lit[:80])
    got = java_lex(utf16([ord(ch) for ch in lit]))
    want = utf16(case)
    if got != want:
        i = 0
        if got is not None:
            while i < min(len(got), len(want)) and got[i] == want[i]:
                i += 1
        return "literal %r %s, the string has code units %r (first difference at unit %d)" % (
            lit[:120], "is not a Java string literal" if got is None else "denotes %r" % (got[max(0, i - 2):i + 4],),
            want[max(0, i - 2):i + 4], i)
    return None


def stats_literal(cases, results):
    d = {"strings": len(cases), "code_points": 0, "bmp": 0, "supplementary": 0, "surrogate_code_points": 0,
         "ascii_printable": 0, "controls": 0}
    for s in cases:
        for c in s:
            d["code_points"] += 1
            d["supplementary" if c > 0xFFFF else "bmp"] += 1
            if 0xD800 <= c < 0xE000:
                d["surrogate_code_points"] += 1
            if 32 <= c < 127:
                d["ascii_printable"] += 1
            if c < 32 or c == 127:
                d["controls"] += 1
    return d


def shrink_literal(case, still_fails):
    cur = list(case)
    changed = True
    while changed and len(cur) > 1:
        changed = False
        for i in range(len(cur)):
            cand = cur[:i] + cur[i + 1:]
            if cand and still_fails(cand):
                cur, changed = cand, True
                break
        if len(cur) > 8:       # first halve
            for half in (cur[:len(cur) // 2], cur[len(cur) // 2:]):
                if still_fails(half):
                    cur, changed = half, True
                    break
    return cur


# ---- stream 2: the Python lexer used as oracle against the Coq lexer ----
ALPH = [34, 34, 92, 92, 92, 117, 117, 48, 49, 51, 52, 55, 56, 57, 97, 98, 102, 65, 70, 110, 114, 116, 115, 39, 120, 32, 10, 13, 103,
        233, 0xD83D, 0x2028]


def _rand_src(rng):
    r = rng.random()
    if r < 0.55:        # a literal made of tokens, mostly valid
        body = []
        for _ in range(rng.randint(0, 8)):
            t = rng.random()
            if t < 0.25:
                body += [rng.choice((97, 120, 32, 39, 233, 55, 117, 0x2028))]
            elif t < 0.45:
                body += [92, rng.choice((98, 116, 110, 102, 114, 115, 34, 39, 92, 120, 117))]
            elif t < 0.65:
                body += [92] + [rng.choice((48, 49, 51, 52, 55, 56)) for _ in range(rng.randint(1, 4))]
            elif t < 0.9:
                body += [92] + [117] * rng.randint(1, 3) + [rng.choice((48, 50, 53, 97, 65, 102, 70, 100, 103))
                                                             for _ in range(rng.choice((4, 4, 4, 3, 5)))]
            else:
                body += [92, 92] + rng.choice(([117, 48, 48, 52, 49], [92, 117, 48, 48, 50, 50], [110]))
        return [34] + body + ([34] if rng.random() < 0.9 else [])
    return [rng.choice(ALPH) for _ in range(rng.randint(0, 14))]


def gen_javalex(rng, tier, ctx):
    cases = [[], [34, 34], [34], [34, 92, 34], [34, 92, 117, 48, 48, 50, 50, 34], [34, 92, 92, 117, 48, 48, 50, 50, 34],
             [34, 92, 51, 55, 55, 34], [34, 92, 52, 55, 55, 34], [34, 92, 48, 34], [34, 92, 56, 34],
             [34, 92, 117, 48, 48, 53, 99, 117, 48, 48, 52, 49, 34], [34, 92, 117, 48, 48, 53, 99, 110, 34]]
    for _ in range(8000 if tier == "thorough" else 1500):
        cases.append(_rand_src(rng))
    return cases


def impl_javalex(case):
    return java_lex(list(case))


def canon_javalex(r):
    return r if r is None else "".join(map(chr, r))    # rendered as VStr


# ---- stream 3: the lexer specification against javac ----
def javac17_surrogate_quirk(src):
    """javac 17 (not the JLS) mis-reads a unicode escape that yields a HIGH surrogate when it is followed by two backslashes
    and a 'u': looking ahead for a low surrogate it loses the parity of the backslashes, takes the second backslash as the
    start of a unicode escape and then reports 'illegal escape character' ("\\ud800\\\\u0041" is rejected, "\\ud800\\\\n",
    "\\udc00\\\\u0041" and "x\\\\u0041" are read as the JLS says).  Such texts are left out of the validation of the lexer
    specification against javac; the specification follows JLS 3.3."""
    text = "".join(map(chr, src))
    import re
    for m in re.finditer(r"\\u+([0-9a-fA-F]{4})", text):
        if 0xD800 <= int(m.group(1), 16) < 0xDC00 and text[m.end():m.end() + 2] == "\\\\":
            return True
    return False


def gen_javac(rng, tier, ctx):
    batches = []
    for _ in range(6 if tier == "thorough" else 1):
        lits = []
        while len(lits) < 250:
            src = [c for c in _rand_src(rng) if 32 <= c < 127]
            if java_lex(src) is not None and not javac17_surrogate_quirk(src):
                lits.append(src)
        batches.append(lits)
    return batches


def impl_javac(case):
    """Compiles a class holding the literals and prints their code units (needs javac/java on PATH)."""
    if not (shutil.which("javac") and shutil.which("java")):
        return "javac-not-available"
    d = tempfile.mkdtemp(prefix="c23-javac-", dir=os.environ.get("VERIF_SCRATCH", None))
    try:
        with open(os.path.join(d, "T.java"), "w", encoding="ascii") as f:
            f.write("public class T {\n static final String[] L = {\n")
            for src in case:
                f.write("  " + "".join(map(chr, src)) + ",\n")
            f.write(" };\n public static void main(String[] a) {\n  for (String s : L) {\n   StringBuilder b = new StringBuilder();\n"
                    "   for (int i = 0; i < s.length(); i++) { b.append(' '); b.append((int) s.charAt(i)); }\n"
                    "   System.out.println(b);\n  }\n }\n}\n")
        p = subprocess.run(["javac", "-encoding", "ascii", "-nowarn", "T.java"], cwd=d, capture_output=True, text=True, timeout=120)
        if p.returncode != 0:
            return ["javac-rejected", p.stderr[-600:]]
        q = subprocess.run(["java", "-cp", d, "T"], cwd=d, capture_output=True, text=True, timeout=60)
        return [[int(t) for t in line.split()] for line in q.stdout.split("\n")[:len(case)]]
    finally:
        shutil.rmtree(d, ignore_errors=True)


def oracle_javac(case, res):
    if res == "javac-not-available":
        return None
    if isinstance(res, Err):
        return "javac run failed: %s %s" % (res.name, res.msg)
    if res and res[0] == "javac-rejected":
        return "javac rejects a literal the lexer model accepts: %s" % res[1]
    for src, units in zip(case, res):
        if java_lex(src) != units:
            return "javac reads %r as %r, the lexer model as %r" % ("".join(map(chr, src)), units, java_lex(src))
    return None


STREAMS = [
    {
        "name": "literal", "gen": gen_literal, "impl": impl_literal, "coq_header": COQ_HEADER,
        "coq_type": "list Z", "coq_input": zlist, "coq_obs": "obs_jstring", "model_vo": "Dad/JStringModel.vo",
        "pinned": False, "oracle": oracle_literal, "stats": stats_literal, "shrink": shrink_literal, "shard": 150,
    },
    {
        "name": "javalex", "gen": gen_javalex, "impl": impl_javalex, "coq_header": COQ_HEADER,
        "coq_type": "list Z", "coq_input": zlist, "coq_obs": "(fun s => vopt VStr (java_lex s))",
        "model_vo": "Dad/JavaLex.vo", "canon": canon_javalex, "pinned": False, "shard": 500,
        "nontrivial": lambda c, r: r is not None and not isinstance(r, Err),
    },
    {
        "name": "javac", "gen": gen_javac, "impl": impl_javac, "pinned": False, "oracle": oracle_javac,
        "case_timeout": 200,
        "nontrivial": lambda c, r: isinstance(r, list) and r and r[0] != "javac-rejected",
    },
]


# ---- stream 4: string constants of a DEX file through the whole path (string data item -> const-string -> DvMethod source) ----
def gen_dexconst(rng, tier, ctx):
    cases = [[[0x61, 0xD83D], [0xD83D, 0xDE00], [0xDE00], [0xDC00, 0xD800], [34, 92, 10, 0, 39], [92, 117, 100, 56, 51, 100]],
             [[c] for c in (0, 8, 9, 10, 12, 13, 34, 39, 92, 127, 0x7F, 0x80, 0x7FF, 0x800, 0x2028, 0xD7FF, 0xD800, 0xDBFF, 0xDC00, 0xDFFF, 0xE000, 0xFFFF)]]
    for _ in range(60 if tier == "thorough" else 12):
        out = []
        for _ in range(rng.choice((1, 3, 6))):
            us = []
            for _ in range(rng.choice((1, 2, 5, 12))):
                r = rng.random()
                if r < 0.3:
                    us.append(rng.choice(INTERESTING[:47]))
                elif r < 0.5:
                    us.append(rng.randrange(0xD800, 0xE000))        # surrogates, paired only by chance
                elif r < 0.6:
                    c = rng.randrange(0x10000, 0x110000)
                    us += utf16([c])
                else:
                    us.append(rng.randrange(32, 127))
            out.append(us)
        cases.append(out)
    return cases


def impl_dexconst(case):
    from tools.writers.dexwriter import DexBuilder, Code, Str
    from androguard.core.dex import DEX
    from androguard.core.analysis.analysis import Analysis
    from androguard.decompiler.decompile import DvClass, DvMethod
    strs = ["".join(chr(u) for u in us) for us in case]
    b = DexBuilder(extra_strings=strs)
    k = b.add_class("Lp/S;")
    for j, s in enumerate(strs):
        k.add_method("m%d" % j, "Ljava/lang/String;", (), access=9, direct=True, code=Code(1, 0, 0, [0x001A, Str(s), 0x0011]))
    d = DEX(b.build())
    dx = Analysis(d)
    by_method, by_class = {}, {}
    for m in d.get_class("Lp/S;").get_methods():
        dv = DvMethod(dx.get_method(m))
        dv.process()
        by_method[m.get_name()] = [l.strip() for l in dv.get_source().splitlines() if l.strip().startswith("return ")]
    dc = DvClass(d.get_class("Lp/S;"), dx)
    dc.process()
    rets, cur = {}, None
    for l in dc.get_source().splitlines():
        l = l.strip()
        if l.startswith("public static String m") and l.endswith("()"):
            cur = l[len("public static String "):-2]
        elif l.startswith("return "):
            rets.setdefault(cur, []).append(l)
    out = []
    for j in range(len(strs)):
        lines = by_method.get("m%d" % j, [])
        r = rets.get("m%d" % j, [])
        out.append([[ord(ch) for ch in l] for l in lines] + [[ord(ch) for ch in r[0]] if len(r) == 1 else None])
    return out


def oracle_dexconst(case, res):
    if isinstance(res, Err):
        return "decompiling a method that returns a string constant failed: %s %s" % (res.name, res.msg[:150])
    for us, lines in zip(case, res):
        if len(lines) != 2 or lines[1] is None:
            return "the method returning the constant %r has no single return statement" % (us,)
        for what, l in zip(("DvMethod.get_source", "DvClass.get_source"), lines):
            text = "".join(map(chr, l))
            if not (text.startswith("return ") and text.endswith(";")):
                return "%s: unexpected statement %r" % (what, text)
            got = java_lex(utf16(l[len("return "):-1]))
            if got != us:
                return "%s writes the DEX string constant with code units %r as %r, which Java reads as %r" % (what, us, text[7:-1], got)
    return None


STREAMS.append({"name": "dex-constants", "gen": gen_dexconst, "impl": impl_dexconst, "pinned": False, "oracle": oracle_dexconst,
                "nontrivial": lambda c, r: not isinstance(r, Err)})
