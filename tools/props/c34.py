"""C34 - APK file access returns the archive's entries."""
import io
import zipfile

from tools.vlib.coqfmt import Err, zlist, coq_list

ID = "C34"
TITLE = "APK file access returns the archive's entries"
PROPS = "C34"
LEVEL = "proof"
DESIGN_REF = "DESIGN.md section 5, C34"
TECHNIQUE = ("Coq theorems (list induction: the two DEX-name patterns written as list functions are equal and accept exactly "
             "classes<ASCII digits>.dex; find/filter/map lemmas for get_file, get_dex_names, get_all_dex, is_multidex) about a "
             "hand-written model over an abstract archive; model tied to the source by a differential run of the real APK class "
             "on generated zip archives (stored and deflated, nested, non-ASCII and look-alike names, 0..5 DEX names)")
LEVEL_TEXT = ("Unbounded proof: for every archive (list of distinct entry names with contents) the modelled get_files lists "
              "exactly the entry names in order, get_file returns the content of a present entry and raises FileNotPresent "
              "otherwise, a name is listed by get_dex_names iff it is 'classes' + ASCII digits (possibly none) + '.dex' with "
              "nothing before or after, get_all_dex returns the contents of exactly those entries in order, and is_multidex "
              "holds iff there are at least two of them. The model is compared with the real APK class on generated zip "
              "archives on every run.")
LEVEL_NOTE = ("Trusted: Coq kernel; coq/Apk/FilesModel.v as a rendering of the five methods (the two regular expressions as "
              "list functions; the zip reader apkInspector is not modelled: an archive is the list of (name, uncompressed "
              "content) it delivers, compared with what Python's zipfile wrote); entry names are distinct in the theorems "
              "about get_file; the harness tools/props/c34.py.")
TRUSTED = ["hand-written model coq/Apk/FilesModel.v (archive as a list of named contents; apkInspector as an oracle)",
           "correspondence harness tools/props/c34.py (archives written with Python's zipfile)"]

COQ_HEADER = "Require Import V.Apk.FilesModel."

LOOKALIKE = ["classes.dex", "classes2.dex", "classes3.dex", "classes10.dex", "classes02.dex", "classes0.dex", "classes.dex\n",
             "classes2xdex", "classesxdex", "classes-2.dex", "classes2.dex.bak", "xclasses.dex", "Classes.dex", "classes.DEX",
             "classes٣.dex", "classes٢٣.dex", "classes2٣.dex", "classes２.dex", "classes 2.dex",
             "classes2 .dex", "classes.dex ", " classes.dex", "classes..dex", "classes2..dex", "classes.dexx", "classes",
             ".dex", "classes2", "classes+2.dex", "classes2.dex/", "assets/classes.dex", "assets/classes2.dex",
             "lib/a/classes.dex", "lib/b/classes2.dex", "assets/plugin/myclasses2.dex", "/classes.dex", "./classes.dex",
             "classes1e1.dex", "classes٣", "classes99999999999999999999.dex", "classes\n2.dex", "classes2.dex\n", "\nclasses.dex"]
OTHER = ["AndroidManifest.xml", "resources.arsc", "res/layout/main.xml", "META-INF/MANIFEST.MF", "é/ü.txt", "日本/語.bin",
         "a/b/c/d/e.txt", "empty", "dir/", "with space.txt", "assets/\U0001F600.png", "x" * 200, "lib/arm64-v8a/libfoo.so",
         # names that are not in Unicode normal form C, and both spellings of one name
         "cafe\u0301.txt", "caf\u00e9.txt", "\u1100\u1161.bin", "res/\u212b.x", "A\u030a.x", "\u0958.dat"]


def gen(rng, tier, ctx):
    cases = []
    n = 900 if tier == "thorough" else 150
    fixed = [
        (["classes.dex", "assets/classes.dex"]), (["classes.dex", "assets/plugin/myclasses2.dex"]),
        (["lib/a/classes.dex", "lib/b/classes2.dex"]), (["classes.dex", "classes2.dex"]), (["classes2.dex"]), ([]),
        (["classes٣.dex", "classes.dex"]), (["classes.dex\n", "classes.dex"]), (["classes2xdex", "classes3.dex"]),
    ]
    for names in fixed:
        ents = [(nm, rng.choice((0, 1)), _content(rng, nm)) for nm in names]
        cases.append((ents, names + ["missing.bin", "classes.dex"]))
    while len(cases) < n:
        k = rng.choice((0, 1, 2, 3, 5, 8, 12))
        names = []
        ndex = rng.choice((0, 1, 1, 2, 3, 5))
        pool = ["classes.dex"] + ["classes%d.dex" % i for i in rng.sample(range(0, 12), 5)]
        rng.shuffle(pool)
        names += pool[:ndex] if rng.random() < 0.7 else ["classes%d.dex" % (i + 2) for i in range(ndex)]
        for _ in range(k):
            names.append(rng.choice(LOOKALIKE if rng.random() < 0.5 else OTHER))
        names = list(dict.fromkeys(names))
        rng.shuffle(names)
        ents = [(nm, rng.choice((0, 1)), _content(rng, nm)) for nm in names]
        asks = [rng.choice(names) for _ in range(min(3, len(names)))] + [rng.choice(LOOKALIKE + OTHER + ["nope", ""])]
        cases.append((ents, asks))
    return cases


def _content(rng, name):
    if name.endswith("/"):
        return b""
    r = rng.random()
    if r < 0.15:
        return b""
    if r < 0.7:
        return bytes(rng.randrange(256) for _ in range(rng.randrange(1, 40)))
    return bytes([rng.randrange(4)]) * rng.randrange(100, 3000)      # compressible


def build(case):
    ents, asks = case
    buf = io.BytesIO()
    with zipfile.ZipFile(buf, "w") as zf:
        for name, deflate, data in ents:
            zi = zipfile.ZipInfo(name)
            zi.compress_type = zipfile.ZIP_DEFLATED if deflate else zipfile.ZIP_STORED
            zf.writestr(zi, data)
    return buf.getvalue()


def impl(case):
    from androguard.core.apk import APK, FileNotPresent
    ents, asks = case
    a = APK(build(case), raw=True, skip_analysis=True)

    def getf(n):
        try:
            return bytes(a.get_file(n))
        except FileNotPresent:
            return Err("FileNotPresent")
    files = list(a.get_files())
    got = [getf(n) for n in asks]
    names = list(a.get_dex_names())
    try:
        alldex = [bytes(x) for x in a.get_all_dex()]
    except FileNotPresent:
        alldex = [Err("FileNotPresent")]
    first = [files, got, names, alldex, bool(a.is_multidex())]
    # the same questions again on the same object, and after a get_all_dex() generator that was left half-way
    def alld():
        try:
            return [bytes(x) for x in a.get_all_dex()]
        except FileNotPresent:
            return [Err("FileNotPresent")]
    again = [list(a.get_files()), [getf(n) for n in asks], list(a.get_dex_names()), alld(), bool(a.is_multidex())]
    g = a.get_all_dex()
    try:
        next(g)
    except (StopIteration, FileNotPresent):
        pass
    third = alld()
    return first + [again == first, third == alldex]


def is_dex_name(n):
    return n.startswith("classes") and n.endswith(".dex") and len(n) >= 11 and all(c in "0123456789" for c in n[7:-4])


def oracle(case, res):
    ents, asks = case
    if isinstance(res, Err):
        return "APK() failed on a generated archive: %s %s" % (res.name, res.msg[:100])
    files, got, names, alldex, multi = res[:5]
    if not res[5]:
        return "asked a second time, the same APK object gives other answers (files, get_file, get_dex_names, get_all_dex, is_multidex)"
    if not res[6]:
        return "get_all_dex() after a half-consumed get_all_dex() generator gives other contents than the first call"
    want_files = [e[0] for e in ents]
    d = {e[0]: e[2] for e in ents}
    if files != want_files:
        return "get_files() = %r, the archive holds %r" % (files[:6], want_files[:6])
    for n, g in zip(asks, got):
        w = d.get(n, Err("FileNotPresent"))
        if g != w:
            return "get_file(%r) gives %r, expected %r" % (n, g if isinstance(g, Err) else g[:20], w if isinstance(w, Err) else w[:20])
    dn = [n for n in want_files if is_dex_name(n)]
    if names != dn:
        return "get_dex_names() = %r, the root-level classesN.dex entries are %r" % (names, dn)
    if alldex != [d[n] for n in dn]:
        return "get_all_dex() does not return the contents of %r" % (dn,)
    if multi != (len(dn) > 1):
        return "is_multidex() = %r with DEX entries %r (all entries: %r)" % (multi, dn, want_files[:8])
    return None


def coq_input(case):
    ents, asks = case
    arch = coq_list(["(%s, %s)" % (zlist([ord(c) for c in n]), zlist(list(data))) for n, _, data in ents])
    return "(%s, %s)" % (arch, coq_list([zlist([ord(c) for c in n]) for n in asks]))


def stats(cases, results):
    d = {"archives": len(cases), "entries": 0, "deflated": 0, "non_ascii_names": 0, "nested_names": 0, "lookalike_names": 0}
    for (ents, asks), r in zip(cases, results):
        nd = sum(1 for e in ents if is_dex_name(e[0]))
        d["dex=%d" % min(nd, 5)] = d.get("dex=%d" % min(nd, 5), 0) + 1
        for n, df, data in ents:
            d["entries"] += 1
            d["deflated"] += df
            d["non_ascii_names"] += any(ord(c) > 127 for c in n)
            d["nested_names"] += "/" in n
            d["lookalike_names"] += (n in LOOKALIKE and not is_dex_name(n))
    return d


def gen_names(rng, tier, ctx):
    out = set(LOOKALIKE + OTHER)
    alphabet = "classes.dex0123456789\n٣ x/"
    for _ in range(4000 if tier == "thorough" else 700):
        r = rng.random()
        if r < 0.5:
            s = "classes" + "".join(rng.choice("0123456789٣x") for _ in range(rng.randrange(0, 5))) + rng.choice((".dex", ".dex", "xdex", ".dex\n", ".de", ".dexx", ""))
        else:
            s = "".join(rng.choice(alphabet) for _ in range(rng.randrange(0, 16)))
        out.add(s)
    return sorted(out)


def impl_names(case):
    """The two patterns exactly as the methods apply them, through an APK object with one entry."""
    from androguard.core.apk import APK

    class FakeZip:
        def __init__(self, names):
            self.names = names

        def namelist(self):
            return self.names
    a = APK.__new__(APK)
    a.zip = FakeZip([case, "other.bin"])
    one = case in list(a.get_dex_names())
    a.zip = FakeZip([case, case])
    two = bool(a.is_multidex())
    return [one, two]


def oracle_names(case, res):
    if isinstance(res, Err):
        return "pattern evaluation failed: %s" % res.name
    w = is_dex_name(case)
    if res != [w, w]:
        return "name %r: get_dex_names lists it: %r, is_multidex counts it: %r, it %s a root-level classesN.dex name" % (
            case, res[0], res[1], "is" if w else "is not")
    return None


STREAMS = [
    {"name": "archives", "gen": gen, "impl": impl, "coq_header": COQ_HEADER, "coq_type": "archive * list (list Z)",
     "coq_input": coq_input, "coq_obs": "obs_apk", "model_vo": "Apk/FilesModel.vo", "pinned": False, "oracle": oracle,
     "stats": stats, "shard": 40, "canon": lambda r: r[:5]},
    {"name": "names", "gen": gen_names, "impl": impl_names, "coq_header": COQ_HEADER, "coq_type": "list Z",
     "coq_input": lambda c: zlist([ord(x) for x in c]), "coq_obs": "obs_name", "model_vo": "Apk/FilesModel.vo",
     "pinned": False, "oracle": oracle_names},
]
