"""C29 - resource resolution terminates on reference cycles."""
from tools.vlib.coqfmt import Err, z, coq_list

ID = "C29"
TITLE = "Resource resolution terminates on reference cycles"
PROPS = "C29"
LEVEL = "proof"
DESIGN_REF = "DESIGN.md section 5, C29"
TECHNIQUE = ("Coq theorems by induction on the recursion fuel (termination by counting the ids not yet on the resolving "
             "stack; soundness by induction over the result; completeness along every repetition-free reference path) "
             "about a hand-written model of ResourceResolver and get_res_configs; model tied to the source by a differential "
             "run on generated resources.arsc files (independent writer) with chains, cycles of length 1..5, complex entries "
             "referencing back, several resolutions on one parser")
LEVEL_TEXT = ("Unbounded proof: for every resource table (any reference graph, cycles of any length, complex entries whose "
              "items reference back), every wanted configuration and every resource id, the modelled resolver returns "
              "within (number of ids occurring in the table + 1) nested calls; every value in the result is reachable from "
              "the id through references, and every value reachable along a reference path that repeats no id is in the "
              "result. The model is compared on every run with the real ARSCParser.get_resolved_res_configs on generated "
              "binary resource tables.")
LEVEL_NOTE = ("Trusted: Coq kernel; coq/Axml/ResolverModel.v as a rendering of ResourceResolver.resolve/_resolve_into_result/"
              "put_ate_value/put_item_value and of get_res_configs (resource ids and configurations as integers, formatted "
              "values as numbers; the binary parsing of the table is not part of this model); the harness tools/props/c29.py "
              "and the ARSC writer tools/writers/arscwriter.py. With a wanted configuration the selection made by "
              "get_res_configs can hide entries: 'reachable' is reachability through the entries that selection returns.")
TRUSTED = ["hand-written model coq/Axml/ResolverModel.v",
           "correspondence harness tools/props/c29.py and the independent ARSC writer tools/writers/arscwriter.py"]

COQ_HEADER = "Require Import V.Axml.ResolverModel."
LANGS = ["", "de", "fr", "es"]
PKG = 0x7F
NTYPES = 2


def rid(t, i):
    return (PKG << 24) | ((t + 1) << 16) | i


def gen(rng, tier, ctx):
    """case = (entries, wanted, queries): entries = {(t, i): {cfg: entry}} as nested lists; entry = ('s', item) |
    ('c', [items]) | ('k', value); item = ('r', target id) | ('v', n)."""
    cases = []
    n_cases = 1200 if tier == "thorough" else 160
    # cycles of length 1..5 through simple and complex entries
    for L in range(1, 6):
        for kind in ("s", "c"):
            ent = {}
            for i in range(L):
                nxt = rid(0, (i + 1) % L)
                e = ("s", ("r", nxt)) if kind == "s" else ("c", [("v", 10 + i), ("r", nxt), ("r", nxt), ("v", 20 + i)])
                ent[(0, i)] = {0: e}
            ent[(0, L)] = {0: ("s", ("r", rid(0, 0)))}
            cases.append((_freeze(ent), None, [rid(0, j) for j in range(L + 1)] + [rid(0, 0)]))
    vcount = [100]

    def val():
        vcount[0] += 1
        return ("v", vcount[0])
    while len(cases) < n_cases:
        n = rng.choice((2, 3, 4, 5, 6, 8, 10))
        ids = [(rng.randrange(NTYPES), i) for i in range(n)]
        ids = sorted(set(ids))
        allr = [rid(t, i) for (t, i) in ids]

        def target():
            r = rng.random()
            if r < 0.82:
                return rng.choice(allr)
            if r < 0.90:
                return 0
            if r < 0.96:
                return rid(rng.randrange(NTYPES), 40 + rng.randrange(3))      # not in the table
            return 0x01040000 + rng.randrange(3)                               # framework id, not in the table

        def item():
            return ("r", target()) if rng.random() < 0.6 else val()
        ent = {}
        for key in ids:
            cfgs = sorted(rng.sample(range(len(LANGS)), rng.choice((1, 1, 1, 2, 3))))
            d = {}
            for c in cfgs:
                r = rng.random()
                if r < 0.45:
                    d[c] = ("s", item())
                elif r < 0.9:
                    d[c] = ("c", [item() for _ in range(rng.choice((0, 1, 2, 2, 3, 4)))])
                else:
                    d[c] = ("k", val()[1])
            ent[key] = d
        # make sure some cycle of random length exists
        if rng.random() < 0.7 and len(ids) >= 2:
            L = rng.randint(2, min(5, len(ids)))
            cyc = rng.sample(ids, L)
            for a, b in zip(cyc, cyc[1:] + cyc[:1]):
                c = rng.choice(sorted(ent[a]))
                e = ent[a][c]
                if e[0] == "c":
                    ent[a][c] = ("c", e[1] + [("r", rid(*b))])
                else:
                    ent[a][c] = ("s", ("r", rid(*b)))
        wanted = None if rng.random() < 0.6 else rng.randrange(len(LANGS))
        qs = [rng.choice(allr) for _ in range(rng.choice((1, 2, 3, 5)))]
        if rng.random() < 0.15:
            qs.append(rng.choice((0, rid(0, 50))))
        cases.append((_freeze(ent), wanted, qs))
    return cases


def _freeze(ent):
    return [[list(k), [[c, e] for c, e in sorted(d.items())]] for k, d in sorted(ent.items())]


def build(case):
    from tools.writers.arscwriter import Table, Config, Simple, Complex, Compact, STRING, REFERENCE
    entries, wanted, qs = case
    t = Table(package="com.ex", package_id=PKG, utf8=False)
    for ti in range(NTYPES):
        t.add_type("type%d" % ti)

    def res_value(it):
        return Simple(REFERENCE, it[1]) if it[0] == "r" else Simple(STRING, "v%d" % it[1])
    for c in range(len(LANGS)):                       # configuration chunks in ascending order of the tag
        for (ti, i), d in entries:
            for cc, e in d:
                if cc != c:
                    continue
                if e[0] == "s":
                    v = res_value(e[1])
                elif e[0] == "c":
                    v = Complex([(0x02000000 + k, res_value(it)) for k, it in enumerate(e[1])])
                else:
                    v = Compact(STRING, "v%d" % e[1])
                t.add_entry("type%d" % ti, i, "k%d_%d" % (ti, i), Config(language=LANGS[c]), v)
    return t.build()


def _canon_res(x, cfgtag):
    if isinstance(x, tuple):
        cfg, v = x
        tag = cfgtag(cfg)
        if isinstance(v, list):
            return [tag, [_canon_res(y, cfgtag) for y in v]]
        return [tag, _num(v)]
    return _num(x)


def _num(s):
    if isinstance(s, str) and s.startswith("v") and s[1:].isdigit():
        return int(s[1:])
    return -1


def impl(case):
    from androguard.core.axml import ARSCParser, ARSCResTableConfig
    entries, wanted, qs = case
    p = ARSCParser(build(case))

    def cfgtag(cfg):
        lr = cfg.get_language_and_region()
        lr = "" if lr == "\x00\x00" else lr
        return LANGS.index(lr)
    w = None
    if wanted is not None:
        if wanted == 0:
            w = ARSCResTableConfig.default_config()
        else:
            p._analyse()
            for d in p.resource_values.values():
                for cfg in d:
                    if cfgtag(cfg) == wanted:
                        w = cfg
            if w is None:
                w = ARSCResTableConfig(None, locale=LANGS[wanted])
    out = []
    for q in qs:                                      # several resolutions on one parser object
        try:
            r = p.get_resolved_res_configs(q, w)
            out.append([_canon_res(x, cfgtag) for x in r])
        except RecursionError:
            out.append(Err("RecursionError"))
        except ValueError:
            out.append(Err("ValueError"))
    return out


def _item(it):
    return "(IRef %s)" % z(it[1]) if it[0] == "r" else "(IVal %s)" % z(it[1])


def _entry(e):
    if e[0] == "s":
        return "(ESimple %s)" % _item(e[1])
    if e[0] == "c":
        return "(EComplex %s)" % coq_list([_item(i) for i in e[1]])
    return "(ECompact %s)" % z(e[1])


def coq_table(entries):
    return coq_list(["(%s, %s)" % (z(rid(*k)), coq_list(["(%s, %s)" % (z(c), _entry(e)) for c, e in d])) for k, d in entries])


def coq_input(case):
    entries, wanted, qs = case
    w = "None" if wanted is None else "(Some %s)" % z(wanted)
    return "((%s, %s), %s)" % (coq_table(entries), w, coq_list([z(q) for q in qs]))


# ---- oracle: reachability, stated directly -------------------------------------------------------------------------------
def _select(wanted, opts):
    if wanted is not None and len(opts) > 1:
        for c, e in opts:
            if c == wanted:
                return [[c, e]]
        return opts[:1] if wanted == 0 else []
    return opts


def _reachable_values(entries, wanted, q):
    tbl = {rid(*k): d for k, d in entries}
    seen, todo, vals = set(), [q], set()
    while todo:
        x = todo.pop()
        if x in seen or x == 0:
            continue
        seen.add(x)
        for c, e in _select(wanted, tbl.get(x, [])):
            its = [e[1]] if e[0] == "s" else e[1] if e[0] == "c" else [("v", e[1])]
            for it in its:
                if it[0] == "r":
                    todo.append(it[1])
                else:
                    vals.add(it[1])
    return vals


def _flat(x):
    if isinstance(x, list) and len(x) == 2 and isinstance(x[1], list):
        return [v for y in x[1] for v in _flat(y)]
    if isinstance(x, list):
        return [x[1]]
    return [x]


def oracle(case, res):
    entries, wanted, qs = case
    if isinstance(res, Err):
        return "resolution did not complete: %s" % res.name
    for q, r in zip(qs, res):
        if isinstance(r, Err):
            if r.name == "ValueError" and q == 0:
                continue
            return "resolving 0x%08x did not terminate normally: %s" % (q, r.name)
        got = set(v for x in r for v in _flat(x))
        want = _reachable_values(entries, wanted, q)
        if got != want:
            return "resolving 0x%08x gives the values %r, reachable are %r" % (q, sorted(got), sorted(want))
    return None


def stats(cases, results):
    d = {"tables": len(cases), "resolutions": 0, "tables_with_cycle": 0, "with_wanted_config": 0, "complex_entries": 0}
    for (entries, wanted, qs), r in zip(cases, results):
        d["resolutions"] += len(qs)
        d["with_wanted_config"] += wanted is not None
        tbl = {rid(*k): dd for k, dd in entries}
        graph = {}
        for k, dd in tbl.items():
            outs = set()
            for c, e in dd:
                d["complex_entries"] += e[0] == "c"
                for it in ([e[1]] if e[0] == "s" else e[1] if e[0] == "c" else []):
                    if it[0] == "r":
                        outs.add(it[1])
            graph[k] = outs

        def reach(a):
            seen, todo = set(), list(graph.get(a, ()))
            while todo:
                x = todo.pop()
                if x not in seen:
                    seen.add(x)
                    todo += list(graph.get(x, ()))
            return seen
        d["tables_with_cycle"] += any(k in reach(k) for k in graph)
    return d


STREAMS = [{
    "name": "tables", "gen": gen, "impl": impl, "coq_header": COQ_HEADER,
    "coq_type": "(table * option Z) * list Z", "coq_input": coq_input, "coq_obs": "obs_resolve_all",
    "model_vo": "Axml/ResolverModel.vo", "pinned": False, "oracle": oracle, "stats": stats, "shard": 60,
}]
