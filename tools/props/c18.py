"""C18 - the decompiler's dominator tree is the true dominator tree."""
import itertools

from tools.props import c19
from tools.vlib.coqfmt import Err, z, zlist, coq_list

ID = "C18"
TITLE = "The decompiler's dominator tree is the true dominator tree"
PROPS = "C18"
LEVEL = "translation_validation"
DESIGN_REF = "DESIGN.md section 5, C18"
TECHNIQUE = ("Coq theorems about an executable specification of immediate dominators (dominance decided by removing the "
             "candidate and recomputing reachability): the reachability closure is proved equal to path existence (closedness "
             "of the fixed point, induction on paths) and the returned node is proved to satisfy the standard definition; "
             "the Lengauer-Tarjan code is modelled as it runs (depth-first numbering with predecessor sets, path compression, "
             "semidominators with buckets, final pass) and proved equal to the specification on every graph of up to four "
             "nodes by a kernel sweep over that finite domain; beyond that its output - and the model's - is compared with the "
             "proved specification, evaluated by the kernel, on random larger graphs (translation validation)")
LEVEL_TEXT = ("Partial. Unbounded proof about the specification: for every graph and entry, when spec_idom returns a table, "
              "its keys are exactly the nodes reachable from the entry, the entry has no dominator, and every other node is "
              "mapped to a node d such that every path from the entry to it passes through d, d is not the node itself, and "
              "every other node with that property also lies on every path to d. Proof over a finite domain: the model of "
              "dom_lt (coq/Dad/LtModel.v) ends and returns exactly that table on EVERY graph of one to four nodes (successor "
              "lists in increasing order, every node as entry: 65536 x 4 graphs of four nodes, swept by the kernel; "
              "C18_dom_lt_meets_the_definition_up_to_four_nodes), also when the sets pred[w] and bucket[v], whose order in Python "
              "depends on memory addresses, are iterated in the opposite order. What is NOT proved is that dom_lt computes "
              "this function for every larger graph: that is decided per graph, by evaluating the proved specification and the "
              "model of dom_lt inside Coq and comparing both with the real output - exhaustively for all digraphs with up to 3 "
              "(quick) or 4 (thorough) nodes, and on random graphs (loops, irreducible regions, catch edges, up to 60 nodes - the specification is cubic and worse, larger graphs are checked by the Python oracle only).")
LEVEL_NOTE = ("Trusted: Coq kernel; coq/Dad/LtModel.v as a rendering of dom_lt (dictionaries as functions, the sets pred[w] and "
              "bucket[v] as lists in insertion order - Python's order depends on memory addresses, the result does not); "
              "coq/Dad/DomModel.v as the statement of what immediate_dominators returns (node -> idom "
              "for reachable nodes, None for the entry, no entry for unreachable nodes); the harness tools/props/c18.py "
              "(graph construction shared with C19).")
TRUSTED = ["executable specification coq/Dad/DomModel.v (proved against the path definition of dominance)",
           "hand-written model coq/Dad/LtModel.v of dom_lt",
           "correspondence harness tools/props/c18.py, tools/props/c19.py (graph builders)"]

COQ_HEADER = "Require Import V.Dad.DomModel V.Dad.LtModel."


def all_graphs(n):
    """every successor structure on n nodes (self loops included), entry = node 0"""
    pairs = [(i, j) for i in range(n) for j in range(n)]
    for bits in range(1 << len(pairs)):
        edges = [[] for _ in range(n)]
        for k, (i, j) in enumerate(pairs):
            if bits >> k & 1:
                edges[i].append(j)
        yield (n, 0, edges, [[] for _ in range(n)])


def gen_small(rng, tier, ctx):
    cases = []
    for n in (1, 2, 3):
        cases += list(all_graphs(n))
    if tier == "thorough":
        cases += list(all_graphs(4))
    else:
        pool = [(i, j) for i in range(4) for j in range(4)]
        for _ in range(300):
            edges = [[] for _ in range(4)]
            for (i, j) in pool:
                if rng.random() < 0.4:
                    edges[i].append(j)
            cases.append((4, 0, edges, [[] for _ in range(4)]))
    return cases


def gen_random(rng, tier, ctx):
    cases = []
    # loops with several entries: a spine, back edges, forward edges skipping into the loop (some of them catch edges)
    for _ in range(2500 if tier == "thorough" else 500):
        n = rng.randint(5, 9) if rng.random() < 0.8 else rng.randint(10, 16)
        edges = [[i + 1] if i + 1 < n else [] for i in range(n)]
        catch = [[] for _ in range(n)]
        for _ in range(rng.randint(1, 3)):
            j = rng.randrange(2, n)
            edges[j].append(rng.randrange(0, j))
        for _ in range(rng.randint(1, 4)):
            a = rng.randrange(0, n - 2)
            (catch if rng.random() < 0.4 else edges)[a].append(rng.randrange(a + 2, n))
        for l in edges + catch:
            rng.shuffle(l)
        cases.append((n, 0, [c19._dedup(l) for l in edges], [c19._dedup(l) for l in catch]))
    # dense five-node graphs (the exhaustive stream stops at three or four nodes)
    for _ in range(6000 if tier == "thorough" else 1200):
        edges = [[j for j in range(5) if rng.random() < 0.3] for i in range(5)]
        cases.append((5, 0, edges, [[] for _ in range(5)]))
    for _ in range(600 if tier == "thorough" else 150):
        n = rng.choice((5, 6, 6, 7, 8, 8, 10, 12, 16, 25)) if rng.random() < 0.93 else rng.choice((40, 60))
        style = rng.choice(("tree+", "dag", "cfg", "any", "chain", "chain", "tree"))
        if style in ("tree+", "dag", "cfg", "any"):
            edges, catch = c19._rand_graph(rng, n, style)
            case = (n, 0, edges, catch)
        else:
            edges = [[] for _ in range(n)]
            for i in range(1, n):
                edges[rng.randrange(i) if style == "tree" else i - 1].append(i)
            for _ in range(rng.randrange(0, n + 3) if style != "tree" else rng.randrange(0, 3)):
                a, b = rng.randrange(n), rng.randrange(n)
                edges[a].append(b)                                      # back, cross and forward edges; irreducible regions
            catch = [[] for _ in range(n)]
            for _ in range(rng.randrange(0, 3)):
                catch[rng.randrange(n)].append(rng.randrange(n))
            case = (n, 0, [c19._dedup(l) for l in edges], [c19._dedup(l) for l in catch])
        cases.append(case)
    # the same kinds of graphs with the nodes added in another order, and graphs that are asked, grow by catch edges and are asked again
    extra = []
    for case in cases[::3]:
        n = case[0]
        order = list(range(n))
        rng.shuffle(order)
        extra.append(tuple(case) + (order,))
    for case in cases[1::7]:
        n = case[0]
        late = [(rng.randrange(n), rng.randrange(n)) for _ in range(rng.randint(1, 3))]
        extra.append(tuple(case) + (None, late))
    # two deferred dominators in a chain, the deeper node added to the graph before the other
    extra.append((5, 0, [[1, 2], [2], [3, 4], [4], []], [[], [3], [], [], []], [0, 1, 2, 4, 3]))
    extra.append((4, 0, [[1], [2], [3], []], [[] for _ in range(4)], None, [(0, 3)]))
    return cases + extra


def impl(case):
    g, nodes = c19.build(case)
    idx = {x: i for i, x in enumerate(nodes)}
    if len(case) > 5:                         # the graph is asked once, then grows by catch edges, and is asked again
        g.immediate_dominators()
        for a, b in case[5]:
            g.add_catch_edge(nodes[a], nodes[b])
    dom = g.immediate_dominators()
    out = []
    for x in nodes:
        if x not in dom:
            out.append(-2)
        elif dom[x] is None:
            out.append(-1)
        else:
            out.append(idx[dom[x]])
    return out


def all_sucs(case):
    n, entry, edges, catch = case[:4]
    late = case[5] if len(case) > 5 else []
    return [c19._dedup(list(edges[i]) + list(catch[i]) + [b for a, b in late if a == i]) for i in range(n)]


def coq_input(case):
    return "(%s, %s)" % (coq_list([zlist(l) for l in all_sucs(case)]), z(case[1]))


def oracle(case, res):
    """independent statement: remove d, recompute reachability"""
    if isinstance(res, Err):
        return "immediate_dominators failed: %s %s" % (res.name, res.msg[:120])
    n, entry = case[0], case[1]
    sucs = all_sucs(case)

    def reach(avoid):
        if entry == avoid:
            return set()
        seen, todo = {entry}, [entry]
        while todo:
            u = todo.pop()
            for v in sucs[u]:
                if v != avoid and v not in seen:
                    seen.add(v)
                    todo.append(v)
        return seen
    R = reach(None)
    without = {d: reach(d) for d in R}
    for v in range(n):
        if v not in R:
            if res[v] != -2:
                return "node %d is unreachable but has immediate dominator %d" % (v, res[v])
            continue
        if v == entry:
            if res[v] != -1:
                return "the entry has immediate dominator %d" % res[v]
            continue
        sdom = [d for d in R if d != v and v not in without[d]]
        best = [d for d in sdom if all(d2 == d or d not in without[d2] for d2 in sdom)]
        if res[v] not in best:
            return "node %d: immediate dominator reported as %d, by definition it is %s (strict dominators %s)" % (v, res[v], best, sorted(sdom))
    return None


def stats(cases, results):
    d = {"graphs": len(cases), "nodes_max": max(c[0] for c in cases), "with_unreachable": 0, "with_self_loop": 0, "with_catch": 0}
    for c, r in zip(cases, results):
        if not isinstance(r, Err):
            d["with_unreachable"] += -2 in r
        d["with_self_loop"] += any(i in l for i, l in enumerate(c[2]))
        d["with_catch"] += any(c[3])
    return d


STREAMS = [
    {"name": "all-small-graphs", "gen": gen_small, "impl": impl, "coq_header": COQ_HEADER, "coq_type": "graph * Z", "coq_input": coq_input,
     "coq_obs": "obs_both", "canon": lambda r: r if isinstance(r, Err) else [r, r], "model_vo": "Dad/LtModel.vo", "pinned": False, "oracle": oracle, "stats": stats, "shard": 400},
    {"name": "random-graphs", "gen": gen_random, "impl": impl, "coq_header": COQ_HEADER, "coq_type": "graph * Z", "coq_input": coq_input,
     "coq_obs": "obs_both", "canon": lambda r: r if isinstance(r, Err) else [r, r], "model_vo": "Dad/LtModel.vo", "pinned": False, "oracle": oracle, "stats": stats, "shard": 150, "case_timeout": 300},
]
