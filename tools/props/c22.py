"""C22 - decompilation output is deterministic."""
import json
import os
import random
import subprocess
import sys
import tempfile

from tools.tr import setsites_tr
from tools.vlib.coqfmt import Err, z, zlist, coq_list, coq_bool

ID = "C22"
TITLE = "Decompilation output is deterministic"
PROPS = "C22"
LEVEL = "proof"
DESIGN_REF = "DESIGN.md section 5, C22"
TECHNIQUE = ("Coq theorems (induction over Permutation; a fold with commuting steps is order free; lowest common ancestor in a "
             "tree by its universal property) that each modelled walk over a Python set gives the same result for every order "
             "of the elements, plus a theorem re-checked on every run that every walk over a set which a fail-closed AST "
             "inventory finds in androguard/decompiler/*.py belongs to a modelled class; site models tied to the source by "
             "differential runs of the real functions on generated inputs under controlled hashes; the printed text as a "
             "whole explored (not proved) by decompiling shipped and generated methods under several hash salts and in fresh "
             "processes with different PYTHONHASHSEED, allocation layout and decompilation history")
LEVEL_TEXT = ("Unbounded proof, per site: for every list of elements and every permutation of it, the per-element loops "
              "(if_struct, switch_struct, identify_structures, split_if_nodes, simplify), any()/all() over a set, "
              "Interval.compute_end (as repaired), the declaration list of a block (as repaired), max(..., key=num), the "
              "follow scan of loop_follow (under the stated condition that every conditional node of the loop keeps a branch "
              "in the loop) and the common dominator fold of place_declarations give the same result; refuted statements "
              "record what held before the repairs. The inventory theorem ties the list of sites to the current source. "
              "Not proved: that the text written by DvMethod.get_source depends on the sets only through these sites "
              "(the decompiler as a whole is not modelled), the value-hash argument for sets of ints, and the Lengauer-Tarjan "
              "bucket walk (dom_lt: modelled for C18, where the model gives the same table with its sets iterated in either order "
              "on every graph of up to four nodes; beyond that covered by the comparisons of C18 and by the streams here). For those the check is an "
              "exploration: identical text under 4 (quick) / 8 (thorough) hash salts and in three fresh processes.")
LEVEL_NOTE = ("Trusted: Coq kernel; the inventory translator tools/tr/setsites_tr.py with its syntactic notion of a set-typed "
              "expression and tools/tr/setsites_expected.json (classification of the 26 sites by reading); "
              "coq/Dad/OrderModel.v as a rendering of the modelled sites; CPython's rule that the hash of an int is its value; "
              "the harness tools/props/c22.py with tools/vlib/saltedhash.py (hashes of Node, Interval and IRForm objects replaced "
              "from the harness process by salted counters, so that one process can replay many memory layouts), "
              "tools/vlib/c22_child.py and tools/vlib/javadiff.py (DEX generation).")
TRUSTED = ["inventory translator tools/tr/setsites_tr.py and tools/tr/setsites_expected.json",
           "hand-written model coq/Dad/OrderModel.v",
           "correspondence harness tools/props/c22.py, tools/vlib/saltedhash.py, tools/vlib/c22_child.py, tools/vlib/javadiff.py",
           "CPython: hash(int) is the value; dicts keep insertion order"]

COQ_HEADER = "Require Import V.Dad.OrderModel."
VERIF_DIR = os.path.dirname(os.path.dirname(os.path.dirname(os.path.abspath(__file__))))


def translate(ctx):
    gen = setsites_tr.translate(ctx)
    inv = ctx.set_sites
    by = {}
    for site in inv["sites"]:
        by[site["class"]] = by.get(site["class"], 0) + 1
    ctx.notes.append("inventory of walks over sets in androguard/decompiler: %d sites %s; unknown: %s; listed but gone: %s" % (
        len(inv["sites"]), by, inv["unknown"] or "none", inv["listed_but_not_in_source"] or "none"))
    return gen


# ============================================================================================================ site streams
def rand_salt(rng):
    return rng.randrange(1, 10**6)


# ---- Interval.compute_end
def gen_end(rng, tier, ctx):
    cases = [{"n": 3, "edges": [(0, 1), (0, 2), (1, 7), (2, 8)], "rpo": [0, 1, 2, 7, 8], "content": [0, 1, 2], "head": 0, "salt": s} for s in range(1, 9)]
    for _ in range(400 if tier == "thorough" else 120):
        n = rng.randint(2, 9)
        ids = list(range(n + 3))
        edges = [(a, rng.choice(ids)) for a in range(n) for _ in range(rng.choice((1, 1, 2, 2, 3)))]
        inside = [0] + rng.sample(range(1, n), rng.randint(0, n - 1))
        rpo = ids[:]
        rng.shuffle(rpo)
        if rng.random() < 0.8:
            rpo.remove(0)
            rpo.insert(0, 0)
        rng.shuffle(inside)
        inside.remove(0)
        cases.append({"n": n, "edges": edges, "rpo": rpo, "content": [0] + inside, "head": 0, "salt": rand_salt(rng)})
    return cases


def impl_end(c):
    from tools.vlib import saltedhash
    from androguard.decompiler.graph import Graph
    from androguard.decompiler.node import Node, Interval
    saltedhash.install()
    saltedhash.reset(c["salt"])
    ids = sorted({x for e in c["edges"] for x in e} | set(c["rpo"]) | set(c["content"]))
    objs = {i: Node("n%d" % i) for i in ids}
    g = Graph()
    for i in ids:
        g.add_node(objs[i])
    for a, b in c["edges"]:
        g.add_edge(objs[a], objs[b])
    g.rpo = [objs[i] for i in c["rpo"]]
    for k, o in enumerate(g.rpo):
        o.num = k + 1
    iv = Interval(objs[c["head"]])
    for i in c["content"]:
        if i != c["head"]:
            iv.add_node(objs[i])
    iv.compute_end(g)
    back = {id(o): i for i, o in objs.items()}
    return back[id(iv.end)]


def input_end(c):
    sucs = {}
    for a, b in c["edges"]:
        if b not in sucs.setdefault(a, []):
            sucs[a].append(b)
    return "((%s, %s), (%s, %s))" % (zlist(c["rpo"]), zlist(c["content"]), coq_list(["(%s, %s)" % (z(a), zlist(l)) for a, l in sorted(sucs.items())]), z(c["head"]))


def oracle_end(c, r):
    if isinstance(r, Err):
        return "harness failed: %s %s" % (r.name, r.msg[:200])
    inside = set(c["content"])
    leaving = [i for i in c["rpo"] if i in inside and any(a == i and b not in inside for a, b in c["edges"])]
    want = leaving[-1] if leaving else c["head"]
    if r != want:
        return "Interval.compute_end chose node %s; the last node in reverse post order that leaves the interval is %s (set walked with salt %d)" % (r, want, c["salt"])
    return None


# ---- BasicBlock.add_variable_declaration
def gen_decl(rng, tier, ctx):
    cases = [{"seq": [3, 1, 3, 2, 1], "salt": s} for s in range(1, 5)] + [{"seq": [], "salt": 1}]
    for _ in range(300 if tier == "thorough" else 100):
        k = rng.randint(1, 8)
        cases.append({"seq": [rng.randrange(k) for _ in range(rng.randint(1, 12))], "salt": rand_salt(rng)})
    return cases


def impl_decl(c):
    from tools.vlib import saltedhash
    from androguard.decompiler.basic_blocks import BasicBlock
    from androguard.decompiler.instruction import Variable
    saltedhash.install()
    saltedhash.reset(c["salt"])
    objs = {i: Variable(i) for i in set(c["seq"])}
    a, b = BasicBlock("a", []), BasicBlock("b", [])
    for i in c["seq"]:
        a.add_variable_declaration(objs[i])
    for var in a.var_to_declare:                     # the copy loops of graph.split_if_nodes / graph.simplify
        b.add_variable_declaration(var)
    return [[v.v for v in a.var_to_declare], [v.v for v in b.var_to_declare]]


def oracle_decl(c, r):
    if isinstance(r, Err):
        return "harness failed: %s %s" % (r.name, r.msg[:200])
    want = list(dict.fromkeys(c["seq"]))
    if r[0] != want or r[1] != want:
        return "variables registered as %s are declared as %s (copied block: %s), salt %d" % (c["seq"], r[0], r[1], c["salt"])
    return None


# ---- loop_follow
def gen_follow(rng, tier, ctx):
    cases = []
    for _ in range(500 if tier == "thorough" else 150):
        n = rng.randint(1, 7)
        loop = list(range(1, n + 1))
        outside = list(range(20, 26))
        info, nums = {}, {}
        allids = loop + outside
        perm = allids[:]
        rng.shuffle(perm)
        for k, i in enumerate(perm):
            nums[i] = k + 1
        respect = rng.random() < 0.8
        for i in loop:
            if rng.random() < 0.6:
                t, f = rng.choice(loop), rng.choice(outside)
                if not respect and rng.random() < 0.4:
                    t = rng.choice(outside)
                elif rng.random() < 0.3:
                    f = rng.choice(loop)
                if rng.random() < 0.5:
                    t, f = f, t
                info[i] = (True, t, f)
            else:
                info[i] = (False, -1, -1)
        start, latch = loop[0], loop[-1]
        kind = rng.choice(("pre", "post", "endless", "endless", "endless"))
        if kind == "pre" and not info[start][0]:
            info[start] = (True, rng.choice(loop), rng.choice(outside))
        if kind == "post" and not info[latch][0]:
            info[latch] = (True, rng.choice(loop), rng.choice(outside))
        order = loop[:]
        rng.shuffle(order)
        cases.append({"info": info, "nums": nums, "pre": kind == "pre", "post": kind == "post", "start": start, "latch": latch, "order": order})
    return cases


def impl_follow(c):
    from androguard.decompiler.node import Node
    from androguard.decompiler.control_flow import loop_follow
    ids = set(c["nums"]) | set(c["info"])
    objs = {i: Node("n%d" % i) for i in ids}
    for i, o in objs.items():
        o.num = c["nums"].get(i, 0)
    for i, (cond, t, f) in c["info"].items():
        objs[i].type.is_cond = cond
        if cond:
            objs[i].true, objs[i].false = objs[t], objs[f]
    s, e = objs[c["start"]], objs[c["latch"]]
    s.looptype.is_pretest = c["pre"]
    if c["post"]:
        s.looptype.is_posttest = True
    if not c["pre"] and not c["post"]:
        s.looptype.is_endless = True
    loop_follow(s, e, [objs[i] for i in c["order"]])
    back = {id(o): i for i, o in objs.items()}
    fo = s.follow["loop"]
    same = all(objs[i].follow["loop"] is fo for i in c["order"])
    return [None if fo is None else back[id(fo)], same]


def input_follow(c):
    info = coq_list(["(%s, (%s, (%s, %s)))" % (z(i), coq_bool(cd), z(t), z(f)) for i, (cd, t, f) in sorted(c["info"].items())])
    nums = coq_list(["(%s, %s)" % (z(i), z(n)) for i, n in sorted(c["nums"].items())])
    return "((%s, %s), ((%s, %s), ((%s, %s), %s)))" % (info, nums, coq_bool(c["pre"]), coq_bool(c["post"]), z(c["start"]), z(c["latch"]), zlist(c["order"]))


def one_foot_in(c):
    loop = set(c["order"])
    return all(not cd or t in loop or f in loop for i, (cd, t, f) in c["info"].items() if i in loop)


def oracle_follow(c, r):
    if isinstance(r, Err):
        return "harness failed: %s %s" % (r.name, r.msg[:200])
    if not r[1]:
        return "loop_follow did not give every node of the loop the same follow node"
    if not c["pre"] and not c["post"] and one_foot_in(c):
        loop = set(c["order"])
        cands = [x for i in c["order"] for cd, t, f in [c["info"][i]] if cd for x in (t, f) if x not in loop]
        want = min(cands, key=lambda x: c["nums"][x]) if cands else None
        if r[0] != want:
            return "loop_follow chose %s; the leaving branch with the smallest number is %s" % (r[0], want)
    return None


# ---- the common dominator fold of place_declarations
def gen_cdom(rng, tier, ctx):
    cases = []
    for _ in range(400 if tier == "thorough" else 120):
        n = rng.randint(1, 12)
        up = {1: 1}
        for i in range(2, n + 1):
            up[i] = rng.randrange(1, i)
        labels = list(range(1, n + 1))
        names = labels[:]
        rng.shuffle(names)                               # node identities are not their numbers
        ren = dict(zip(labels, [100 + x for x in names]))
        cases.append({"up": {ren[i]: ren[p] for i, p in up.items()}, "nums": {ren[i]: i for i in labels},
                      "nodes": [ren[i] for i in rng.sample(labels, rng.randint(1, min(n, 5)))], "salt": rand_salt(rng)})
    return cases


def impl_cdom(c):
    from tools.vlib import saltedhash
    from androguard.decompiler.node import Node
    from androguard.decompiler.util import common_dom
    saltedhash.install()
    saltedhash.reset(c["salt"])
    objs = {i: Node("n%d" % i) for i in c["nums"]}
    for i, o in objs.items():
        o.num = c["nums"][i]
    idom = {objs[i]: (None if p == i else objs[p]) for i, p in c["up"].items()}
    back = {id(o): i for i, o in objs.items()}
    # the lines of dataflow.place_declarations
    def_nodes = set()
    for i in c["nodes"]:
        def_nodes.add(objs[i])
    common_dominator = def_nodes.pop()
    used = [back[id(common_dominator)]]
    for def_node in def_nodes:
        used.append(back[id(def_node)])
        common_dominator = common_dom(idom, common_dominator, def_node)
    return {"order": used, "result": back[id(common_dominator)]}


def input_cdom(c, r):
    up = coq_list(["(%s, %s)" % (z(i), z(p)) for i, p in sorted(c["up"].items())])
    nums = coq_list(["(%s, %s)" % (z(i), z(n)) for i, n in sorted(c["nums"].items())])
    return "((%s, %s), %s)" % (up, nums, zlist(r["order"]))


def oracle_cdom(c, r):
    if isinstance(r, Err):
        return "harness failed: %s %s" % (r.name, r.msg[:200])

    def chain(x):
        out = [x]
        while c["up"][x] != x:
            x = c["up"][x]
            out.append(x)
        return out
    common = set(chain(c["nodes"][0]))
    for x in c["nodes"][1:]:
        common &= set(chain(x))
    want = max(common, key=lambda x: c["nums"][x])
    if r["result"] != want:
        return "the common dominator of %s came out as %s, the lowest common ancestor is %s (set walked as %s)" % (c["nodes"], r["result"], want, r["order"])
    return None


# ============================================================================================================ whole output
SHIPPED = ["tests/data/APK/classes.dex", "tests/data/APK/Test.dex", "tests/data/APK/ExceptionHandling.dex", "tests/data/APK/AnalysisTest.dex",
           "tests/data/APK/FillArrays.dex", "tests/data/APK/StringTests.dex"]
KNOWN_HARD = ["Landroid/support/v4/content/LocalBroadcastManager;->executePendingBroadcasts()V",
              "Landroid/support/v4/view/ViewPager;->onRequestFocusInDescendants(I Landroid/graphics/Rect;)Z",
              "Landroid/support/v4/view/PagerTitleStrip;->updateTextPositions(I F Z)V",
              "Landroid/support/v4/content/ModernAsyncTask$3;->done()V", "Ltests/androguard/TestExceptions;->testException4(I)I"]


def gen_cfg(rng, idx):
    """an unstructured method: blocks of small int operations ending in conditional jumps, gotos and returns to arbitrary blocks"""
    from tools.vlib import javadiff as J
    nb = rng.randint(3, 12)
    flat, regs = [], ["i0", "i1", "i2", "i3"]
    for k in range(nb):
        flat.append(("label", "B%d" % k))
        for _ in range(rng.randint(0, 2)):
            flat.append(("bin", "add", 8, rng.choice(regs), rng.choice(regs), rng.randint(-5, 5)))
        if k == nb - 1:
            flat.append(("ret", "i0"))
            break
        q = rng.random()

        def tgt():
            return "B%d" % (rng.randrange(nb) if rng.random() < 0.35 else rng.randrange(min(k + 1, nb - 1), nb))
        if q < 0.6:
            flat.append(("br", rng.choice(sorted(J.CMPS)), rng.choice(regs), rng.choice(regs + [None]), tgt()))
        elif q < 0.75:
            flat.append(("goto", tgt()))
        elif q < 0.82:
            flat.append(("ret", rng.choice(regs)))
    head = [("bin", "add", 8, "i0", "p0", 0), ("bin", "add", 8, "i1", "p1", 0), ("const", "i2", 1), ("const", "i3", 2)]
    return {"name": "m%d" % idx, "ret": "I", "params": ["I", "I"], "flat": head + flat}


def gen_salted(rng, tier, ctx):
    thorough = tier == "thorough"
    cases = [{"kind": "shipped", "file": SHIPPED[0], "pick": "interesting", "seed": rng.randrange(10**6), "limit": 5000 if thorough else 900, "salts": 8 if thorough else 4}]
    for f in SHIPPED[1:]:
        cases.append({"kind": "shipped", "file": f, "pick": "all", "seed": 0, "limit": 5000 if thorough else 80, "salts": 8 if thorough else 4})
    if thorough:
        cases.append({"kind": "shipped", "file": SHIPPED[0], "pick": "all", "seed": 0, "limit": 5000, "salts": 6})
    for k in range(16 if thorough else 6):
        cases.append({"kind": "cfg", "seed": rng.randrange(10**9), "count": 250 if thorough else 200, "salts": 6 if thorough else 4})
    cases.append({"kind": "structured", "seed": rng.randrange(10**9), "count": 200 if thorough else 100, "salts": 6 if thorough else 4})
    cases.append({"kind": "classes", "file": SHIPPED[0], "seed": rng.randrange(10**6), "count": 40 if thorough else 8, "salts": 4})
    return cases


def _load(ctx_repo, rel):
    from androguard.core.dex import DEX
    from androguard.core.analysis.analysis import Analysis
    d = DEX(open(os.path.join(ctx_repo, rel), "rb").read())
    return d, Analysis(d)


def _key(m):
    return m.get_class_name() + "->" + m.get_name() + m.get_descriptor()


def _pick(d, case):
    ms = sorted((m for m in d.get_encoded_methods() if m.get_code() is not None), key=_key)
    rng = random.Random(case["seed"])
    if case["pick"] == "all":
        return ms[:case["limit"]]
    hard = [m for m in ms if _key(m) in KNOWN_HARD]
    tries = [m for m in ms if m.get_code().get_tries_size() > 0]
    big = [m for m in ms if m.get_code().get_length() > 60]
    ctors = [m for m in ms if m.get_name() in ("<init>", "<clinit>")]
    rest = [m for m in ms if m not in hard]
    out = list(hard)
    for pool, k in ((tries, 90), (big, 90), (ctors, 25), (rest, case["limit"])):
        pool = [m for m in pool if m not in out]
        out += rng.sample(pool, min(k, len(pool), max(0, case["limit"] - len(out))))
    return out


_HOOK = {"follow_calls": 0, "follow_outside_condition": 0, "non_int_elements": 0}


def _install_checks():
    """run-time side conditions of the classification: IntElements really are ints; the one-foot-in condition of loop_follow"""
    from androguard.decompiler import control_flow as CF, dataflow as DF
    if getattr(CF, "_verif_wrapped", False):
        return
    CF._verif_wrapped = True
    real_follow = CF.loop_follow

    def follow(start, end, nodes_in_loop):
        _HOOK["follow_calls"] += 1
        for n in nodes_in_loop:
            if n.type.is_cond and n.true not in nodes_in_loop and n.false not in nodes_in_loop:
                _HOOK["follow_outside_condition"] += 1
                # outside the condition of the theorem: try the other orders directly (the call only writes follow['loop'])
                seen = set()
                for k in range(len(nodes_in_loop)):
                    real_follow(start, end, nodes_in_loop[k:] + nodes_in_loop[:k])
                    seen.add(id(start.follow['loop']))
                    real_follow(start, end, list(reversed(nodes_in_loop[k:] + nodes_in_loop[:k])))
                    seen.add(id(start.follow['loop']))
                if len(seen) > 1:
                    _HOOK["follow_order_dependent"] = _HOOK.get("follow_order_dependent", 0) + 1
                break
        return real_follow(start, end, nodes_in_loop)
    CF.loop_follow = follow
    real_bdu = DF.build_def_use

    def bdu(graph, lparams):
        ud, du = real_bdu(graph, lparams)
        for table in (ud, du):
            for (var, loc), l in table.items():
                if not (isinstance(var, int) and isinstance(loc, int) and all(isinstance(x, int) for x in l)):
                    _HOOK["non_int_elements"] += 1
        return ud, du
    DF.build_def_use = bdu
    real_rda = DF.reach_def_analysis

    def rda(graph, lparams):
        a = real_rda(graph, lparams)
        for table in (a.A, a.R, a.DB, a.def_to_loc):
            for s in table.values():
                if not all(isinstance(x, int) for x in s):
                    _HOOK["non_int_elements"] += 1
        return a
    DF.reach_def_analysis = rda


def impl_salted(case):
    from tools.vlib import saltedhash, javadiff as J
    from androguard.decompiler.decompile import DvMethod, DvClass
    saltedhash.install()
    _install_checks()
    repo = os.environ.get("VERIF_REPO", "/repo")
    if case["kind"] in ("shipped", "classes"):
        d, dx = _load(repo, case["file"])
    else:
        from androguard.core.dex import DEX
        from androguard.core.analysis.analysis import Analysis
        rng = random.Random(case["seed"])
        if case["kind"] == "cfg":
            ms = [gen_cfg(rng, i) for i in range(case["count"])]
        else:
            ms = []
            for i in range(case["count"]):
                m = J.gen_method(rng, i) if rng.random() < 0.7 else J.gen_pattern(rng, i)
                m["name"] = "m%d" % i
                ms.append(m)
        d = DEX(J.build_dex(ms))
        dx = Analysis(d)
    differing, n, exc = [], 0, 0
    if case["kind"] == "classes":
        dx.create_xref()
        rng = random.Random(case["seed"])
        cls = sorted(d.get_classes(), key=lambda c: c.get_name())
        for c in rng.sample(cls, min(case["count"], len(cls))):
            texts = []
            for s in range(1, case["salts"] + 1):
                saltedhash.reset(s)
                try:
                    dc = DvClass(c, dx)
                    dc.process()
                    texts.append(dc.get_source())
                except Exception as e:
                    texts.append("EXC " + type(e).__name__)
            n += 1
            exc += texts[0].startswith("EXC")
            if len(set(texts)) > 1:
                differing.append([c.get_name(), sorted(set(texts))[:2]])
    else:
        picked = _pick(d, case) if case["kind"] == "shipped" else [m for m in d.get_encoded_methods() if m.get_code() is not None]
        for m in picked:
            ma = dx.get_method(m)
            texts = []
            for s in range(1, case["salts"] + 1):
                saltedhash.reset(s)
                try:
                    dv = DvMethod(ma)
                    dv.process()
                    texts.append(dv.get_source())
                except Exception as e:
                    texts.append("EXC " + type(e).__name__)
            n += 1
            exc += texts[0].startswith("EXC")
            if len(set(texts)) > 1:
                differing.append([_key(m), sorted(set(texts))[:2]])
    return {"decompiled": n, "exceptions": exc, "differing": differing[:5], "n_differing": len(differing), "hook": dict(_HOOK)}


def oracle_whole(case, r):
    if isinstance(r, Err):
        return "harness failed: %s %s" % (r.name, r.msg[:300])
    if r["n_differing"]:
        name, texts = r["differing"][0]
        import difflib
        diff = "\n".join(list(difflib.unified_diff(texts[0].split("\n"), texts[1].split("\n"), lineterm="", n=0))[:12])
        return "%d of %d decompilations differ between runs, e.g. %s:\n%s" % (r["n_differing"], r["decompiled"], name, diff)
    if r.get("hook", {}).get("non_int_elements"):
        return "a set classified as holding ints (def-use analysis) holds other objects: its order may depend on the memory layout"
    if r["decompiled"] == 0:
        return "harness: nothing was decompiled"
    return None


def stats_whole(cases, results):
    d = {"decompiled": 0, "exceptions": 0, "differing": 0, "by_kind": {}, "loop_follow_calls": 0, "loop_follow_calls_outside_the_condition": 0}
    for c, r in zip(cases, results):
        if isinstance(r, Err):
            continue
        d["decompiled"] += r["decompiled"]
        d["exceptions"] += r["exceptions"]
        d["differing"] += r["n_differing"]
        d["by_kind"][c["kind"]] = d["by_kind"].get(c["kind"], 0) + r["decompiled"]
        h = r.get("hook") or {}
        d["loop_follow_calls"] = max(d["loop_follow_calls"], h.get("follow_calls", 0))
        d["loop_follow_calls_outside_the_condition"] = max(d["loop_follow_calls_outside_the_condition"], h.get("follow_outside_condition", 0))
        d["loop_follow_calls_that_depend_on_the_order"] = max(d.get("loop_follow_calls_that_depend_on_the_order", 0), h.get("follow_order_dependent", 0))
    return d


# ---- fresh processes
def gen_procs(rng, tier, ctx):
    thorough = tier == "thorough"
    cases = [{"kind": "shipped", "file": SHIPPED[0], "pick": "interesting", "seed": rng.randrange(10**6), "limit": 2500 if thorough else 600, "children": 5 if thorough else 3,
              "pseed": rng.randrange(10**6)}]
    if thorough:
        cases.append({"kind": "shipped", "file": SHIPPED[1], "pick": "all", "seed": 0, "limit": 5000, "children": 4, "pseed": rng.randrange(10**6)})
    return cases


def impl_procs(case):
    repo = os.environ.get("VERIF_REPO", "/repo")
    d, _ = _load(repo, case["file"])
    keys = [_key(m) for m in _pick(d, case)]
    tmp = tempfile.mkdtemp(prefix="c22-", dir=os.path.join(VERIF_DIR, ".scratch"))
    try:
        kf = os.path.join(tmp, "keys.json")
        json.dump(keys, open(kf, "w"))
        variants = ["plain", "ast-first", "reverse", "plain", "ast-first"][:case["children"]]
        procs = []
        for k, v in enumerate(variants):
            env = dict(os.environ)
            env["PYTHONHASHSEED"] = str((case["pseed"] + 7919 * k) % 4294967295 or 1)
            env.pop("ANDROGUARD_VERIF", None)
            out = os.path.join(tmp, "out%d.json" % k)
            procs.append((v, out, subprocess.Popen([sys.executable, "-m", "tools.vlib.c22_child", os.path.join(repo, case["file"]), kf, out, v, str(case["pseed"] + k)],
                                                   env=env, cwd=VERIF_DIR, stdout=subprocess.DEVNULL, stderr=subprocess.PIPE)))
        outs = []
        for v, out, p in procs:
            _, err = p.communicate(timeout=1500)
            if p.returncode != 0 or not os.path.exists(out):
                return {"decompiled": 0, "exceptions": 0, "differing": [], "n_differing": 0, "child_error": (err or b"").decode()[-400:]}
            outs.append((v, json.load(open(out))))
        differing = []
        for k in keys:
            texts = {o[k] for _, o in outs}
            if len(texts) > 1:
                differing.append([k, sorted(texts)[:2]])
        return {"decompiled": len(keys), "exceptions": sum(1 for k in keys if outs[0][1][k].startswith("EXC")), "differing": differing[:5], "n_differing": len(differing),
                "variants": variants}
    finally:
        import shutil
        shutil.rmtree(tmp, ignore_errors=True)


def oracle_procs(case, r):
    if not isinstance(r, Err) and r.get("child_error"):
        return "harness: a child process failed: " + r["child_error"]
    return oracle_whole(case, r)


# ---- Lengauer-Tarjan under different walk orders (class DominatorTree): the graphs, the model and the oracle of C18
def gen_dom(rng, tier, ctx):
    from tools.props import c18
    cases = c18.gen_random(rng, "quick", ctx)
    if tier != "thorough":
        cases = cases[:60]
    return [{"graph": c, "salt": rand_salt(rng)} for c in cases]


def impl_dom(c):
    from tools.vlib import saltedhash
    from tools.props import c18
    saltedhash.install()
    saltedhash.reset(c["salt"])
    first = c18.impl(c["graph"])
    saltedhash.reset(c["salt"] + 1)
    second = c18.impl(c["graph"])
    return {"idom": first, "again": second}


def oracle_dom(c, r):
    from tools.props import c18
    if isinstance(r, Err):
        return "harness failed: %s %s" % (r.name, r.msg[:200])
    if r["idom"] != r["again"]:
        return "dom_lt gives different immediate dominators when its sets are walked in another order (salts %d, %d)" % (c["salt"], c["salt"] + 1)
    return c18.oracle(c["graph"], r["idom"])


def site_stream(name, gen, impl, obs, coq_type, oracle, inp=None, inp_r=None):
    s = {"name": name, "gen": gen, "impl": impl, "coq_header": COQ_HEADER, "coq_type": coq_type, "coq_obs": obs, "model_vo": "Dad/OrderModel.vo",
         "pinned": False, "oracle": oracle, "shard": 300, "case_timeout": 20}
    if inp_r:
        s["coq_input"] = lambda c: None
        s["coq_input_r"] = inp_r
    else:
        s["coq_input"] = inp
    return s


STREAMS = [
    site_stream("site-interval-end", gen_end, impl_end, "obs_compute_end", "(list Z * list Z) * (list (Z * list Z) * Z)", oracle_end, inp=input_end),
    dict(site_stream("site-declarations", gen_decl, impl_decl, "fun s => VList [obs_decls s; obs_decls s]", "list Z", oracle_decl, inp=lambda c: zlist(c["seq"]))),
    dict(site_stream("site-loop-follow", gen_follow, impl_follow, "obs_loop_follow", "(list (Z * (bool * (Z * Z))) * list (Z * Z)) * ((bool * bool) * ((Z * Z) * list Z))",
                     oracle_follow, inp=input_follow), canon=lambda r: r[0]),
    dict(site_stream("site-common-dominator", gen_cdom, impl_cdom, "obs_common_dom", "(list (Z * Z) * list (Z * Z)) * list Z", oracle_cdom, inp_r=input_cdom),
         canon=lambda r: r["result"]),
    dict(site_stream("site-dominators", gen_dom, impl_dom, "obs_idom", "graph * Z", oracle_dom, inp=lambda c: __import__("tools.props.c18", fromlist=["x"]).coq_input(c["graph"])),
         coq_header="Require Import V.Dad.DomModel.", model_vo="Dad/DomModel.vo", canon=lambda r: r["idom"], case_timeout=120, shard=60),
    {"name": "salted-hashes", "gen": gen_salted, "impl": impl_salted, "oracle": oracle_whole, "stats": stats_whole, "pinned": False, "case_timeout": 1500},
    {"name": "fresh-processes", "gen": gen_procs, "impl": impl_procs, "oracle": oracle_procs, "stats": stats_whole, "pinned": False, "case_timeout": 1800},
]
