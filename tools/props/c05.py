"""C05 - the parsed DEX object model matches the file's declared structure."""
import struct

from tools.vlib import dexgen
from tools.vlib.coqfmt import Err, z, zlist, coq_list, coq_bool

ID = "C05"
TITLE = "The parsed DEX object model matches the file's declared structure"
PROPS = "C05"
LEVEL = "proof"
DESIGN_REF = "DESIGN.md section 5, C05"
TECHNIQUE = ("Coq theorems (the index-diff encoded member lists decode to the lists they encode, by induction on the list with "
             "the LEB128 write/read theorem of C03; the lookups return an item iff it is the last member with exactly that "
             "class, name and descriptor, by induction on the member list) about a hand-written model of ClassDataItem, the "
             "index resolution of ClassManager and the descriptor-based lookups of DEX; model tied to the source by a "
             "differential run on DEX files generated from random class models, with the id tables read from the file bytes "
             "independently")
LEVEL_TEXT = ("Unbounded proof: (1) for all lists of static and instance fields and direct and virtual methods with "
              "non-decreasing indices below 2^32, flags and code offsets below 2^32, and any following bytes, reading the "
              "class_data_item written for them returns exactly those lists and consumes exactly those bytes; (2) the "
              "descriptor-based field lookup returns a member iff it is the last parsed field whose class name, name and "
              "type are the queried ones, and nothing when there is none; the method lookup likewise for the concatenated "
              "key, which is the same thing whenever class names end at their first ';' and method names hold no ';' or "
              "'('. The resolution of indices to names through the id tables is definitional in the model and is compared "
              "with the real parser, and with the generated class model, on every run.")
LEVEL_NOTE = ("Trusted: Coq kernel; coq/Dex/ClassDataModel.v as a rendering of ClassDataItem.__init__/_load_elements, "
              "EncodedField/EncodedMethod.adjust_idx and reload, ClassDefItem.reload, ClassManager.get_string/get_type/"
              "get_proto/get_field/get_method and DEX.get_class/get_encoded_field_descriptor/get_encoded_method_descriptor; "
              "LEB128 reader = the C03 model; strings as decoded by C06; the id tables (fixed-width records) are read from "
              "the file by the harness tools/props/c05.py; DEX files by tools/vlib/dexgen.py and tools/writers/dexwriter.py.")
TRUSTED = ["hand-written model coq/Dex/ClassDataModel.v (+ coq/Dex/LebModel.v)",
           "correspondence harness tools/props/c05.py (independent reader of the id tables), tools/vlib/dexgen.py, tools/writers/dexwriter.py"]

COQ_HEADER = "Require Import V.Dex.ClassDataModel."
NO_INDEX = 0xFFFFFFFF


def s2l(s):
    return [ord(c) for c in s]


# ---- reading the id tables straight from the bytes ------------------------------------------------------------------------
def read_tables(raw):
    u32 = lambda o: struct.unpack_from("<I", raw, o)[0]
    u16 = lambda o: struct.unpack_from("<H", raw, o)[0]
    ns, so, nt, to, npr, po, nf, fo, nm, mo, nc, co = struct.unpack_from("<12I", raw, 0x38)
    strings = []
    for i in range(ns):
        o = u32(so + 4 * i)
        while raw[o] & 0x80:
            o += 1
        o += 1
        e = raw.index(b"\0", o)
        strings.append(raw[o:e].replace(b"\xc0\x80", b"\0").decode("utf-8", "surrogatepass"))

    def type_list(off):
        if off == 0:
            return []
        n = u32(off)
        return [u16(off + 4 + 2 * i) for i in range(n)]
    types = [u32(to + 4 * i) for i in range(nt)]
    protos = [(u32(po + 12 * i), u32(po + 12 * i + 4), type_list(u32(po + 12 * i + 8))) for i in range(npr)]
    fields = [(u16(fo + 8 * i), u16(fo + 8 * i + 2), u32(fo + 8 * i + 4)) for i in range(nf)]
    methods = [(u16(mo + 8 * i), u16(mo + 8 * i + 2), u32(mo + 8 * i + 4)) for i in range(nm)]
    classes = []
    for i in range(nc):
        ci, acc, sup, ifo, src, ann, cdo, svo = struct.unpack_from("<8I", raw, co + 32 * i)
        classes.append((ci, acc, sup, type_list(ifo), src, None if cdo == 0 else raw[cdo:cdo + 500]))
    return strings, types, protos, fields, methods, classes


def coq_str(s):
    return zlist(s2l(s))


def coq_tables(raw, queries):
    strings, types, protos, fields, methods, classes = read_tables(raw)
    t = ("{| t_strings := %s; t_types := %s; t_protos := %s; t_fields := %s; t_methods := %s |}" % (
        coq_list([coq_str(s) for s in strings]), zlist(types),
        coq_list(["(%s, (%s, %s))" % (z(a), z(b), zlist(c)) for a, b, c in protos]),
        coq_list(["(%s, (%s, %s))" % (z(a), z(b), z(c)) for a, b, c in fields]),
        coq_list(["(%s, (%s, %s))" % (z(a), z(b), z(c)) for a, b, c in methods])))
    cs = coq_list(["{| c_class := %s; c_access := %s; c_super := %s; c_ifaces := %s; c_source := %s; c_data := %s |}" % (
        z(ci), z(acc), z(sup), zlist(ifs), z(src), "None" if cd is None else "(Some %s)" % zlist(list(cd)))
        for ci, acc, sup, ifs, src, cd in classes])
    qs = coq_list(["((%s, %s), (%s, %s))" % (coq_bool(isf), coq_str(c), coq_str(n), coq_str(d)) for isf, c, n, d in queries])
    return "((%s, %s), %s)" % (t, cs, qs)


# ---- generation ------------------------------------------------------------------------------------------------------------
def fixed_models():
    obj = "Ljava/lang/Object;"
    f = lambda n, t, a=1, st=False: {"name": n, "type": t, "access": a, "static": st, "value": None}
    m = lambda n, r, ps, a=0x401: {"name": n, "ret": r, "params": tuple(ps), "access": a, "direct": False, "code": None}
    c = lambda name, fields=(), methods=(), sup=obj: {"name": name, "access": 0x601, "super": sup, "interfaces": [], "source": None,
                                                     "fields": list(fields), "methods": list(methods)}
    return [
        {"classes": [c("Lp/A;", [f("a", "LLb;"), f("aL", "Lb;", 2)])]},                       # concatenated keys collide
        {"classes": [c("La/a;", [f("a", "Z", 9, True), f("a", "I"), f("a", "Ljava/lang/String;"), f("a", "[B")])]},   # one name, four types
        {"classes": [c("Lshapes/Shape;", [], [m("area", "D", ()), m("scale", "V", ("D", "J"))], sup=None)]},           # first string is a type
        {"classes": [c("Lq/B;", [f("x", "I")], [m("x", "I", ()), m("x", "I", ("I",)), m("x", "J", ("I",))]),
                     c("Lq/C;", [f("x", "I")], [m("x", "I", ())])]},                               # same member names in two classes
    ]


def queries_for(model, rng):
    qs = []
    for c in model["classes"]:
        for f in c["fields"]:
            qs.append((True, c["name"], f["name"], f["type"]))
            if rng.random() < 0.3:
                qs.append((True, c["name"], f["name"] + "x", f["type"]))
                qs.append((True, c["name"], f["name"], "Lno/Such;"))
            if len(f["name"]) > 1:
                qs.append((True, c["name"], f["name"][:-1], f["name"][-1] + f["type"]))       # same concatenation, other split
        for m in c["methods"]:
            d = "(%s)%s" % (" ".join(m["params"]), m["ret"])
            qs.append((False, c["name"], m["name"], d))
            if rng.random() < 0.3:
                qs.append((False, c["name"], m["name"], "(I I I)V"))
                qs.append((False, "Lno/Such;", m["name"], d))
    qs.append((True, "Lno/Such;", "f", "I"))
    return qs


def gen(rng, tier, ctx):
    cases = [(mdl, queries_for(mdl, rng)) for mdl in fixed_models()]
    for _ in range(150 if tier == "thorough" else 30):
        mdl = dexgen.gen_model(rng, max_classes=5)
        cases.append((mdl, queries_for(mdl, rng)))
    return cases


# ---- implementation --------------------------------------------------------------------------------------------------------
def member_row(x, code_off):
    return [s2l(x.get_class_name()), s2l(x.get_name()), s2l(x.get_descriptor()), x.get_access_flags(), code_off]


def impl(case):
    from androguard.core.dex import DEX
    model, queries = case
    raw, b = dexgen.build(model)
    d = DEX(raw)
    classes, extra = [], []
    for c in d.get_classes():
        fields = [member_row(f, -1) for f in c.get_fields()]
        methods = [member_row(m, m.get_code_off()) for m in c.get_methods()]
        classes.append([s2l(c.get_name()), s2l(c.get_superclassname()), [s2l(i) for i in c.get_interfaces()], c.get_access_flags(),
                        c.get_source_file_idx(), fields, methods])
        cd = c.get_class_data()
        ex = {"nstatic": len(cd.get_static_fields()) if cd else 0, "ndirect": len(cd.get_direct_methods()) if cd else 0, "code": []}
        for m in c.get_methods():
            code = m.get_code()
            ex["code"].append(None if code is None else [code.get_registers_size(), code.get_ins_size(), code.get_outs_size(),
                                                         code.get_bc().get_raw().hex()])
        extra.append(ex)
    answers = []
    for isf, cn, n, dsc in queries:
        x = d.get_encoded_field_descriptor(cn, n, dsc) if isf else d.get_encoded_method_descriptor(cn, n, dsc)
        answers.append(None if x is None else member_row(x, -1 if isf else x.get_code_off()))
    # the same lookups again, in the reverse order and once more forwards: an answer must not depend on what was asked before
    again = []
    for rnd in (list(reversed(queries)), list(queries)):
        row = []
        for isf, cn, n, dsc in rnd:
            x = d.get_encoded_field_descriptor(cn, n, dsc) if isf else d.get_encoded_method_descriptor(cn, n, dsc)
            row.append(None if x is None else member_row(x, -1 if isf else x.get_code_off()))
        again.append(row)
    again[0].reverse()
    byname = [[s2l(c["name"]), (lambda k: None if k is None else s2l(k.get_name()))(d.get_class(c["name"]))] for c in model["classes"]]
    return {"classes": classes, "answers": answers, "extra": extra, "byname": byname, "raw": raw, "repeat_same": again[0] == answers and again[1] == answers,
            "source_names": [None if c.get_source_file_idx() == NO_INDEX else d.get_class_manager().get_string(c.get_source_file_idx())
                             for c in d.get_classes()]}


def canon(res):
    return [res["classes"], res["answers"]]


# ---- the property, stated on the generated class model ---------------------------------------------------------------------
def oracle(case, res):
    if isinstance(res, Err):
        return "parsing the generated DEX failed: %s %s" % (res.name, res.msg[:160])
    model, queries = case
    raw, b = dexgen.build(model)
    if len(res["classes"]) != len(model["classes"]):
        return "%d classes parsed, %d declared" % (len(res["classes"]), len(model["classes"]))
    if not res.get("repeat_same", True):
        return "a field or method lookup by descriptor gives another answer when it is asked again on the same DEX object"
    for c, got, ex, src in zip(model["classes"], res["classes"], res["extra"], res["source_names"]):
        name = c["name"]
        if got[0] != s2l(name):
            return "class %s is reported as %s" % (name, "".join(map(chr, got[0])))
        want_super = c["super"] if c["super"] is not None else "AG:ITI: invalid type"
        if got[1] != s2l(want_super):
            return "class %s: superclass %s, declared %s" % (name, "".join(map(chr, got[1])), want_super)
        if got[2] != [s2l(i) for i in c["interfaces"]]:
            return "class %s: interfaces %s, declared %s" % (name, ["".join(map(chr, i)) for i in got[2]], c["interfaces"])
        if got[3] != c["access"]:
            return "class %s: access flags 0x%x, declared 0x%x" % (name, got[3], c["access"])
        if src != c["source"]:
            return "class %s: source file %r, declared %r" % (name, src, c["source"])
        fkey = lambda f: b._fidx[(name, f["name"], f["type"])]
        wf = [[s2l(name), s2l(f["name"]), s2l(f["type"]), f["access"], -1] for f in
              sorted([f for f in c["fields"] if f["static"]], key=fkey) + sorted([f for f in c["fields"] if not f["static"]], key=fkey)]
        if got[5] != wf:
            return "class %s: fields %s, declared %s" % (name, show_members(got[5]), show_members(wf))
        if ex["nstatic"] != sum(1 for f in c["fields"] if f["static"]):
            return "class %s: %d static fields, declared %d" % (name, ex["nstatic"], sum(1 for f in c["fields"] if f["static"]))
        mkey = lambda m: b._midx[(name, m["name"], m["ret"], tuple(m["params"]))]
        wm_models = sorted([m for m in c["methods"] if m["direct"]], key=mkey) + sorted([m for m in c["methods"] if not m["direct"]], key=mkey)
        wm = [[s2l(name), s2l(m["name"]), s2l("(%s)%s" % (" ".join(m["params"]), m["ret"])), m["access"]] for m in wm_models]
        if [r[:4] for r in got[6]] != wm:
            return "class %s: methods %s, declared %s" % (name, show_members(got[6]), show_members(wm))
        if ex["ndirect"] != sum(1 for m in c["methods"] if m["direct"]):
            return "class %s: %d direct methods, declared %d" % (name, ex["ndirect"], sum(1 for m in c["methods"] if m["direct"]))
        for m, row, code in zip(wm_models, got[6], ex["code"]):
            if (m["code"] is None) != (code is None) or (m["code"] is None) != (row[4] == 0):
                return "class %s method %s: code presence differs from the declaration" % (name, m["name"])
            if code is not None:
                want = [m["code"]["regs"], m["code"]["ins"], m["code"]["outs"], b"".join(struct.pack("<H", u) for u in m["code"]["units"]).hex()]
                if code != want:
                    return "class %s method %s: code (registers, ins, outs, bytes) %s, declared %s" % (name, m["name"], code, want)
    members = {}
    for c in model["classes"]:
        for f in c["fields"]:
            members[(True, c["name"], f["name"], f["type"])] = [s2l(c["name"]), s2l(f["name"]), s2l(f["type"]), f["access"]]
        for m in c["methods"]:
            dsc = "(%s)%s" % (" ".join(m["params"]), m["ret"])
            members[(False, c["name"], m["name"], dsc)] = [s2l(c["name"]), s2l(m["name"]), s2l(dsc), m["access"]]
    for q, a in zip(queries, res["answers"]):
        want = members.get(tuple(q))
        if (a[:4] if a is not None else None) != want:
            return "lookup of %s %s->%s %s returned %s, the file declares %s" % (
                "field" if q[0] else "method", q[1], q[2], q[3], None if a is None else show_members([a]), None if want is None else show_members([want]))
    for nm, got in res["byname"]:
        if got != nm:
            return "get_class(%s) returned %s" % ("".join(map(chr, nm)), got)
    return None


def show_members(rows):
    return [("".join(map(chr, r[1])), "".join(map(chr, r[2])), hex(r[3])) for r in rows]


def stats(cases, results):
    d = {"files": len(cases), "classes": 0, "fields": 0, "methods": 0, "methods_without_code": 0, "lookups": 0, "lookups_none": 0,
         "same_name_fields": 0}
    for (model, qs), r in zip(cases, results):
        d["classes"] += len(model["classes"])
        d["lookups"] += len(qs)
        for c in model["classes"]:
            d["fields"] += len(c["fields"])
            d["methods"] += len(c["methods"])
            d["methods_without_code"] += sum(1 for m in c["methods"] if m["code"] is None)
            names = [f["name"] for f in c["fields"]]
            d["same_name_fields"] += len(names) - len(set(names))
        if not isinstance(r, Err):
            d["lookups_none"] += sum(1 for a in r["answers"] if a is None)
    return d


# ---- class_data_item bytes -------------------------------------------------------------------------------------------------
def uleb(v):
    out = bytearray()
    while True:
        b = v & 0x7F
        v >>= 7
        out.append(b | (0x80 if v else 0))
        if not v:
            return bytes(out)


def gen_cd(rng, tier, ctx):
    cases = []
    for _ in range(600 if tier == "thorough" else 120):
        sizes = [rng.choice((0, 0, 1, 2, 5)) for _ in range(4)]
        data = bytearray(b"".join(uleb(s) for s in sizes))
        for k, s in enumerate(sizes):
            for _ in range(s):
                data += uleb(rng.choice((0, 1, 1, 2, 127, 128, 70000, 2**32 - 1))) + uleb(rng.choice((0, 1, 0x19, 0x10001, 2**31)))
                if k >= 2:
                    data += uleb(rng.choice((0, 0x1234, 2**32 - 1)))
        r = rng.random()
        if r < 0.15 and data:
            data = data[:rng.randrange(len(data))]
        elif r < 0.3:
            data += bytes(rng.randrange(256) for _ in range(rng.randrange(1, 6)))
        elif r < 0.35:
            data = bytearray(rng.randrange(256) for _ in range(rng.randrange(0, 30)))
        cases.append(bytes(data))
    return cases


def impl_cd(case):
    import io
    from androguard.core import dex as dexmod
    from tools.props.c01 import MockCM

    class CM(MockCM):
        def get_field(self, idx):
            return ["Lc;", "I", "f"]

        def get_method(self, idx):
            return ["Lc;", "m", ["()", "V"]]

        def get_code(self, off):
            return None
    buff = io.BytesIO(case)
    try:
        cd = dexmod.ClassDataItem(buff, CM())
    except struct.error:
        return Err("StructError")
    f = lambda l: [[x.get_field_idx(), x.get_access_flags()] for x in l]
    m = lambda l: [[x.get_method_idx(), x.get_access_flags(), x.get_code_off()] for x in l]
    return [f(cd.get_static_fields()), f(cd.get_instance_fields()), m(cd.get_direct_methods()), m(cd.get_virtual_methods()),
            len(case) - buff.tell()]


STREAMS = [
    {"name": "class-models", "gen": gen, "impl": impl, "canon": canon, "coq_header": COQ_HEADER,
     "coq_type": "(tables * list classdef) * list query", "coq_input": lambda c: None,
     "coq_input_r": lambda c, r: coq_tables(r["raw"], c[1]), "coq_obs": "obs_dex", "model_vo": "Dex/ClassDataModel.vo", "pinned": False,
     "oracle": oracle, "stats": stats, "shard": 6, "case_timeout": 120},
    {"name": "class-data-bytes", "gen": gen_cd, "impl": impl_cd, "coq_header": COQ_HEADER, "coq_type": "list Z",
     "coq_input": lambda c: zlist(list(c)), "coq_obs": "obs_class_data", "model_vo": "Dex/ClassDataModel.vo", "pinned": False, "shard": 60},
]
