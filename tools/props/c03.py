"""C03 - LEB128 integers decode to the value their bytes encode."""
from tools.vlib.coqfmt import Err, z, zlist

ID = "C03"
TITLE = "LEB128 integers decode to the value their bytes encode"
PROPS = "C03"
LEVEL = "proof"
DESIGN_REF = "DESIGN.md section 5, C03"
TECHNIQUE = ("Coq theorems (case split on the 1..5 byte shapes, bit operations rewritten to arithmetic, lia) about a "
             "model of the five LEB128 functions; model tied to the source by a translator-regenerated syntax tree "
             "proved equal to the model (PyLite interpreter) and by a differential correspondence run")
LEVEL_TEXT = ("Unbounded proof: for every well-formed encoding of 1..5 bytes followed by any bytes, the modelled readers "
              "return the DEX-defined 32-bit value and consume exactly the encoding; for every 32-bit value the modelled "
              "writers produce a well-formed encoding of that value. The model is re-derived from the working tree on "
              "every run (LebTie.v) and additionally compared with the real functions on generated inputs.")
LEVEL_NOTE = ("Trusted: Coq kernel; tools/tr/pylite_tr.py (AST serializer) and coq/Lib/PyLite.v as the meaning of the Python "
              "subset; CPython's struct.pack/unpack('B') modelled as range-checked bytes; correspondence generator.")
TRUSTED = ["tools/tr/pylite_tr.py (Python ast -> PyLite syntax) and coq/Lib/PyLite.v (semantics of the subset)",
           "correspondence harness tools/props/c03.py (generator, canonicaliser, Python transcription of LebSpec.v)"]

COQ_HEADER = "Require Import V.Lib.Result V.Dex.LebModel."


def translate(ctx):
    from tools.tr import pylite_tr
    return {"gen/Gen_Leb.v": pylite_tr.gen_leb(ctx)}


# ---- specification transcribed to Python (LebSpec.v) ----
def terminated(bs):
    return 1 <= len(bs) <= 5 and all(128 <= b < 256 for b in bs[:-1]) and 0 <= bs[-1] < 128


def raw(bs):
    return sum((b & 0x7F) << (7 * i) for i, b in enumerate(bs))


def wrap32(x):
    y = x % (1 << 32)
    return y - (1 << 32) if y >= (1 << 31) else y


def uleb_value(bs):
    return raw(bs) % (1 << 32)


def sleb_value(bs):
    n, r = len(bs), raw(bs)
    return wrap32(r - (1 << (7 * n)) if r >= (1 << (7 * n - 1)) else r)


def enc_len(bs):
    for i, b in enumerate(bs[:5]):
        if b < 128:
            return i + 1
    return None


def oracle(case, res):
    which, v, bs = case
    if which in (0, 1, 2):
        n = enc_len(bs)
        if n is None:
            return None          # not a LEB128 value of up to five bytes: outside the property
        want = [uleb_value, lambda b: uleb_value(b) - 1, sleb_value][which](bs[:n])
        if isinstance(res, Err):
            return "raised %s on a well-formed encoding" % res.name
        if res[0] != want or res[1] != len(bs) - n:
            return "decoded %r, specification says value %d leaving %d bytes" % (res, want, len(bs) - n)
        return None
    lo, hi = (0, 1 << 32) if which == 3 else (-(1 << 31), 1 << 31)
    if not (lo <= v < hi):
        return None
    if isinstance(res, Err):
        return "writer raised %s for a 32-bit value" % res.name
    out = list(res)
    if not terminated(out):
        return "writer produced a malformed encoding %r" % out
    got = uleb_value(out) if which == 3 else sleb_value(out)
    if got != v:
        return "encoding %r denotes %d, not %d" % (out, got, v)
    return None


# ---- implementation side ----
def impl(case):
    from androguard.core import dex
    from tools.vlib import ag
    which, v, bs = case
    if which <= 2:
        f = ag.bio(bs)
        r = [dex.readuleb128, dex.readuleb128p1, dex.readsleb128][which](ag.cm(), f)
        return [r, len(bs) - f.tell()]
    if which == 3:
        return bytes(dex.writeuleb128(ag.cm(), v))
    return bytes(dex.writesleb128(ag.cm(), v))


BOUND = [0, 1, 2, 0x3F, 0x40, 0x7F, 0x80, 0x3FFF, 0x4000, 0x1FFFFF, 0x200000, 0xFFFFFFF, 0x10000000,
         0x7FFFFFFF, 0x80000000, 0xFFFFFFFF, 0x100000000, (1 << 35) - 1, 1 << 40, (1 << 63) - 1, 1 << 64]


def gen(rng, tier, ctx):
    cases = []
    big = tier == "thorough"
    # every 1- and 2-byte sequence (exhaustive), for the three readers
    for which in (0, 1, 2):
        for b0 in range(256):
            cases.append((which, 0, [b0]))
        step = 1 if big else 5
        for b0 in range(128, 256, step):
            for b1 in range(0, 256, step):
                cases.append((which, 0, [b0, b1]))
    # 3..6 byte sequences: every continuation pattern x boundary payloads, then random
    pay = [0, 1, 0x3F, 0x40, 0x7F, 0x0F, 0x10, 0x07, 0x08, 0x70, 0x78]
    for which in (0, 1, 2):
        for n in (3, 4, 5, 6):
            for _ in range(600 if big else 60):
                k = rng.randint(1, n)
                bs = [(0x80 if i < k - 1 else 0) | rng.choice(pay + [rng.randrange(128)]) for i in range(k)]
                bs += [rng.randrange(256) for _ in range(n - k)]
                cases.append((which, 0, bs))
        for _ in range(2000 if big else 150):   # truncated / unterminated / random tails
            cases.append((which, 0, [rng.randrange(256) for _ in range(rng.randint(0, 7))]))
    # writers
    for which in (3, 4):
        vals = set(BOUND) | {-b for b in BOUND} | {b - 1 for b in BOUND} | {-b - 1 for b in BOUND}
        for _ in range(3000 if big else 300):
            bits = rng.randint(1, 40)
            vals.add(rng.randrange(1 << bits) * rng.choice((1, -1)))
        for v in sorted(vals):
            if abs(v) < (1 << 62):   # writesleb128 does not terminate for values >= 2**63 (outside the property)
                cases.append((which, v, []))
    return cases


def stats(cases, results):
    d = {}
    for (w, v, bs), r in zip(cases, results):
        key = "%s/len%d/%s" % (["readu", "readup1", "reads", "writeu", "writes"][w], len(bs) if w < 3 else len(r) if not isinstance(r, Err) else -1,
                               "err" if isinstance(r, Err) else "ok")
        d[key] = d.get(key, 0) + 1
    return d


STREAMS = [{
    "name": "leb",
    "gen": gen,
    "impl": impl,
    "coq_header": COQ_HEADER,
    "coq_type": "Z * Z * list Z",
    "coq_input": lambda c: "(%s, %s, %s)" % (z(c[0]), z(c[1]), zlist(c[2])),
    "coq_obs": "obs_leb",
    "model_vo": "Dex/LebModel.vo",
    "pinned": False,            # the model also covers inputs outside the property (unterminated, > 32 bit)
    "oracle": oracle,           # ... the specification decides which disagreements are violations
    "stats": stats,
    "shard": 400,
}]
