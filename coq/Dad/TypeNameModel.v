(* C24 - hand-written models of the two get_type functions that render type descriptors:
   androguard/decompiler/util.py get_type (size=None) and androguard/core/dex/__init__.py get_type
   (size=None).  A str is a list of code points.  Tied to the source by tools/props/c24.py. *)
From Coq Require Import ZArith List Bool.
Require Import V.Lib.Val V.Lib.Result.
Import ListNotations.
Open Scope Z_scope.

(* TYPE_DESCRIPTOR, identical in both modules *)
Definition kw_void := [118; 111; 105; 100].
Definition kw_boolean := [98; 111; 111; 108; 101; 97; 110].
Definition kw_byte := [98; 121; 116; 101].
Definition kw_short := [115; 104; 111; 114; 116].
Definition kw_char := [99; 104; 97; 114].
Definition kw_int := [105; 110; 116].
Definition kw_long := [108; 111; 110; 103].
Definition kw_float := [102; 108; 111; 97; 116].
Definition kw_double := [100; 111; 117; 98; 108; 101].
Definition prim_name (c : Z) : option (list Z) :=
  if c =? 86 then Some kw_void else if c =? 90 then Some kw_boolean else if c =? 66 then Some kw_byte
  else if c =? 83 then Some kw_short else if c =? 67 then Some kw_char else if c =? 73 then Some kw_int
  else if c =? 74 then Some kw_long else if c =? 70 then Some kw_float else if c =? 68 then Some kw_double
  else None.
Definition type_desc (s : list Z) : option (list Z) :=
  match s with [c] => prim_name c | _ => None end.

Fixpoint starts_with (p s : list Z) : bool :=
  match p, s with
  | [], _ => true
  | a :: p', b :: s' => (a =? b) && starts_with p' s'
  | _ :: _, [] => false
  end.
Definition replace_slash (s : list Z) : list Z := map (fun c => if c =? 47 then 46 else c) s.
Definition has_slash (s : list Z) : bool := existsb (Z.eqb 47) s.
Definition JAVA_LANG_SLASH := [106; 97; 118; 97; 47; 108; 97; 110; 103; 47].     (* 'java/lang/' *)
Definition BRACKETS := [91; 93].                                                 (* '[]' *)

(* decompiler/util.py get_type(atype) *)
Fixpoint get_type_u (atype : list Z) : result (list Z) :=
  match type_desc atype with
  | Some r => Ok r
  | None =>
      match atype with
      | [] => Err IndexError                                  (* atype[0] of '' *)
      | c :: t =>
          if c =? 76 then
            let res := removelast t in                        (* atype[1:-1] *)
            let res := if starts_with JAVA_LANG_SLASH res && negb (has_slash (skipn 10 res))
                       then skipn 10 res else res in
            Ok (replace_slash res)
          else if c =? 91 then
            match get_type_u t with Ok r => Ok (r ++ BRACKETS) | Err e => Err e end
          else Ok atype
      end
  end.

(* core/dex get_type(atype) *)
Definition JAVA_LANG := [106; 97; 118; 97; 46; 108; 97; 110; 103].               (* 'java.lang' *)
Definition JAVA_LANG_DOT := JAVA_LANG ++ [46].                                   (* 'java.lang.' *)
Definition in_strip_set (c : Z) : bool := existsb (Z.eqb c) JAVA_LANG.
Fixpoint lstrip_set (s : list Z) : list Z :=
  match s with
  | c :: t => if in_strip_set c then lstrip_set t else s
  | [] => []
  end.
(* str.replace('java.lang.', ''): non-overlapping occurrences, left to right *)
Fixpoint remove_jl (fuel : nat) (s : list Z) : list Z :=
  match fuel with
  | O => s
  | S f =>
      match s with
      | [] => []
      | c :: t => if starts_with JAVA_LANG_DOT s then remove_jl f (skipn 10 s) else c :: remove_jl f t
      end
  end.
Fixpoint get_type_d (fuel : nat) (atype0 : list Z) : result (list Z) :=
  match fuel with
  | O => Err OutOfFuel
  | S f =>
      let atype := if starts_with JAVA_LANG atype0 then remove_jl (length atype0) atype0 else atype0 in
      match type_desc (lstrip_set atype) with
      | Some r => Ok r
      | None =>
          match atype with
          | [] => Err IndexError
          | c :: t =>
              if c =? 76 then Ok (replace_slash (removelast t))
              else if c =? 91 then
                match get_type_d f t with Ok r => Ok (r ++ BRACKETS) | Err e => Err e end
              else Ok atype
          end
      end
  end.

(* ---- well-formed descriptors and their Java names ---- *)
Fixpoint join (sep : Z) (l : list (list Z)) : list Z :=
  match l with
  | [] => []
  | a :: t => match t with [] => a | _ => a ++ sep :: join sep t end
  end.
Inductive base := Prim (c : Z) | Cls (segs : list (list Z)).
Definition base_desc (b : base) : list Z :=
  match b with Prim c => [c] | Cls segs => 76 :: join 47 segs ++ [59] end.
Definition desc (dims : nat) (b : base) : list Z := repeat 91 dims ++ base_desc b.
Fixpoint brackets (dims : nat) : list Z :=
  match dims with O => [] | S d => brackets d ++ BRACKETS end.

Definition seg_ok (s : list Z) : bool := negb (has_slash s) && match s with [] => false | _ => true end.
Definition base_ok (b : base) : bool :=
  match b with
  | Prim c => match prim_name c with Some _ => true | None => false end
  | Cls segs => forallb seg_ok segs && match segs with [] => false | _ => true end
  end.

Definition zl_eqb (a b : list Z) : bool := if list_eq_dec Z.eq_dec a b then true else false.
Definition S_java := [106; 97; 118; 97].
Definition S_lang := [108; 97; 110; 103].
(* fully qualified dotted name *)
Definition full_name (b : base) : list Z :=
  match b with
  | Prim c => match prim_name c with Some k => k | None => [] end
  | Cls segs => join 46 segs
  end.
(* the same, with the simple name for direct members of java.lang *)
Definition short_name (b : base) : list Z :=
  match b with
  | Cls [a; l; x] => if zl_eqb a S_java && zl_eqb l S_lang then x else full_name b
  | _ => full_name b
  end.

(* observation: kind 0 = util.get_type, 1 = dex.get_type *)
Definition obs_type (c : Z * list Z) : val :=
  let '(kind, s) := c in
  if kind =? 0 then vres VStr (get_type_u s) else vres VStr (get_type_d (S (length s)) s).
