(* C25 - short_circuit_struct on graphs: conditional blocks with their true / false successors, the blocks of exception
   handlers marked (Graph.preds leaves them out), and one merge step as the code performs it - a new block for the two merged
   ones, the visible predecessors re-pointed at it (update_attribute_with), the merged blocks removed from the graph but left
   as they were for whoever still points at them.
   The theorem: under the precondition the (repaired) code tests - the absorbed block is entered from the absorbing one only,
   hidden predecessors included - every walk reaches the same exit before and after the merge; and so for every pass of the
   driver, whatever it merges. *)
From Coq Require Import ZArith List Bool Lia.
Require Import V.Lib.Val V.Lib.Result V.Dad.ShortCircuitModel.
Import ListNotations.
Open Scope Z_scope.

(* a block: its condition, where its true and false branches lead (attributes of the block object), whether it lies in an
   exception handler, whether it is still a node of the graph, and its successor edges in the order the graph holds them *)
Record gnode := { g_cond : cond; g_true : Z; g_false : Z; g_catch : bool; g_live : bool; g_sucs : list Z }.
Definition graph := list (Z * gnode).
Fixpoint lookup (g : graph) (i : Z) : option gnode :=
  match g with [] => None | (k, n) :: r => if k =? i then Some n else lookup r i end.
Definition next (env : Z -> bool) (n : gnode) : Z := if eval env (g_cond n) then g_true n else g_false n.
(* follow the branches from block i; an identifier that is no block is an exit *)
Fixpoint walk (fuel : nat) (g : graph) (env : Z -> bool) (i : Z) : option Z :=
  match fuel with
  | O => None
  | S f => match lookup g i with None => Some i | Some n => walk f g env (next env n) end
  end.

Definition points_to (n : gnode) (b : Z) : bool := (g_true n =? b) || (g_false n =? b).
Definition has_edge (n : gnode) (b : Z) : bool := g_live n && existsb (Z.eqb b) (g_sucs n).
(* Graph.all_preds-like / Graph.preds: the nodes of the graph with an edge to b; preds() leaves out those in a handler *)
Definition all_preds (g : graph) (b : Z) : list Z := map fst (filter (fun kn => has_edge (snd kn) b) g).
Definition vis_preds (g : graph) (b : Z) : list Z := map fst (filter (fun kn => has_edge (snd kn) b && negb (g_catch (snd kn))) g).
(* the precondition of a merge in short_circuit_struct (after the repair db98cb62) *)
Definition entered_from_one_block (g : graph) (b : Z) : bool :=
  (length (vis_preds g b) =? 1)%nat && (length (all_preds g b) =? 1)%nat.
(* before the repair: the visible predecessors only *)
Definition entered_from_one_visible_block (g : graph) (b : Z) : bool := (length (vis_preds g b) =? 1)%nat.

(* MergeNodes *)
Definition is_ab (a b x : Z) : bool := (x =? a) || (x =? b).
Definition sub (a b ab x : Z) : Z := if is_ab a b x then ab else x.
(* remove_node(a), remove_node(b): the edges to them go; add_edge(p, ab) for the visible predecessors: appended *)
Definition sucs_after (a b ab : Z) (visible : bool) (l : list Z) : list Z :=
  let rest := filter (fun x => negb (is_ab a b x)) l in
  if visible && existsb (is_ab a b) l then rest ++ [ab] else rest.
Definition redirect (a b ab : Z) (kn : Z * gnode) : Z * gnode :=
  let '(k, n) := kn in
  if is_ab a b k then (k, {| g_cond := g_cond n; g_true := g_true n; g_false := g_false n; g_catch := g_catch n; g_live := false; g_sucs := g_sucs n |})
  else if g_live n && negb (g_catch n) then
    (k, {| g_cond := g_cond n; g_true := sub a b ab (g_true n); g_false := sub a b ab (g_false n); g_catch := g_catch n; g_live := true;
           g_sucs := sucs_after a b ab true (g_sucs n) |})
  else (k, {| g_cond := g_cond n; g_true := g_true n; g_false := g_false n; g_catch := g_catch n; g_live := g_live n;
              g_sucs := sucs_after a b ab false (g_sucs n) |}).
Definition merge (g : graph) (a b ab : Z) (c : cond) (t f : Z) (catch : bool) (dests : list Z) : graph :=
  map (redirect a b ab) g ++ [(ab, {| g_cond := c; g_true := t; g_false := f; g_catch := catch; g_live := true; g_sucs := dests |})].

(* ---------------------------------------------------------------- basic facts *)
Lemma walk_more : forall n m g env i x, walk n g env i = Some x -> (n <= m)%nat -> walk m g env i = Some x.
Proof.
  induction n as [|n IH]; intros m g env i x H Hm; [discriminate|]. destruct m as [|m]; [lia|]. cbn [walk] in *.
  destruct (lookup g i); [apply (IH m); [exact H | lia] | exact H].
Qed.
Definition fresh (g : graph) (ab : Z) : Prop := lookup g ab = None /\ forall k n, In (k, n) g -> g_true n <> ab /\ g_false n <> ab.
Lemma lookup_in g i n : lookup g i = Some n -> In (i, n) g.
Proof.
  induction g as [|[k m] r IH]; cbn [lookup]; [discriminate|]. destruct (k =? i) eqn:E; [|intros H; right; auto].
  intros H. injection H as <-. apply Z.eqb_eq in E. subst. now left.
Qed.
Lemma lookup_app_none g h i : lookup g i = None -> lookup (g ++ h) i = lookup h i.
Proof. induction g as [|[k m] r IH]; cbn [lookup app]; [reflexivity|]. destruct (k =? i); [discriminate | exact IH]. Qed.
Lemma lookup_app_some g h i n : lookup g i = Some n -> lookup (g ++ h) i = Some n.
Proof. induction g as [|[k m] r IH]; cbn [lookup app]; [discriminate|]. destruct (k =? i); [auto | exact IH]. Qed.
Lemma redirect_key a b ab k m : fst (redirect a b ab (k, m)) = k.
Proof. unfold redirect. destruct (is_ab a b k); [reflexivity|]. destruct (g_live m && negb (g_catch m)); reflexivity. Qed.
Lemma lookup_map_redirect a b ab g i : lookup (map (redirect a b ab) g) i = option_map (fun n => snd (redirect a b ab (i, n))) (lookup g i).
Proof.
  induction g as [|[k m] r IH]; cbn [lookup map]; [reflexivity|].
  pose proof (redirect_key a b ab k m) as Hk. destruct (redirect a b ab (k, m)) as [k' m'] eqn:E. cbn [fst] in Hk. subst k'. cbn [lookup].
  destruct (k =? i) eqn:Ek; [|exact IH]. apply Z.eqb_eq in Ek. subst i. cbn [option_map]. now rewrite E.
Qed.

(* ---------------------------------------------------------------- one merge keeps every walk *)
Section Merge.
Variables (g : graph) (a b ab : Z) (na nb : gnode) (c : cond) (t f : Z) (catch : bool) (dests : list Z).
Hypothesis Ha : lookup g a = Some na.
Hypothesis Hb : lookup g b = Some nb.
Hypothesis Hab : a <> b.
Hypothesis Hfresh : fresh g ab.
(* of the blocks whose pointers are re-pointed (in the graph, not in a handler, not the merged ones) none points at b: the
   absorbed block is entered from a only *)
Hypothesis Honly : forall k n, lookup g k = Some n -> g_live n = true -> g_catch n = false -> k <> a -> k <> b -> points_to n b = false.
(* the merged condition with its two successors does what a followed by b did *)
Hypothesis Hc : forall env, (if eval env c then t else f) = (let x := next env na in if x =? b then next env nb else x).
Let g' := merge g a b ab c t f catch dests.

Lemma lookup_new : lookup g' ab = Some {| g_cond := c; g_true := t; g_false := f; g_catch := catch; g_live := true; g_sucs := dests |}.
Proof.
  unfold g', merge. rewrite lookup_app_none; [cbn [lookup]; now rewrite Z.eqb_refl|].
  rewrite lookup_map_redirect. destruct Hfresh as [H _]. now rewrite H.
Qed.
Lemma lookup_old i : i <> ab -> lookup g' i = option_map (fun n => snd (redirect a b ab (i, n))) (lookup g i).
Proof.
  intros Hi. unfold g', merge. destruct (lookup g i) as [n|] eqn:E.
  - erewrite lookup_app_some; [reflexivity|]. rewrite lookup_map_redirect, E. reflexivity.
  - rewrite lookup_app_none by (rewrite lookup_map_redirect, E; reflexivity). cbn [lookup option_map]. now replace (ab =? i) with false by lia.
Qed.
Lemma next_not_ab env k n : lookup g k = Some n -> next env n <> ab.
Proof. intros H. destruct Hfresh as [_ F]. destruct (F k n (lookup_in _ _ _ H)) as [F1 F2]. unfold next. destruct (eval env (g_cond n)); assumption. Qed.
(* where an old block sends a walk after the merge: to the same block, or to ab instead of a *)
Lemma next_old env k n : lookup g k = Some n ->
  next env (snd (redirect a b ab (k, n))) = next env n \/ (next env n = a /\ next env (snd (redirect a b ab (k, n))) = ab).
Proof.
  intros H. unfold redirect. destruct (is_ab a b k) eqn:Ek; [left; reflexivity|].
  destruct (g_live n && negb (g_catch n)) eqn:E; [|left; reflexivity]. cbn [snd]. unfold next. cbn [g_cond g_true g_false].
  apply andb_true_iff in E as [El Ec]. apply negb_true_iff in Ec. unfold is_ab in Ek. apply orb_false_iff in Ek as [Eka Ekb].
  assert (P : points_to n b = false) by (apply (Honly k n H El Ec); lia). unfold points_to in P. apply orb_false_iff in P as [P1 P2].
  destruct (eval env (g_cond n)).
  - unfold sub, is_ab. rewrite P1, orb_false_r. destruct (g_true n =? a) eqn:E1; [right; split; [lia | reflexivity] | left; reflexivity].
  - unfold sub, is_ab. rewrite P2, orb_false_r. destruct (g_false n =? a) eqn:E1; [right; split; [lia | reflexivity] | left; reflexivity].
Qed.

Definition fwd (env : Z -> bool) (n : nat) : Prop :=
  (forall s x, s <> ab -> walk n g env s = Some x -> walk n g' env s = Some x) /\
  (forall x, walk n g env a = Some x -> walk n g' env ab = Some x).
Lemma forward_all env : forall n m, (m <= n)%nat -> fwd env m.
Proof.
  induction n as [|n IH]; intros m Hm.
  - assert (m = 0%nat) by lia. subst. split; intros; discriminate.
  - destruct (Nat.eq_dec m (S n)) as [->|Hne]; [|apply IH; lia]. split.
    + intros s x Hs W. cbn [walk] in *. rewrite (lookup_old s Hs). destruct (lookup g s) as [p|] eqn:E; cbn [option_map]; [|exact W].
      destruct (next_old env s p E) as [Same|[Na Nab]].
      * rewrite Same. apply (proj1 (IH n (le_n n))); [exact (next_not_ab env s p E) | exact W].
      * rewrite Nab. rewrite Na in W. exact (proj2 (IH n (le_n n)) x W).
    + intros x W. cbn [walk] in *. rewrite Ha in W. rewrite lookup_new. unfold next at 1. cbn [g_cond g_true g_false]. rewrite (Hc env). cbv zeta.
      destruct (next env na =? b) eqn:Eb.
      * apply Z.eqb_eq in Eb. rewrite Eb in W. destruct n as [|n1]; [discriminate|]. cbn [walk] in W. rewrite Hb in W.
        apply (walk_more n1); [|lia]. apply (proj1 (IH n1 ltac:(lia))); [exact (next_not_ab env b nb Hb) | exact W].
      * apply (proj1 (IH n (le_n n))); [exact (next_not_ab env a na Ha) | exact W].
Qed.
(* every walk of the graph before the merge, from any block or from the merged pair, ends at the same exit after it *)
Theorem merge_keeps_walks env n s x : s <> ab -> walk n g env s = Some x -> walk n g' env (if s =? a then ab else s) = Some x.
Proof.
  intros Hs W. destruct (s =? a) eqn:E.
  - apply Z.eqb_eq in E. subst s. exact (proj2 (forward_all env n n (le_n n)) x W).
  - exact (proj1 (forward_all env n n (le_n n)) s x Hs W).
Qed.

Definition bwd (env : Z -> bool) (n : nat) : Prop :=
  (forall s x, s <> ab -> walk n g' env s = Some x -> exists m, walk m g env s = Some x) /\
  (forall x, walk n g' env ab = Some x -> exists m, walk m g env a = Some x).
Lemma backward_all env : forall n, bwd env n.
Proof.
  induction n as [|n [IH1 IH2]]; [split; intros; discriminate|]. split.
  - intros s x Hs W. cbn [walk] in W. rewrite (lookup_old s Hs) in W. destruct (lookup g s) as [p|] eqn:E; cbn [option_map] in W.
    + destruct (next_old env s p E) as [Same|[Na Nab]].
      * rewrite Same in W. destruct (IH1 _ x (next_not_ab env s p E) W) as [m Hm]. exists (S m). cbn [walk]. now rewrite E.
      * rewrite Nab in W. destruct (IH2 x W) as [m Hm]. exists (S m). cbn [walk]. rewrite E, Na. exact Hm.
    + exists 1%nat. cbn [walk]. rewrite E. exact W.
  - intros x W. cbn [walk] in W. rewrite lookup_new in W. unfold next at 1 in W. cbn [g_cond g_true g_false] in W. rewrite (Hc env) in W. cbv zeta in W.
    destruct (next env na =? b) eqn:Eb.
    + destruct (IH1 _ x (next_not_ab env b nb Hb) W) as [m Hm]. exists (S (S m)). cbn [walk]. rewrite Ha. apply Z.eqb_eq in Eb. rewrite Eb, Hb. exact Hm.
    + destruct (IH1 _ x (next_not_ab env a na Ha) W) as [m Hm]. exists (S m). cbn [walk]. rewrite Ha. exact Hm.
Qed.
(* and conversely: every walk of the merged graph is a walk of the original one *)
Theorem merge_adds_no_walks env n s x : s <> ab -> walk n g' env (if s =? a then ab else s) = Some x -> exists m, walk m g env s = Some x.
Proof.
  intros Hs W. destruct (s =? a) eqn:E.
  - apply Z.eqb_eq in E. subst s. exact (proj2 (backward_all env n) x W).
  - exact (proj1 (backward_all env n) s x Hs W).
Qed.
End Merge.

(* ---------------------------------------------------------------- the precondition the code tests gives the hypothesis *)
(* in the graph a pointer of a node to another node of the graph is an edge *)
Definition edges_ok (g : graph) : Prop :=
  forall k n x nx, lookup g k = Some n -> g_live n = true -> points_to n x = true -> lookup g x = Some nx -> g_live nx = true -> has_edge n x = true.
Lemma in_all_preds g b k n : lookup g k = Some n -> has_edge n b = true -> In k (all_preds g b).
Proof. intros H E. unfold all_preds. apply in_map_iff. exists (k, n). split; [reflexivity|]. apply filter_In. split; [exact (lookup_in _ _ _ H) | exact E]. Qed.
Lemma only_pred g a b na nb : edges_ok g -> lookup g a = Some na -> g_live na = true -> lookup g b = Some nb -> g_live nb = true ->
  points_to na b = true -> length (all_preds g b) = 1%nat ->
  forall k n, lookup g k = Some n -> g_live n = true -> g_catch n = false -> k <> a -> k <> b -> points_to n b = false.
Proof.
  intros J Ha La Hb Lb Pa L k n Hk Lk _ Hka _. destruct (points_to n b) eqn:Pk; [|reflexivity]. exfalso.
  pose proof (in_all_preds g b a na Ha (J a na b nb Ha La Pa Hb Lb)) as Ia.
  pose proof (in_all_preds g b k n Hk (J k n b nb Hk Lk Pk Hb Lb)) as Ik.
  destruct (all_preds g b) as [|z [|z2 r]]; cbn [length] in L; try discriminate.
  destruct Ia as [<-|[]]. destruct Ik as [<-|[]]. apply Hka. reflexivity.
Qed.

(* ---------------------------------------------------------------- the four cases of short_circuit_struct *)
Inductive mcase := AndThen | OrThen | AndElse | OrElse.
Fixpoint keep_first (l seen : list Z) : list Z :=
  match l with [] => [] | x :: r => if existsb (Z.eqb x) seen then keep_first r seen else x :: keep_first r (x :: seen) end.
(* ldests of MergeNodes: the successors of a, then those of b, without a and b, each once *)
Definition dests_of (a b : Z) (na nb : gnode) : list Z := keep_first (filter (fun x => negb (is_ab a b x)) (g_sucs na ++ g_sucs nb)) [].
Definition is_cond_node (g : graph) (x : Z) : bool := match lookup g x with Some _ => true | None => false end.
(* at block a: which successor is absorbed, the merged condition, its successors - None when the case does not apply *)
Definition plan (g : graph) (a : Z) (k : mcase) : option (Z * cond * Z * Z) :=
  match lookup g a with
  | None => None
  | Some na =>
      let thn := g_true na in let els := g_false na in
      if negb (g_live na) || (thn =? a) || (els =? a) || (thn =? els) then None else
      match k with
      | AndThen => match lookup g thn with
                   | Some nb => if g_live nb && entered_from_one_block g thn && negb (points_to nb a) && (g_false nb =? els)
                                then Some (thn, SC (g_cond na) (g_cond nb) true false, g_true nb, els) else None
                   | None => None end
      | OrThen => match lookup g thn with
                  | Some nb => if g_live nb && entered_from_one_block g thn && negb (points_to nb a) && (g_true nb =? els)
                               then Some (thn, SC (g_cond na) (g_cond nb) false true, els, g_false nb) else None
                  | None => None end
      | AndElse => match lookup g els with
                   | Some nb => if g_live nb && entered_from_one_block g els && negb (points_to nb a) && (g_false nb =? thn)
                                then Some (els, SC (g_cond na) (g_cond nb) true true, g_true nb, thn) else None
                   | None => None end
      | OrElse => match lookup g els with
                  | Some nb => if g_live nb && entered_from_one_block g els && negb (points_to nb a) && (g_true nb =? thn)
                               then Some (els, SC (g_cond na) (g_cond nb) false false, thn, g_false nb) else None
                  | None => None end
      end
  end.
Definition apply_plan (g : graph) (a ab : Z) (k : mcase) : option graph :=
  match plan g a k, lookup g a with
  | Some (b, c, t, f), Some na =>
      match lookup g b with
      | Some nb => Some (merge g a b ab c t f (g_catch na) (dests_of a b na nb))
      | None => None
      end
  | _, _ => None
  end.

(* whichever of the four cases applies: the merged graph has exactly the walks of the original one *)
Theorem planned_merge_is_sound g a ab k g' : edges_ok g -> fresh g ab -> apply_plan g a ab k = Some g' ->
  forall env s, s <> ab ->
  (forall n x, walk n g env s = Some x -> walk n g' env (if s =? a then ab else s) = Some x) /\
  (forall n x, walk n g' env (if s =? a then ab else s) = Some x -> exists m, walk m g env s = Some x).
Proof.
  intros J Hf Hap env s Hs. unfold apply_plan in Hap. destruct (plan g a k) as [[[[b c] t] f]|] eqn:Ep; [|discriminate].
  destruct (lookup g a) as [na|] eqn:Ha; [|discriminate]. destruct (lookup g b) as [nb0|] eqn:Hb0; [|discriminate]. injection Hap as <-.
  unfold plan in Ep. rewrite Ha in Ep. cbv zeta in Ep.
  destruct (negb (g_live na) || (g_true na =? a) || (g_false na =? a) || (g_true na =? g_false na)) eqn:Eg; [discriminate|].
  apply orb_false_iff in Eg as [Eg Ete]. apply orb_false_iff in Eg as [Eg Efa]. apply orb_false_iff in Eg as [Ela Eta]. apply negb_false_iff in Ela.
  assert (Common : forall nb, lookup g b = Some nb -> g_live nb = true -> a <> b -> points_to na b = true -> entered_from_one_block g b = true ->
            (forall env, (if eval env c then t else f) = (let x := next env na in if x =? b then next env nb else x)) ->
            (forall n x, walk n g env s = Some x -> walk n (merge g a b ab c t f (g_catch na) (dests_of a b na nb0)) env (if s =? a then ab else s) = Some x) /\
            (forall n x, walk n (merge g a b ab c t f (g_catch na) (dests_of a b na nb0)) env (if s =? a then ab else s) = Some x -> exists m, walk m g env s = Some x)).
  { intros nb Hb Lb Hab Pa Eo Hc. unfold entered_from_one_block in Eo. apply andb_true_iff in Eo as [_ Eo]. apply Nat.eqb_eq in Eo.
    pose proof (only_pred g a b na nb J Ha Ela Hb Lb Pa Eo) as Honly.
    split; intros n x W.
    - exact (merge_keeps_walks g a b ab na nb c t f (g_catch na) _ Ha Hb Hab Hf Honly Hc env n s x Hs W).
    - exact (merge_adds_no_walks g a b ab na nb c t f (g_catch na) _ Ha Hb Hab Hf Honly Hc env n s x Hs W). }
  destruct k.
  - destruct (lookup g (g_true na)) as [nb|] eqn:Hb; [|discriminate].
    destruct (g_live nb && entered_from_one_block g (g_true na) && negb (points_to nb a) && (g_false nb =? g_false na)) eqn:Ec; [|discriminate].
    injection Ep as <- <- <- <-. apply andb_true_iff in Ec as [Ec E3]. apply andb_true_iff in Ec as [Ec E2]. apply andb_true_iff in Ec as [E0 E1].
    apply (Common nb Hb E0); [lia | unfold points_to; now rewrite Z.eqb_refl | exact E1|].
    intros env0. unfold next. cbn [eval g_cond]. cbv zeta. destruct (eval env0 (g_cond na)); cbn [andb].
    + rewrite Z.eqb_refl. destruct (eval env0 (g_cond nb)); [reflexivity | lia].
    + replace (g_false na =? g_true na) with false by lia. reflexivity.
  - destruct (lookup g (g_true na)) as [nb|] eqn:Hb; [|discriminate].
    destruct (g_live nb && entered_from_one_block g (g_true na) && negb (points_to nb a) && (g_true nb =? g_false na)) eqn:Ec; [|discriminate].
    injection Ep as <- <- <- <-. apply andb_true_iff in Ec as [Ec E3]. apply andb_true_iff in Ec as [Ec E2]. apply andb_true_iff in Ec as [E0 E1].
    apply (Common nb Hb E0); [lia | unfold points_to; now rewrite Z.eqb_refl | exact E1|].
    intros env0. unfold next. cbn [eval g_cond]. cbv zeta. destruct (eval env0 (g_cond na)); cbn [negb orb].
    + rewrite Z.eqb_refl. destruct (eval env0 (g_cond nb)); [lia | reflexivity].
    + replace (g_false na =? g_true na) with false by lia. reflexivity.
  - destruct (lookup g (g_false na)) as [nb|] eqn:Hb; [|discriminate].
    destruct (g_live nb && entered_from_one_block g (g_false na) && negb (points_to nb a) && (g_false nb =? g_true na)) eqn:Ec; [|discriminate].
    injection Ep as <- <- <- <-. apply andb_true_iff in Ec as [Ec E3]. apply andb_true_iff in Ec as [Ec E2]. apply andb_true_iff in Ec as [E0 E1].
    apply (Common nb Hb E0); [lia | unfold points_to; rewrite Z.eqb_refl; apply orb_true_r | exact E1|].
    intros env0. unfold next. cbn [eval g_cond]. cbv zeta. destruct (eval env0 (g_cond na)); cbn [negb andb].
    + replace (g_true na =? g_false na) with false by lia. reflexivity.
    + rewrite Z.eqb_refl. destruct (eval env0 (g_cond nb)); [reflexivity | lia].
  - destruct (lookup g (g_false na)) as [nb|] eqn:Hb; [|discriminate].
    destruct (g_live nb && entered_from_one_block g (g_false na) && negb (points_to nb a) && (g_true nb =? g_true na)) eqn:Ec; [|discriminate].
    injection Ep as <- <- <- <-. apply andb_true_iff in Ec as [Ec E3]. apply andb_true_iff in Ec as [Ec E2]. apply andb_true_iff in Ec as [E0 E1].
    apply (Common nb Hb E0); [lia | unfold points_to; rewrite Z.eqb_refl; apply orb_true_r | exact E1|].
    intros env0. unfold next. cbn [eval g_cond]. cbv zeta. destruct (eval env0 (g_cond na)); cbn [orb].
    + replace (g_true na =? g_false na) with false by lia. reflexivity.
    + rewrite Z.eqb_refl. destruct (eval env0 (g_cond nb)); [lia | reflexivity].
Qed.
Print Assumptions planned_merge_is_sound.

(* the precondition as it was before the repair (visible predecessors only) does not give the theorem: block 2 is entered from
   block 0 and from block 1 of an exception handler; it is merged into block 1, and the walk from block 0 with every
   comparison true, which ended at exit 102, ends at exit 100 (defect 41 of DESIGN.md section 6) *)
Definition mk (c : cond) (t f : Z) (catch : bool) : gnode := {| g_cond := c; g_true := t; g_false := f; g_catch := catch; g_live := true; g_sucs := if t =? f then [t] else [t; f] |}.
Definition w_graph : graph := [(0, mk (Leaf 0 false) 2 1 false); (1, mk (Leaf 1 false) 100 2 true); (2, mk (Leaf 2 false) 102 100 false)].
Example visible_predecessors_are_not_enough :
  entered_from_one_visible_block w_graph 2 = true /\ entered_from_one_block w_graph 2 = false /\
  walk 5 w_graph (fun _ => true) 0 = Some 102 /\
  walk 5 (merge w_graph 1 2 3 (SC (Leaf 1 false) (Leaf 2 false) true true) 102 100 true [100; 102]) (fun _ => true) 0 = Some 100 /\
  apply_plan w_graph 1 3 AndElse = None.
Proof. repeat split; vm_compute; reflexivity. Qed.
