(* C20 - proofs about coq/Dad/ReachDefModel.v: when the worklist iteration ends, R[v] is exactly the set of
   definitions that reach the entry of v along some path without an intervening redefinition, and the use-def rows are
   exactly the reaching definitions of each use. *)
From Coq Require Import ZArith List Bool Lia.
Require Import V.Lib.Val V.Lib.Result V.Dad.ReachDefModel.
Import ListNotations.
Open Scope Z_scope.

(* ---------------------------------------------------------------- sets as lists *)
Lemma memz_spec x l : memz x l = true <-> In x l.
Proof.
  unfold memz. rewrite existsb_exists. split.
  - intros (y & Hy & E). apply Z.eqb_eq in E. now subst.
  - intros H. exists x. split; [exact H | apply Z.eqb_refl].
Qed.
Lemma memz_false x l : memz x l = false <-> ~ In x l.
Proof. rewrite <- memz_spec. destruct (memz x l); split; congruence. Qed.
Lemma subsetb_spec a b : subsetb a b = true <-> forall x, In x a -> In x b.
Proof. unfold subsetb. rewrite forallb_forall. split; intros H x Hx; [apply memz_spec | apply memz_spec]; auto. Qed.
Lemma set_eqb_spec a b : set_eqb a b = true <-> forall x, In x a <-> In x b.
Proof.
  unfold set_eqb. rewrite andb_true_iff, !subsetb_spec. split; [intros [H1 H2] x; split; auto | intros H; split; intros x; apply H].
Qed.
Lemma ins_sorted_in x y l : In y (ins_sorted x l) <-> y = x \/ In y l.
Proof.
  induction l as [|z l IH]; cbn [ins_sorted In]; [intuition|]. destruct (x <? z); cbn [In]; [intuition|].
  destruct (x =? z) eqn:E; cbn [In].
  - apply Z.eqb_eq in E. subst. intuition.
  - rewrite IH. intuition.
Qed.
Lemma set_of_in l y : In y (set_of l) <-> In y l.
Proof. induction l as [|x l IH]; cbn [set_of fold_right In]; [tauto|]. fold (set_of l). rewrite ins_sorted_in, IH. intuition. Qed.

(* ---------------------------------------------------------------- indexed access *)
Lemma upd_length {A} (l : list A) i x : length (upd l i x) = length l.
Proof. revert i; induction l as [|y l IH]; intros [|i]; cbn [upd length]; auto. Qed.
Lemma nth_upd_same {A} (l : list A) i x d : (i < length l)%nat -> nth i (upd l i x) d = x.
Proof. revert i; induction l as [|y l IH]; intros [|i] H; cbn [length] in H; try lia; cbn [upd nth]; [reflexivity | apply IH; lia]. Qed.
Lemma nth_upd_other {A} (l : list A) i j x d : i <> j -> nth j (upd l i x) d = nth j l d.
Proof. revert i j; induction l as [|y l IH]; intros [|i] [|j] H; cbn [upd nth]; try reflexivity; try lia. apply IH. lia. Qed.
Lemma nthz_updz_same {A} (l : list A) i x d : 0 <= i < Z.of_nat (length l) -> nthz (updz l i x) i d = x.
Proof. intros H. unfold nthz, updz. replace (i <? 0) with false by lia. apply nth_upd_same. lia. Qed.
Lemma nthz_updz_other {A} (l : list A) i j x d : i <> j -> nthz (updz l i x) j d = nthz l j d.
Proof.
  intros H. unfold nthz, updz. destruct (i <? 0) eqn:Ei; [reflexivity|]. destruct (j <? 0) eqn:Ej; [reflexivity|].
  apply nth_upd_other. lia.
Qed.
Lemma updz_length {A} (l : list A) i x : length (updz l i x) = length l.
Proof. unfold updz. destruct (i <? 0); [reflexivity | apply upd_length]. Qed.

Lemma all_nodes_in m v : In v (all_nodes m) <-> 0 <= v <= nnodes m.
Proof.
  unfold all_nodes, nnodes. rewrite in_map_iff. split.
  - intros (k & <- & Hk). apply in_seq in Hk. lia.
  - intros H. exists (Z.to_nat v). split; [lia|]. apply in_seq. lia.
Qed.
Lemma all_nodes_length m : Z.of_nat (length (all_nodes m)) = nnodes m + 1.
Proof. unfold all_nodes, nnodes. rewrite map_length, seq_length. lia. Qed.

(* ---------------------------------------------------------------- well-formed methods and the path definition *)
Definition real (m : method) (v : Z) : Prop := 0 <= v < nnodes m.
Record wf (m : method) : Prop := {
  wf_locs : NoDup (map snd (all_defs m));                       (* a loc names one definition *)
  wf_params : NoDup (g_params m);
  wf_sucs : forall v x, real m v -> In x (nthz (g_sucs m) v []) -> real m x;
  wf_entry : real m (g_entry m);
  wf_rpo_all : forall v, real m v -> In v (g_rpo m);
  wf_rpo_real : forall v, In v (g_rpo m) -> real m v;
  wf_code : length (g_code m) = length (g_sucs m);
  wf_lo : forall r l, In (r, l) (all_defs m) -> -1000000000 < l;
  wf_pos : forall v r l, real m v -> In (r, l) (node_defs m v) -> 0 <= l }.

Definition is_def (m : method) (reg loc : Z) : Prop := In (reg, loc) (all_defs m).
Definition last_def (m : method) (a reg loc : Z) : Prop := In (reg, loc) (node_defs m a) /\ loc = maxl (defs_in m a reg).
Definition defines (m : method) (v reg : Z) : Prop := In reg (regs_of m v).
Definition killed (m : method) (v : Z) : list Z := flat_map (def_to_loc m) (regs_of m v).
(* the definition loc of register reg reaches the entry of v: it is the last definition of reg in some node a, and there
   is a walk a -> ... -> v none of whose inner nodes defines reg *)
Inductive reach_in (m : method) (reg loc : Z) : Z -> Prop :=
| ri_edge a v : In a (all_nodes m) -> last_def m a reg loc -> In v (sucs m a) -> reach_in m reg loc v
| ri_step u v : In u (all_nodes m) -> reach_in m reg loc u -> ~ defines m u reg -> In v (sucs m u) -> reach_in m reg loc v.
Definition reach_out (m : method) (reg loc v : Z) : Prop := last_def m v reg loc \/ (reach_in m reg loc v /\ ~ defines m v reg).

Lemma node_defs_all m v r l : In v (all_nodes m) -> In (r, l) (node_defs m v) -> is_def m r l.
Proof. intros Hv H. unfold is_def, all_defs. apply in_flat_map. eauto. Qed.
Lemma reach_in_is_def m reg loc v : reach_in m reg loc v -> is_def m reg loc.
Proof. induction 1 as [a v Ha [Hd _] _|]; [eapply node_defs_all; eauto | assumption]. Qed.
Lemma snd_unique {A} (l : list (A * Z)) a b x : NoDup (map snd l) -> In (a, x) l -> In (b, x) l -> a = b.
Proof.
  induction l as [|[c y] l IH]; [contradiction|]. cbn [map snd]. intros Hnd Ha Hb. inversion Hnd as [|? ? Hn Hnd']; subst.
  destruct Ha as [Ea|Ha], Hb as [Eb|Hb].
  - congruence.
  - injection Ea as -> ->. exfalso. apply Hn. apply in_map_iff. exists (b, x). auto.
  - injection Eb as -> ->. exfalso. apply Hn. apply in_map_iff. exists (a, x). auto.
  - eauto.
Qed.
Lemma def_reg_unique m r r' l : wf m -> is_def m r l -> is_def m r' l -> r = r'.
Proof. intros W. apply snd_unique, W. Qed.
Lemma def_to_loc_in m reg loc : In loc (def_to_loc m reg) <-> is_def m reg loc.
Proof.
  unfold def_to_loc, is_def. rewrite in_map_iff. split.
  - intros ([r l] & E & H). apply filter_In in H as [H F]. cbn in *. apply Z.eqb_eq in F. now subst.
  - intros H. exists (reg, loc). split; [reflexivity|]. apply filter_In. split; [exact H | apply Z.eqb_refl].
Qed.
Lemma defs_in_in m v reg loc : In loc (defs_in m v reg) <-> In (reg, loc) (node_defs m v).
Proof.
  unfold defs_in. rewrite in_map_iff. split.
  - intros ([r l] & E & H). apply filter_In in H as [H F]. cbn in *. apply Z.eqb_eq in F. now subst.
  - intros H. exists (reg, loc). split; [reflexivity|]. apply filter_In. split; [exact H | apply Z.eqb_refl].
Qed.
Lemma killed_in m v loc : In loc (killed m v) <-> exists reg, defines m v reg /\ is_def m reg loc.
Proof. unfold killed. rewrite in_flat_map. split; intros (r & H1 & H2); exists r; split; auto; now apply def_to_loc_in. Qed.

Lemma fold_max_ge l : forall a, a <= fold_left Z.max l a.
Proof. induction l as [|x l IH]; intros a; cbn [fold_left]; [lia|]. specialize (IH (Z.max a x)). lia. Qed.
Lemma fold_max_in l : forall a, fold_left Z.max l a = a \/ In (fold_left Z.max l a) l.
Proof.
  induction l as [|x l IH]; intros a; cbn [fold_left]; [now left|]. destruct (IH (Z.max a x)) as [E|H]; [|right; now right].
  rewrite E. destruct (Z.max_spec a x) as [[_ ->]|[_ ->]]; [right; now left | now left].
Qed.
Lemma fold_max_ub l : forall a x, In x l -> x <= fold_left Z.max l a.
Proof.
  induction l as [|y l IH]; intros a x H; [contradiction|]. cbn [fold_left]. destruct H as [->|H]; [|now apply IH].
  pose proof (fold_max_ge l (Z.max a x)). lia.
Qed.
Lemma maxl_in l : l <> [] -> (forall x, In x l -> -1000000000 < x) -> In (maxl l) l.
Proof.
  intros Hne Hlo. unfold maxl. destruct (fold_max_in l (-1000000000)) as [E|H]; [|exact H]. exfalso.
  destruct l as [|x l]; [congruence|]. pose proof (fold_max_ub (x :: l) (-1000000000) x (or_introl eq_refl)).
  specialize (Hlo x (or_introl eq_refl)). lia.
Qed.
Lemma DB_in m v loc : wf m -> In v (all_nodes m) -> (In loc (DB m v) <-> exists reg, last_def m v reg loc).
Proof.
  intros W Hv. unfold DB. rewrite in_map_iff. split.
  - intros (reg & <- & Hr). exists reg. split; [|reflexivity]. apply defs_in_in. apply maxl_in.
    + unfold regs_of in Hr. apply in_map_iff in Hr as ([r l] & <- & H). cbn [fst]. intros E.
      assert (X : In l (defs_in m v r)) by now apply defs_in_in. rewrite E in X. contradiction.
    + intros x Hx. apply defs_in_in in Hx. eapply wf_lo; eauto. eapply node_defs_all; eauto.
  - intros (reg & Hd & ->). exists reg. split; [reflexivity|]. unfold regs_of. apply in_map_iff. exists (reg, maxl (defs_in m v reg)). auto.
Qed.

(* ---------------------------------------------------------------- graph facts *)
Lemma sucs_real m v x : wf m -> In v (all_nodes m) -> In x (sucs m v) -> real m x.
Proof.
  intros W Hv Hx. unfold sucs in Hx. destruct (v =? dummy m) eqn:E.
  - destruct Hx as [<-|[]]. apply W.
  - apply all_nodes_in in Hv. apply Z.eqb_neq in E. unfold dummy in E. eapply wf_sucs; eauto. unfold real. lia.
Qed.
Lemma preds_in m v p : In p (preds m v) <-> In p (all_nodes m) /\ In v (sucs m p).
Proof. unfold preds. rewrite filter_In, memz_spec. tauto. Qed.
Lemma real_all m v : real m v -> In v (all_nodes m).
Proof. intros H. apply all_nodes_in. unfold real in H. lia. Qed.
Lemma dummy_no_preds m p : wf m -> ~ In p (preds m (dummy m)).
Proof. intros W H. apply preds_in in H as [H1 H2]. apply (sucs_real m p _ W H1) in H2. unfold real, dummy in H2. lia. Qed.
Lemma enqueue_in : forall ss w x, In x (enqueue w ss) <-> In x w \/ In x ss.
Proof.
  induction ss as [|y ss IH]; intros w x; cbn [enqueue In]; [tauto|]. rewrite IH. destruct (memz y w) eqn:E.
  - apply memz_spec in E. split; [tauto|]. intros [H|[<-|H]]; auto.
  - rewrite in_app_iff. cbn [In]. tauto.
Qed.

(* ---------------------------------------------------------------- the invariants of the iteration *)
Definition sized (m : method) (s : state) : Prop :=
  length (st_R s) = length (all_nodes m) /\ length (st_A s) = length (all_nodes m).
Definition sound (m : method) (s : state) : Prop :=
  (forall v loc, In loc (getR s v) -> exists reg, reach_in m reg loc v) /\
  (forall v loc, In loc (getA s v) -> In v (all_nodes m) /\ exists reg, reach_out m reg loc v).
Definition inflow (m : method) (s : state) (v : Z) : list Z := flat_map (getA s) (preds m v).
Definition transfer (m : method) (s : state) (v : Z) : list Z :=
  filter (fun loc => negb (memz loc (killed m v))) (getR s v) ++ DB m v.
Definition stable (m : method) (s : state) (v : Z) : Prop :=
  (forall loc, In loc (inflow m s v) -> In loc (getR s v)) /\ (forall loc, In loc (transfer m s v) -> In loc (getA s v)).
Definition inv (m : method) (work : list Z) (s : state) : Prop :=
  sized m s /\ sound m s /\ (forall v, In v work -> real m v) /\
  (forall v, In v (all_nodes m) -> ~ In v work -> stable m s v).

Lemma inflow_sound m s v loc : sound m s -> In loc (inflow m s v) -> exists reg, reach_in m reg loc v.
Proof.
  intros [_ SA] H. unfold inflow in H. apply in_flat_map in H as (p & Hp & Hl). apply preds_in in Hp as [Hp Hs].
  destruct (SA p loc Hl) as (_ & reg & [Hd|[Hr Hn]]); exists reg; [eapply ri_edge | eapply ri_step]; eauto.
Qed.
Lemma transfer_sound m s v loc : wf m -> In v (all_nodes m) -> sound m s -> In loc (transfer m s v) -> exists reg, reach_out m reg loc v.
Proof.
  intros W Hv [SR _] H. unfold transfer in H. apply in_app_or in H as [H|H].
  - apply filter_In in H as [H K]. apply negb_true_iff, memz_false in K. destruct (SR v loc H) as (reg & Hr). exists reg. right.
    split; [exact Hr|]. intros Hd. apply K. apply killed_in. exists reg. split; [exact Hd | eapply reach_in_is_def; eauto].
  - apply (DB_in m v loc W Hv) in H as (reg & Hd). exists reg. now left.
Qed.

(* one iteration of the worklist loop *)
Lemma step_inv m node rest s w s' : wf m -> inv m (node :: rest) s -> step m node rest s = (w, s') -> inv m w s'.
Proof.
  intros W (Sz & So & Wk & St) E. assert (Rn : real m node) by (apply Wk; now left).
  assert (An : In node (all_nodes m)) by now apply real_all.
  assert (In0 : 0 <= node < Z.of_nat (length (all_nodes m))) by (rewrite all_nodes_length; unfold real in Rn; lia).
  unfold step in E. set (newR := set_of (flat_map (getA s) (preds m node))) in E.
  (* phase 1: R *)
  assert (P1 : exists s1 w1,
     (match newR with [] => (s, rest) | _ :: _ => if set_eqb newR (getR s node) then (s, rest)
        else ({| st_R := updz (st_R s) node newR; st_A := st_A s |}, enqueue rest (sucs m node)) end) = (s1, w1) /\
     st_A s1 = st_A s /\ sized m s1 /\ (forall v, v <> node -> getR s1 v = getR s v) /\
     (forall loc, In loc (inflow m s node) -> In loc (getR s1 node)) /\
     (forall loc, In loc (getR s1 node) -> In loc (getR s node) \/ In loc (inflow m s node)) /\
     (forall x, In x rest -> In x w1) /\ (forall x, In x w1 -> In x rest \/ In x (sucs m node))).
  { assert (NR : forall loc, In loc newR <-> In loc (inflow m s node)) by (intros; unfold newR; apply set_of_in).
    destruct newR as [|x0 nr] eqn:EN.
    - exists s, rest. split; [reflexivity|]. split; [reflexivity|]. split; [exact Sz|]. split; [reflexivity|].
      split; [intros loc H; apply NR in H; contradiction|]. split; [now left|]. split; [auto | now left].
    - destruct (set_eqb (x0 :: nr) (getR s node)) eqn:Eq.
      + exists s, rest. split; [reflexivity|]. split; [reflexivity|]. split; [exact Sz|]. split; [reflexivity|].
        split; [intros loc H; apply NR in H; now apply (proj1 (set_eqb_spec _ _) Eq)|]. split; [now left|]. split; [auto | now left].
      + eexists. eexists. split; [reflexivity|]. cbn [st_A st_R]. split; [reflexivity|]. split.
        { destruct Sz as [S1 S2]. split; cbn [st_R st_A]; [now rewrite updz_length | exact S2]. }
        split. { intros v Hv. unfold getR. cbn [st_R]. apply nthz_updz_other. congruence. }
        assert (G : getR {| st_R := updz (st_R s) node (x0 :: nr); st_A := st_A s |} node = x0 :: nr).
        { unfold getR. cbn [st_R]. apply nthz_updz_same. destruct Sz as [S1 _]. rewrite S1. exact In0. }
        split. { intros loc H. rewrite G. now apply NR. }
        split. { intros loc H. rewrite G in H. right. now apply NR. }
        split; intros x Hx; [apply enqueue_in; now left | now apply enqueue_in]. }
  destruct P1 as (s1 & w1 & E1 & A1 & Sz1 & R1o & R1in & R1from & W1a & W1b). rewrite E1 in E.
  assert (GA1 : forall v, getA s1 v = getA s v) by (intros; unfold getA; now rewrite A1).
  set (newA := set_of (filter (fun loc => negb (memz loc (flat_map (def_to_loc m) (regs_of m node)))) (getR s1 node) ++ DB m node)) in E.
  assert (NA : forall loc, In loc newA <-> In loc (transfer m s1 node)) by (intros; unfold newA; apply set_of_in).
  assert (So1 : sound m s1).
  { destruct So as [SR SA]. split.
    - intros v loc H. destruct (Z.eq_dec v node) as [->|Hne]; [|rewrite R1o in H by exact Hne; eauto].
      destruct (R1from loc H) as [H'|H']; [eauto | eapply inflow_sound; [split|]; eauto].
    - intros v loc H. rewrite GA1 in H. eauto. }
  destruct (set_eqb newA (getA s1 node)) eqn:EA; injection E as <- <-.
  - (* A unchanged *)
    split; [exact Sz1|]. split; [exact So1|]. split.
    { intros v Hv. destruct (W1b v Hv) as [H|H]; [apply Wk; now right | eapply sucs_real; eauto]. }
    intros v Hv Hnw. assert (Hnr : ~ In v rest) by (intros X; apply Hnw, W1a, X).
    assert (IF : forall u loc, In loc (inflow m s1 u) <-> In loc (inflow m s u)).
    { intros u loc. unfold inflow. rewrite !in_flat_map. split; intros (p & Hp & Hl); exists p; split; auto; [rewrite <- GA1 | rewrite GA1]; auto. }
    destruct (Z.eq_dec v node) as [->|Hne].
    + split; [intros loc H; apply R1in; now apply IF|]. intros loc H. apply NA in H. now apply (proj1 (set_eqb_spec _ _) EA).
    + destruct (St v Hv) as [S1 S2]; [intros [X|X]; [congruence | auto]|]. split.
      * intros loc H. rewrite R1o by exact Hne. apply S1. now apply IF.
      * intros loc H. rewrite GA1. apply S2. unfold transfer in *. now rewrite R1o in H by exact Hne.
  - (* A[node] := newA, the successors are queued *)
    set (s2 := {| st_R := st_R s1; st_A := updz (st_A s1) node newA |}).
    assert (GR2 : forall v, getR s2 v = getR s1 v) by reflexivity.
    assert (GA2o : forall v, v <> node -> getA s2 v = getA s1 v).
    { intros v Hv. unfold getA, s2. cbn [st_A]. apply nthz_updz_other. congruence. }
    assert (GA2 : getA s2 node = newA).
    { unfold getA, s2. cbn [st_A]. apply nthz_updz_same. destruct Sz1 as [_ S2]. rewrite S2. exact In0. }
    split. { destruct Sz1 as [S1 S2]. split; unfold s2; cbn [st_R st_A]; [exact S1 | now rewrite updz_length]. }
    split.
    { destruct So1 as [SR SA]. split; [intros v loc H; rewrite GR2 in H; eauto|].
      intros v loc H. destruct (Z.eq_dec v node) as [->|Hne]; [|rewrite GA2o in H by exact Hne; eauto].
      rewrite GA2 in H. apply NA in H. split; [exact An|]. exact (transfer_sound m s1 node loc W An (conj SR SA) H). }
    split.
    { intros v Hv. apply enqueue_in in Hv as [Hv|Hv]; [|eapply sucs_real; eauto].
      destruct (W1b v Hv) as [H|H]; [apply Wk; now right | eapply sucs_real; eauto]. }
    intros v Hv Hnw. assert (Hn1 : ~ In v w1) by (intros X; apply Hnw, enqueue_in; now left).
    assert (Hns : ~ In v (sucs m node)) by (intros X; apply Hnw, enqueue_in; now right).
    assert (Hnr : ~ In v rest) by (intros X; apply Hn1, W1a, X).
    assert (IF : forall loc, In loc (inflow m s2 v) <-> In loc (inflow m s v)).
    { intros loc. unfold inflow. rewrite !in_flat_map. split; intros (p & Hp & Hl); exists p; (split; [exact Hp|]);
        (assert (p <> node) by (intros ->; apply Hns; now apply preds_in in Hp));
        [rewrite GA2o, GA1 in Hl by assumption | rewrite GA2o, GA1 by assumption]; exact Hl. }
    destruct (Z.eq_dec v node) as [->|Hne].
    + split; [intros loc H; rewrite GR2; apply R1in; now apply IF|]. intros loc H. rewrite GA2. apply NA. exact H.
    + destruct (St v Hv) as [S1 S2]; [intros [X|X]; [congruence | auto]|]. split.
      * intros loc H. rewrite GR2, R1o by exact Hne. apply S1. now apply IF.
      * intros loc H. rewrite GA2o, GA1 by exact Hne. apply S2. unfold transfer in *. now rewrite GR2, R1o in H by exact Hne.
Qed.

Lemma run_inv m : wf m -> forall fuel work s s', run fuel m work s = Some s' -> inv m work s -> inv m [] s'.
Proof.
  intros W. induction fuel as [|f IH]; intros work s s' H I.
  - destruct work; [injection H as <-; exact I | discriminate].
  - destruct work as [|node rest]; [injection H as <-; exact I|]. cbn [run] in H.
    destruct (step m node rest s) as [w s1] eqn:E. apply (IH _ _ _ H). eapply step_inv; eauto.
Qed.

Lemma nthz_blank {A} (l : list A) v : nthz (map (fun _ => @nil Z) l) v [] = [].
Proof.
  unfold nthz. destruct (v <? 0); [reflexivity|]. generalize (Z.to_nat v). induction l as [|x l IH]; intros [|k]; cbn [map nth]; auto.
Qed.
Lemma fst_combine {A B} : forall (a : list A) (b : list B), length a = length b -> map fst (combine a b) = a.
Proof. induction a as [|x a IH]; intros [|y b] H; cbn in *; try lia; [reflexivity | f_equal; apply IH; lia]. Qed.
Lemma only_def {A} (l : list (Z * A)) r x : NoDup (map fst l) -> In (r, x) l -> map snd (filter (fun d => fst d =? r) l) = [x].
Proof.
  induction l as [|[a y] l IH]; [contradiction|]. cbn [map fst]. intros Hnd Hin. inversion Hnd as [|? ? Hn Hnd']; subst. cbn [filter fst].
  destruct Hin as [E|Hin].
  - injection E as -> ->. rewrite Z.eqb_refl. cbn [map snd]. f_equal.
    assert (X : filter (fun d : Z * A => fst d =? r) l = []); [|now rewrite X].
    clear - Hn. induction l as [|[b z] l IH]; [reflexivity|]. cbn [filter fst]. destruct (b =? r) eqn:E.
    + apply Z.eqb_eq in E. subst. exfalso. apply Hn. now left.
    + apply IH. intros X. apply Hn. now right.
  - destruct (a =? r) eqn:E; [|now apply IH]. apply Z.eqb_eq in E. subst a. exfalso. apply Hn. apply in_map_iff. exists (r, x). auto.
Qed.
Lemma node_defs_dummy m : node_defs m (dummy m) = param_defs m.
Proof. unfold node_defs. now rewrite Z.eqb_refl. Qed.
Lemma dummy_all m : In (dummy m) (all_nodes m).
Proof. apply all_nodes_in. unfold dummy, nnodes. lia. Qed.
Lemma param_last_def m reg loc : wf m -> In (reg, loc) (param_defs m) -> last_def m (dummy m) reg loc.
Proof.
  intros W H. split; [now rewrite node_defs_dummy|]. unfold defs_in. rewrite node_defs_dummy.
  rewrite (only_def (param_defs m) reg loc); [|unfold param_defs; rewrite fst_combine; [apply W | now rewrite map_length, seq_length] | exact H].
  unfold maxl. cbn [fold_left]. assert (-1000000000 < loc); [|lia]. apply (wf_lo m W reg loc).
  apply (node_defs_all m (dummy m) reg loc (dummy_all m)). rewrite node_defs_dummy. exact H.
Qed.

Lemma init_inv m : wf m -> inv m (g_rpo m) (init_state m).
Proof.
  intros W. unfold init_state. set (blank := map (fun _ => @nil Z) (all_nodes m)).
  assert (GR : forall v, getR {| st_R := blank; st_A := updz blank (dummy m) (map snd (param_defs m)) |} v = []) by (intros; apply nthz_blank).
  assert (GA : forall v, v <> dummy m -> getA {| st_R := blank; st_A := updz blank (dummy m) (map snd (param_defs m)) |} v = []).
  { intros v Hv. unfold getA. cbn [st_A]. rewrite nthz_updz_other by congruence. apply nthz_blank. }
  assert (GD : getA {| st_R := blank; st_A := updz blank (dummy m) (map snd (param_defs m)) |} (dummy m) = map snd (param_defs m)).
  { unfold getA. cbn [st_A]. apply nthz_updz_same. unfold blank. rewrite map_length, all_nodes_length. unfold dummy, nnodes. lia. }
  split; [|split; [|split]].
  - split; cbn [st_R st_A]; unfold blank; [now rewrite map_length | now rewrite updz_length, map_length].
  - split; [intros v loc H; rewrite GR in H; contradiction|]. intros v loc H. destruct (Z.eq_dec v (dummy m)) as [->|Hne].
    + rewrite GD in H. apply in_map_iff in H as ([r l] & <- & H). split; [apply dummy_all|]. exists r. left. now apply param_last_def.
    + rewrite GA in H by exact Hne. contradiction.
  - apply W.
  - intros v Hv Hn. assert (v = dummy m) as ->.
    { apply all_nodes_in in Hv. unfold dummy. destruct (Z.eq_dec v (nnodes m)); [assumption|]. exfalso. apply Hn. apply W. unfold real. lia. }
    split.
    + intros loc H. unfold inflow in H. apply in_flat_map in H as (p & Hp & _). exfalso. eapply dummy_no_preds; eauto.
    + intros loc H. unfold transfer in H. rewrite GR in H. cbn [filter app] in H. apply (DB_in m _ loc W (dummy_all m)) in H as (reg & Hd & _).
      rewrite GD. rewrite node_defs_dummy in Hd. apply in_map_iff. exists (reg, loc). auto.
Qed.

(* the result of the iteration: R[v] = the definitions that reach the entry of v *)
Theorem analysis_exact m s : wf m -> analysis m = Some s ->
  forall v loc, In v (all_nodes m) -> (In loc (getR s v) <-> exists reg, reach_in m reg loc v).
Proof.
  intros W H. unfold analysis in H. destruct (run_inv m W _ _ _ _ H (init_inv m W)) as (_ & [SR SA] & _ & St).
  assert (Stab : forall v, In v (all_nodes m) -> stable m s v) by (intros v Hv; apply St; auto).
  intros v loc Hv. split; [apply SR|]. intros (reg & Hr). clear Hv.
  induction Hr as [a v Ha Hd Hs | u v Hu Hr IH Hn Hs].
  - assert (Hv : In v (all_nodes m)) by (apply real_all; eapply sucs_real; eauto).
    apply (proj1 (Stab v Hv)). unfold inflow. apply in_flat_map. exists a. split; [now apply preds_in|].
    apply (proj2 (Stab a Ha)). unfold transfer. apply in_or_app. right. apply (DB_in m a loc W Ha). eauto.
  - assert (Hv : In v (all_nodes m)) by (apply real_all; eapply sucs_real; eauto).
    apply (proj1 (Stab v Hv)). unfold inflow. apply in_flat_map. exists u. split; [now apply preds_in|].
    apply (proj2 (Stab u Hu)). unfold transfer. apply in_or_app. left. apply filter_In. split; [exact IH|].
    apply negb_true_iff, memz_false. intros K. apply killed_in in K as (reg' & Hd' & Hi). apply Hn.
    assert (reg' = reg) as <- by (eapply def_reg_unique; eauto; eapply reach_in_is_def; eauto). exact Hd'.
Qed.

(* ---------------------------------------------------------------- the use-def rows *)
Definition prior_def (m : method) (v reg i d : Z) : Prop :=
  In (reg, d) (node_defs m v) /\ d < i /\ forall d', In (reg, d') (node_defs m v) -> d' < i -> d' <= d.
Definition no_prior (m : method) (v reg i : Z) : Prop := forall d', In (reg, d') (node_defs m v) -> ~ d' < i.
(* the definitions of reg that reach its use at instruction i of node v *)
Definition reaching_use (m : method) (v i reg d : Z) : Prop :=
  prior_def m v reg i d \/ (no_prior m v reg i /\ reach_in m reg d v).

Lemma fold_prior i : forall l p0,
  let r := fold_left (fun p d => if (p <? d) && (d <? i) then d else p) l p0 in
  p0 <= r /\ (r = p0 \/ (In r l /\ r < i)) /\ (forall d, In d l -> d < i -> d <= r).
Proof.
  induction l as [|x l IH]; intros p0; cbn [fold_left]; [cbv zeta; repeat split; [lia | now left | intros ? []]|].
  cbv zeta. set (p1 := if (p0 <? x) && (x <? i) then x else p0). destruct (IH p1) as (H1 & H2 & H3). cbv zeta in H1, H2, H3.
  assert (P : p0 <= p1 /\ (p1 = p0 \/ (p1 = x /\ x < i /\ p0 < x))) by (unfold p1; destruct (p0 <? x) eqn:A, (x <? i) eqn:B; cbn [andb]; lia).
  destruct P as (P1 & P2). split; [lia|]. split.
  - destruct H2 as [E|[Hin Hlt]]; [|right; split; [now right | exact Hlt]]. rewrite E.
    destruct P2 as [->|(-> & Hx & _)]; [now left | right; split; [now left | exact Hx]].
  - intros d [Ed|Hd] Hlt; [subst d|now apply H3]. destruct P2 as [E|(E & _ & _)]; [|lia].
    unfold p1 in E. destruct (p0 <? x) eqn:A, (x <? i) eqn:B; cbn [andb] in E; lia.
Qed.

Theorem use_defs_exact m s v i reg : wf m -> analysis m = Some s -> real m v ->
  match use_defs m s v i reg with
  | None => forall d, ~ is_def m reg d
  | Some ds => forall d, In d ds <-> reaching_use m v i reg d
  end.
Proof.
  intros W HA Rv. unfold use_defs. destruct (def_to_loc m reg) as [|x0 xs] eqn:E.
  - intros d Hd. apply def_to_loc_in in Hd. rewrite E in Hd. contradiction.
  - set (l := defs_in m v reg). destruct (fold_prior i l (-1)) as (H1 & H2 & H3). cbv zeta in H1, H2, H3.
    set (r := fold_left (fun p d => if (p <? d) && (d <? i) then d else p) l (-1)) in *.
    assert (Pos : forall d, In d l -> 0 <= d) by (intros d Hd; apply defs_in_in in Hd; eapply wf_pos; eauto).
    destruct (0 <=? r) eqn:Er.
    + apply Z.leb_le in Er. destruct H2 as [E2|[Hin Hlt]]; [lia|]. intros d. cbn [In]. split.
      * intros [<-|[]]. left. split; [now apply defs_in_in|]. split; [exact Hlt|]. intros d' Hd' Hl. apply H3; [now apply defs_in_in | exact Hl].
      * intros [(Hd & Hl & Hmax)|(Hnp & _)].
        -- left. assert (d <= r) by (apply H3; [now apply defs_in_in | exact Hl]).
           assert (r <= d) by (apply Hmax; [now apply defs_in_in | exact Hlt]). lia.
        -- exfalso. apply (Hnp r); [now apply defs_in_in | exact Hlt].
    + apply Z.leb_gt in Er. assert (NP : no_prior m v reg i).
      { intros d' Hd' Hl. apply defs_in_in in Hd'. specialize (H3 d' Hd' Hl). specialize (Pos d' Hd'). lia. }
      intros d. rewrite filter_In, memz_spec, <- E, def_to_loc_in. rewrite (analysis_exact m s W HA v d (real_all m v Rv)). split.
      * intros [Hd (reg' & Hr)]. right. split; [exact NP|].
        assert (reg' = reg) as -> by (eapply def_reg_unique; eauto; eapply reach_in_is_def; eauto). exact Hr.
      * intros [(Hd & Hl & _)|(_ & Hr)]; [exfalso; eapply NP; eauto|]. split; [eapply reach_in_is_def; eauto | eauto].
Qed.

(* the boolean test implies the hypotheses *)
Lemma distinctb_NoDup l : distinctb l = true -> NoDup l.
Proof.
  induction l as [|x l IH]; [constructor|]. cbn [distinctb]. intros H. apply andb_true_iff in H as [H1 H2].
  constructor; [apply negb_true_iff, memz_false in H1; exact H1 | auto].
Qed.
Lemma reals_in m v : In v (reals m) <-> real m v.
Proof.
  unfold reals, real, nnodes. rewrite in_map_iff. split.
  - intros (k & <- & Hk). apply in_seq in Hk. lia.
  - intros H. exists (Z.to_nat v). split; [lia|]. apply in_seq. lia.
Qed.
Lemma in_range_spec m x : in_range m x = true <-> real m x.
Proof. unfold in_range, real. lia. Qed.
Lemma wf_b_sound m : wf_b m = true -> wf m.
Proof.
  unfold wf_b. rewrite !andb_true_iff. intros ((((((((H1 & H2) & H3) & H4) & H5) & H6) & H7) & H8) & H9).
  rewrite forallb_forall in H3, H5, H6, H8, H9. constructor.
  - now apply distinctb_NoDup.
  - now apply distinctb_NoDup.
  - intros v x Hv Hx. apply reals_in in Hv. specialize (H3 v Hv). rewrite forallb_forall in H3. now apply in_range_spec, H3.
  - now apply in_range_spec.
  - intros v Hv. apply memz_spec, H5, reals_in, Hv.
  - intros v Hv. now apply in_range_spec, H6.
  - now apply Nat.eqb_eq.
  - intros r l H. specialize (H8 (r, l) H). cbn [snd] in H8. lia.
  - intros v r l Hv H. apply reals_in in Hv. specialize (H9 v Hv). rewrite forallb_forall in H9. specialize (H9 (r, l) H). cbn [snd] in H9. lia.
Qed.
