(* C25 - proofs about coq/Dad/ShortCircuitModel.v *)
From Coq Require Import ZArith List Bool Lia.
Require Import V.Lib.Val V.Lib.Result V.Dad.ShortCircuitModel.
Import ListNotations.
Open Scope Z_scope.

Lemma neg_involutive c : neg (neg c) = c.
Proof. induction c as [i n|c1 IH1 c2 IH2 a n]; cbn [neg]; [now rewrite negb_involutive | now rewrite IH1, IH2, negb_involutive]. Qed.
Lemma size_neg c : size (neg c) = size c.
Proof. induction c as [i n|c1 IH1 c2 IH2 a n]; cbn [neg size]; [reflexivity | now rewrite IH1, IH2]. Qed.

(* De Morgan through any nesting and any pending negations *)
Theorem eval_neg env c : eval env (neg c) = negb (eval env c).
Proof.
  induction c as [i n|c1 IH1 c2 IH2 a n]; cbn [neg eval].
  - now destruct n, (env i).
  - rewrite IH1, IH2. now destruct a, n, (eval env c1), (eval env c2).
Qed.

(* "negate the first operand in place, then print both" has the declarative truth value *)
Theorem eval_lit_eval env : forall fuel c, (size c <= fuel)%nat -> eval_lit fuel env c = eval env c.
Proof.
  induction fuel as [|f IH]; intros c H; [destruct c; cbn [size] in H; lia|].
  destruct c as [i n|c1 c2 a n]; cbn [eval_lit eval]; [reflexivity|]. cbn [size] in H.
  rewrite (IH c2) by lia. destruct n.
  - rewrite IH by (rewrite size_neg; lia). now rewrite eval_neg.
  - now rewrite IH by lia.
Qed.

Lemma cond_eqb_eq : forall a b, cond_eqb a b = true -> a = b.
Proof.
  induction a as [i n|a1 IH1 a2 IH2 x y]; intros [j m|b1 b2 x' y'] H; cbn [cond_eqb] in H; try discriminate.
  - apply andb_true_iff in H as [H1 H2]. apply Z.eqb_eq in H1. apply eqb_prop in H2. now subst.
  - apply andb_true_iff in H as [H H4]. apply andb_true_iff in H as [H H3]. apply andb_true_iff in H as [H1 H2].
    apply eqb_prop in H3, H4. rewrite (IH1 _ H1), (IH2 _ H2). now subst.
Qed.
Lemma cfg_eqb_eq : forall a b, cfg_eqb a b = true -> a = b.
Proof.
  induction a as [x|c t IHt f IHf]; intros [y|c' t' f'] H; cbn [cfg_eqb] in H; try discriminate.
  - apply Z.eqb_eq in H. now subst.
  - apply andb_true_iff in H as [H H3]. apply andb_true_iff in H as [H1 H2].
    apply cond_eqb_eq in H1. rewrite (IHt _ H2), (IHf _ H3). now subst.
Qed.

(* the merge cases: whatever the operands and the successors are, every assignment is routed as before *)
Theorem merge_step_route env g g' : merge_step g = Some g' -> route env g' = route env g.
Proof.
  destruct g as [l|c thn els]; [discriminate|]. destruct thn as [l|ct t1 f1]; [discriminate|]. cbn [merge_step].
  destruct (cfg_eqb f1 els) eqn:E1.
  - intros H. injection H as <-. apply cfg_eqb_eq in E1. subst els. cbn [route eval].
    now destruct (eval env c), (eval env ct).
  - destruct (cfg_eqb t1 els) eqn:E2; [|discriminate]. intros H. injection H as <-. apply cfg_eqb_eq in E2. subst els.
    cbn [route eval]. now destruct (eval env c), (eval env ct).
Qed.
Theorem merge_step_else_route env g g' : merge_step_else g = Some g' -> route env g' = route env g.
Proof.
  destruct g as [l|c thn els]; [discriminate|]. destruct els as [l|ce t2 f2]; [discriminate|]. cbn [merge_step_else].
  destruct (cfg_eqb f2 thn) eqn:E1.
  - intros H. injection H as <-. apply cfg_eqb_eq in E1. subst thn. cbn [route eval].
    now destruct (eval env c), (eval env ce).
  - destruct (cfg_eqb t2 thn) eqn:E2; [|discriminate]. intros H. injection H as <-. apply cfg_eqb_eq in E2. subst thn.
    cbn [route eval]. now destruct (eval env c), (eval env ce).
Qed.
(* a merge below a node does not change what the node does *)
Theorem route_congruence env c t t' f f' : route env t' = route env t -> route env f' = route env f ->
  route env (Node c t' f') = route env (Node c t f).
Proof. intros H1 H2. cbn [route]. now rewrite H1, H2. Qed.

(* Writer.visit_cond_node: negate and swap the successors *)
Theorem neg_swap_route env g : route env (neg_swap g) = route env g.
Proof. destruct g as [l|c t f]; [reflexivity|]. cbn [neg_swap route]. rewrite eval_neg. now destruct (eval env c). Qed.
Theorem neg_all_route env g : route env (neg_all g) = route env g.
Proof.
  induction g as [l|c t IHt f IHf]; [reflexivity|]. cbn [neg_all route]. rewrite eval_neg, IHt, IHf. now destruct (eval env c).
Qed.
