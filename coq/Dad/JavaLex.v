(* C23 - specification side: how Java reads a string literal (JLS 3.3 unicode-escape
   translation with the backslash-parity rule, then JLS 3.10.5/3.10.7 string-literal lexing,
   octal escapes included).  Characters are UTF-16 code units / code points as Z.
   Hand-written; validated against javac in the thorough tier (tools/props/c23.py). *)
From Coq Require Import ZArith List Bool.
Import ListNotations.
Open Scope Z_scope.

Definition hexval (c : Z) : option Z :=
  if (48 <=? c) && (c <=? 57) then Some (c - 48)
  else if (97 <=? c) && (c <=? 102) then Some (c - 87)
  else if (65 <=? c) && (c <=? 70) then Some (c - 55) else None.

(* phase 1: \uXXXX (any number of u) is an escape iff the backslash is preceded by an even
   number of backslashes; one character at a time *)
Inductive ust := UNorm (even : bool) | UEsc | UU | UHex (k : nat) (acc : Z).
Definition ustep (st : ust) (c : Z) : option (list Z * ust) :=
  match st with
  | UNorm true => if c =? 92 then Some ([], UEsc) else Some ([c], UNorm true)
  | UNorm false => if c =? 92 then Some ([92], UNorm true) else Some ([c], UNorm true)
  | UEsc => if c =? 117 then Some ([], UU)
            else if c =? 92 then Some ([92; 92], UNorm true) else Some ([92; c], UNorm true)
  | UU => if c =? 117 then Some ([], UU)
          else match hexval c with Some h => Some ([], UHex 3 h) | None => None end
  | UHex k acc =>
      match hexval c with
      | Some h => match k with
                  | S O => Some ([acc * 16 + h], UNorm true)
                  | S k' => Some ([], UHex k' (acc * 16 + h))
                  | O => None
                  end
      | None => None
      end
  end.
Definition ufinal (st : ust) : option (list Z) :=
  match st with UNorm _ => Some [] | UEsc => Some [92] | _ => None end.
Fixpoint ue (st : ust) (l : list Z) : option (list Z) :=
  match l with
  | [] => ufinal st
  | c :: r => match ustep st c with
              | Some (o, st') => option_map (app o) (ue st' r)
              | None => None
              end
  end.

(* phase 2: the literal itself *)
Inductive lst := LStart | LBody | LEsc | LOct (more : nat) (acc : Z) | LDone.
Definition octval (c : Z) : option Z := if (48 <=? c) && (c <=? 55) then Some (c - 48) else None.
Definition lbody (c : Z) : option (list Z * lst) :=
  if c =? 34 then Some ([], LDone) else if c =? 92 then Some ([], LEsc)
  else if (c =? 10) || (c =? 13) then None else Some ([c], LBody).
Definition lstep (st : lst) (c : Z) : option (list Z * lst) :=
  match st with
  | LStart => if c =? 34 then Some ([], LBody) else None
  | LBody => lbody c
  | LEsc =>
      if c =? 98 then Some ([8], LBody) else if c =? 116 then Some ([9], LBody)
      else if c =? 110 then Some ([10], LBody) else if c =? 102 then Some ([12], LBody)
      else if c =? 114 then Some ([13], LBody) else if c =? 115 then Some ([32], LBody)
      else if (c =? 34) || (c =? 39) || (c =? 92) then Some ([c], LBody)
      else match octval c with
           | Some d => Some ([], LOct (if d <=? 3 then 2 else 1) d)   (* \0..\377 *)
           | None => None
           end
  | LOct more acc =>
      match more, octval c with
      | S O, Some d => Some ([acc * 8 + d], LBody)
      | S m, Some d => Some ([], LOct m (acc * 8 + d))
      | _, _ => match lbody c with Some (o, st') => Some (acc :: o, st') | None => None end
      end
  | LDone => None
  end.
Fixpoint lit (st : lst) (l : list Z) : option (list Z) :=
  match l with
  | [] => match st with LDone => Some [] | _ => None end
  | c :: r => match lstep st c with
              | Some (o, st') => option_map (app o) (lit st' r)
              | None => None
              end
  end.

(* the UTF-16 code units a source text denotes when it is exactly one string literal *)
Definition java_lex (src : list Z) : option (list Z) :=
  match ue (UNorm true) src with Some u => lit LStart u | None => None end.

(* UTF-16 encoding of a sequence of code points (unpaired surrogates kept as they are) *)
Definition utf16 (c : Z) : list Z :=
  if c <? 65536 then [c] else [55296 + (c - 65536) / 1024; 56320 + (c - 65536) mod 1024].
Definition to_utf16 (s : list Z) : list Z := flat_map utf16 s.
