(* C25 - from walks to what the stream observes: the structure below the entry unfolded into a tree (tree_of) and routed (route).
   A walk that ends at exit x makes every deep enough unfolding route to -1 - x (exit k is the identifier -1 - k), so for a chain
   the unfolded result of the passes routes every assignment of the comparisons as the unfolded chain does. *)
From Coq Require Import ZArith List Bool Lia.
Require Import V.Lib.Val V.Lib.Result V.Dad.ShortCircuitModel V.Dad.ShortCircuitGraph V.Dad.ShortCircuitDriver V.Dad.ShortCircuitSound.
Import ListNotations.
Open Scope Z_scope.

Lemma walk_mono : forall m g env i x, walk m g env i = Some x -> forall m', (m <= m')%nat -> walk m' g env i = Some x.
Proof.
  induction m as [|m IH]; intros g env i x H m' Hm; [discriminate|]. destruct m' as [|m']; [lia|]. cbn [walk] in *.
  destruct (lookup g i); [|exact H]. apply (IH _ _ _ _ H). lia.
Qed.
Lemma tree_route : forall m g env i x, walk m g env i = Some x -> route env (tree_of m g i) = -1 - x.
Proof.
  induction m as [|m IH]; intros g env i x H; [discriminate|]. cbn [walk tree_of] in *. destruct (lookup g i) as [n|].
  - cbn [route]. unfold next in H. destruct (eval env (g_cond n)); apply IH; exact H.
  - injection H as <-. reflexivity.
Qed.
Lemma deep_route m g env i x : walk m g env i = Some x -> forall F, (m <= F)%nat -> route env (tree_of F g i) = -1 - x.
Proof. intros H F HF. apply tree_route. exact (walk_mono _ _ _ _ _ H _ HF). Qed.

(* every chain whose targets are blocks other than block 0 or exits: when the chain, followed from block 0 under an assignment of
   the comparisons, ends at an exit, the result of the passes - unfolded deep enough - routes that assignment to the same exit,
   and so does the unfolded chain itself *)
Theorem struct_routes_like_the_chain : forall spec fuel env k x, chain_wf spec -> spec <> [] ->
  walk k (chain_graph spec) env 0 = Some x ->
  let r := struct fuel (chain_graph spec) (Z.of_nat (length spec)) 0 in
  exists F, forall F', (F <= F')%nat ->
    route env (tree_of F' (fst r) (snd r)) = -1 - x /\ route env (tree_of F' (chain_graph spec) 0) = -1 - x.
Proof.
  intros spec fuel env k x W NE Hk r. pose proof (proj1 (struct_keeps_chain_walks spec fuel W NE env x) k Hk) as Hm.
  exists k. intros F' HF. split; [apply (deep_route k); [exact Hm | lia] | apply (deep_route k); [exact Hk | lia]].
Qed.
Print Assumptions struct_routes_like_the_chain.

(* ... in the very form obs_struct evaluates: when the chain ends within (blocks + 1) steps - every chain without a cycle does -,
   the tree obs_struct routes (the result of the passes unfolded (blocks + 2) deep) sends the assignment to the chain's exit *)
Theorem observed_route_is_the_chains : forall spec env x, chain_wf spec -> spec <> [] ->
  walk (S (length spec)) (chain_graph spec) env 0 = Some x ->
  let r := struct (S (length spec)) (chain_graph spec) (Z.of_nat (length spec)) 0 in
  route env (tree_of (S (S (length spec))) (fst r) (snd r)) = -1 - x.
Proof.
  intros spec env x W NE Hk r. pose proof (proj1 (struct_keeps_chain_walks spec (S (length spec)) W NE env x) _ Hk) as Hm.
  apply (deep_route (S (length spec))); [exact Hm | lia].
Qed.
Print Assumptions observed_route_is_the_chains.

(* the chain of ShortCircuitSound.d41_spec under the assignment "every comparison false" ends at the identifier -1, exit 0 *)
Example d41_routes : walk 4 (chain_graph d41_spec) (fun _ => false) 0 = Some (-1) /\
  route (fun _ => false) (tree_of 5 (fst (struct 4 (chain_graph d41_spec) 3 0)) (snd (struct 4 (chain_graph d41_spec) 3 0))) = 0.
Proof. split; vm_compute; reflexivity. Qed.
