(* C20 - hand-written model of BasicReachDef (__init__, run), reach_def_analysis and build_def_use of
   androguard/decompiler/dataflow.py.  Nodes are 0..n-1 (successor lists = edges then catch edges); node n is the dummy
   entry that reach_def_analysis puts in front of the real entry (edge n -> entry, A[n] = the parameter definitions
   -1..-k, never in the worklist).  An instruction is (loc, defined register or -1, used registers); locs are the
   method-wide instruction numbers.  Sets are lists, compared as sets.  Tied to the source by tools/props/c20.py. *)
From Coq Require Import ZArith List Bool.
Require Import V.Lib.Val V.Lib.Result.
Import ListNotations.
Open Scope Z_scope.

Definition ins := (Z * (Z * list Z))%type.                 (* loc, lhs (-1 = none), used registers *)
Record method := { g_sucs : list (list Z); g_entry : Z; g_code : list (list ins); g_params : list Z; g_rpo : list Z }.

Definition memz (x : Z) (l : list Z) : bool := existsb (Z.eqb x) l.
Definition subsetb (a b : list Z) : bool := forallb (fun x => memz x b) a.
Definition set_eqb (a b : list Z) : bool := subsetb a b && subsetb b a.
Definition nthz {A} (l : list A) (i : Z) (d : A) : A := if i <? 0 then d else nth (Z.to_nat i) l d.
Fixpoint upd {A} (l : list A) (i : nat) (x : A) : list A :=
  match l, i with [], _ => [] | _ :: r, O => x :: r | y :: r, S k => y :: upd r k x end.
Definition updz {A} (l : list A) (i : Z) (x : A) : list A := if i <? 0 then l else upd l (Z.to_nat i) x.

Definition nnodes (m : method) : Z := Z.of_nat (length (g_sucs m)).
Definition dummy (m : method) : Z := nnodes m.
(* successors and predecessors in the graph with the dummy entry added *)
Definition sucs (m : method) (v : Z) : list Z := if v =? dummy m then [g_entry m] else nthz (g_sucs m) v [].
Definition all_nodes (m : method) : list Z := map Z.of_nat (seq 0 (S (length (g_sucs m)))).
Definition preds (m : method) (v : Z) : list Z := filter (fun u => memz v (sucs m u)) (all_nodes m).
Definition code (m : method) (v : Z) : list ins := nthz (g_code m) v [].

(* definitions: (register, loc); the parameters are defined at -1, -2, ... in the dummy entry *)
Definition param_defs (m : method) : list (Z * Z) := combine (g_params m) (map (fun k => - Z.of_nat k) (seq 1 (length (g_params m)))).
Definition node_defs (m : method) (v : Z) : list (Z * Z) :=
  if v =? dummy m then param_defs m
  else flat_map (fun i : ins => let '(loc, (lhs, _)) := i in if lhs <? 0 then [] else [(lhs, loc)]) (code m v).
Definition all_defs (m : method) : list (Z * Z) := flat_map (node_defs m) (all_nodes m).
Definition def_to_loc (m : method) (reg : Z) : list Z := map snd (filter (fun d => fst d =? reg) (all_defs m)).
Definition defs_in (m : method) (v reg : Z) : list Z := map snd (filter (fun d => fst d =? reg) (node_defs m v)).
Definition regs_of (m : method) (v : Z) : list Z := map fst (node_defs m v).
Definition maxl (l : list Z) : Z := fold_left Z.max l (-1000000000).
(* DB[node]: for every register defined in the node, its largest loc there *)
Definition DB (m : method) (v : Z) : list Z := map (fun reg => maxl (defs_in m v reg)) (regs_of m v).

(* sets are kept as sorted lists without repetition, so that they stay small around cycles *)
Fixpoint ins_sorted (x : Z) (l : list Z) : list Z :=
  match l with [] => [x] | y :: r => if x <? y then x :: l else if x =? y then l else y :: ins_sorted x r end.
Definition set_of (l : list Z) : list Z := fold_right ins_sorted [] l.

Record state := { st_R : list (list Z); st_A : list (list Z) }.
Definition getR (s : state) (v : Z) : list Z := nthz (st_R s) v [].
Definition getA (s : state) (v : Z) : list Z := nthz (st_A s) v [].
Definition init_state (m : method) : state :=
  let blank := map (fun _ => @nil Z) (all_nodes m) in
  {| st_R := blank; st_A := updz blank (dummy m) (map snd (param_defs m)) |}.

(* for suc in all_sucs(node): if suc not in nodes: nodes.append(suc) *)
Fixpoint enqueue (work : list Z) (ss : list Z) : list Z :=
  match ss with [] => work | s :: r => enqueue (if memz s work then work else work ++ [s]) r end.

Definition step (m : method) (node : Z) (rest : list Z) (s : state) : list Z * state :=
  let newR := set_of (flat_map (getA s) (preds m node)) in
  let '(s1, w1) := match newR with
                   | [] => (s, rest)
                   | _ => if set_eqb newR (getR s node) then (s, rest)
                          else ({| st_R := updz (st_R s) node newR; st_A := st_A s |}, enqueue rest (sucs m node))
                   end in
  let killed := flat_map (def_to_loc m) (regs_of m node) in
  let newA := set_of (filter (fun loc => negb (memz loc killed)) (getR s1 node) ++ DB m node) in
  if set_eqb newA (getA s1 node) then (w1, s1)
  else (enqueue w1 (sucs m node), {| st_R := st_R s1; st_A := updz (st_A s1) node newA |}).

Fixpoint run (fuel : nat) (m : method) (work : list Z) (s : state) : option state :=
  match work with
  | [] => Some s
  | node :: rest => match fuel with
                    | O => None
                    | S f => let '(w, s') := step m node rest s in run f m w s'
                    end
  end.
(* enough fuel for every run of the harness; running out is reported, never passed off as a result *)
Definition FUEL (m : method) : nat := 40 * S (length (g_sucs m)) * S (length (g_sucs m)) + 200.
Definition analysis (m : method) : option state := run (FUEL m) m (g_rpo m) (init_state m).

(* build_def_use: UD[(register, loc)] *)
Definition use_defs (m : method) (s : state) (v : Z) (i : Z) (reg : Z) : option (list Z) :=
  match def_to_loc m reg with
  | [] => None                                           (* var not in analysis.def_to_loc: skipped *)
  | all =>
      let prior := fold_left (fun p d => if (p <? d) && (d <? i) then d else p) (defs_in m v reg) (-1) in
      if 0 <=? prior then Some [prior] else Some (filter (fun d => memz d (getR s v)) all)
  end.
Definition UD_rows (m : method) (s : state) : list (Z * Z * list Z) :=
  flat_map (fun v => flat_map (fun i : ins => let '(loc, (_, used)) := i in
     flat_map (fun reg => match use_defs m s v loc reg with Some ds => [(reg, loc, ds)] | None => [] end) used) (code m v)) (g_rpo m).

(* ---- canonical form for the comparison: rows sorted, definition lists as sorted sets, rows of one key merged ---- *)
Definition key_ltb (a b : Z * Z) : bool := (fst a <? fst b) || ((fst a =? fst b) && (snd a <? snd b)).
Fixpoint ins_row (k : Z * Z) (ds : list Z) (l : list (Z * Z * list Z)) : list (Z * Z * list Z) :=
  match l with
  | [] => [(k, set_of ds)]
  | (k', ds') :: r => if key_ltb k k' then (k, set_of ds) :: l
                      else if (fst k =? fst k') && (snd k =? snd k') then (k', set_of (ds ++ ds')) :: r
                      else (k', ds') :: ins_row k ds r
  end.
Definition canon_rows (rows : list (Z * Z * list Z)) : list (Z * Z * list Z) :=
  fold_right (fun r acc => let '(k, ds) := r in ins_row k ds acc) [] rows.
Definition DU_rows (ud : list (Z * Z * list Z)) : list (Z * Z * list Z) :=
  flat_map (fun r => let '((reg, loc), ds) := r in map (fun d => ((reg, d), [loc])) ds) ud.
(* the hypotheses of the theorems, as a test: distinct locs, distinct parameters, successors and RPO inside the graph,
   every node in the RPO, non-negative locs in the nodes *)
Fixpoint distinctb (l : list Z) : bool := match l with [] => true | x :: r => negb (memz x r) && distinctb r end.
Definition reals (m : method) : list Z := map Z.of_nat (seq 0 (length (g_sucs m))).
Definition in_range (m : method) (x : Z) : bool := (0 <=? x) && (x <? nnodes m).
Definition wf_b (m : method) : bool :=
  distinctb (map snd (all_defs m)) && distinctb (g_params m) &&
  forallb (fun v => forallb (in_range m) (nthz (g_sucs m) v [])) (reals m) &&
  in_range m (g_entry m) &&
  forallb (fun v => memz v (g_rpo m)) (reals m) && forallb (in_range m) (g_rpo m) &&
  (length (g_code m) =? length (g_sucs m))%nat &&
  forallb (fun d => -1000000000 <? snd d) (all_defs m) &&
  forallb (fun v => forallb (fun d => 0 <=? snd d) (node_defs m v)) (reals m).

Definition vrows (rows : list (Z * Z * list Z)) : val :=
  VList (map (fun r => let '((a, b), ds) := r in VList [VZ a; VZ b; vlistZ ds]) (canon_rows rows)).
Definition obs_defuse (m : method) : val :=
  match analysis m with
  | None => VErr E_OutOfFuel
  | Some s => let ud := UD_rows m s in
              VList [vrows ud; vrows (DU_rows ud); VList (map (fun v => vlistZ (set_of (getR s v))) (map Z.of_nat (seq 0 (length (g_sucs m))))); VB (wf_b m)]
  end.
