(* C21 - the meaning of the Java operators the decompiler prints, and the meaning of the Dalvik arithmetic instructions,
   on 32- and 64-bit two's complement integers.  The table that links them is generated from
   androguard/decompiler/opcode_ins.py (coq/gen/Gen_OpTable.v).  The Java side is indexed by the operator TEXT, the Dalvik
   side by the OPCODE NUMBER; both are written from the language specifications, not from the decompiler. *)
From Coq Require Import ZArith List Bool.
Require Import V.Lib.Val V.Lib.Result.
Import ListNotations.
Open Scope Z_scope.

Inductive ty := TI | TJ.
Inductive entry :=
| Bin3 (op : list Z) (t : ty) | Bin2 (op : list Z) (t : ty) | Lit (op : list Z) | LitFlip (pos neg : list Z) | RLit (op : list Z)
| Un (op : list Z) (t : ty) | Cast (c : list Z).

Definition bits (t : ty) : Z := match t with TI => 32 | TJ => 64 end.
(* wrap to the signed range of the type *)
Definition wrap (t : ty) (x : Z) : Z := let m := 2 ^ bits t in let y := x mod m in if 2 ^ (bits t - 1) <=? y then y - m else y.
Definition in_ty (t : ty) (x : Z) : Prop := - 2 ^ (bits t - 1) <= x < 2 ^ (bits t - 1).
(* division truncating toward zero, as in Java and Dalvik *)
Definition tdiv (a b : Z) : Z := Z.quot a b.
Definition trem (a b : Z) : Z := Z.rem a b.

(* ---- Java: e1 OP e2 on operands of type t (the right operand of a shift is an int) ---- *)
Definition str_eqb (a b : list Z) : bool := list_eqb Z.eqb a b.
Definition S (s : list Z) := s.
Definition java_bin (op : list Z) (t : ty) (a b : Z) : result Z :=
  if str_eqb op [43] then Ok (wrap t (a + b))                               (* + *)
  else if str_eqb op [45] then Ok (wrap t (a - b))                          (* - *)
  else if str_eqb op [42] then Ok (wrap t (a * b))                          (* * *)
  else if str_eqb op [47] then (if b =? 0 then Err OtherError else Ok (wrap t (tdiv a b)))     (* / : ArithmeticException *)
  else if str_eqb op [37] then (if b =? 0 then Err OtherError else Ok (wrap t (trem a b)))     (* % *)
  else if str_eqb op [38] then Ok (wrap t (Z.land a b))                     (* & *)
  else if str_eqb op [124] then Ok (wrap t (Z.lor a b))                     (* | *)
  else if str_eqb op [94] then Ok (wrap t (Z.lxor a b))                     (* ^ *)
  else if str_eqb op [60; 60] then Ok (wrap t (Z.shiftl a (Z.land b (bits t - 1))))            (* << : distance masked *)
  else if str_eqb op [62; 62] then Ok (wrap t (Z.shiftr a (Z.land b (bits t - 1))))            (* >> *)
  else if str_eqb op [62; 62; 62] then Ok (wrap t (Z.shiftr (a mod 2 ^ bits t) (Z.land b (bits t - 1))))   (* >>> *)
  else Err TypeError.
Definition java_un (op : list Z) (t : ty) (a : Z) : result Z :=
  if str_eqb op [45] then Ok (wrap t (- a)) else if str_eqb op [126] then Ok (wrap t (Z.lnot a)) else Err TypeError.
Definition java_cast (c : list Z) (a : Z) : result Z :=
  if str_eqb c [40; 108; 111; 110; 103; 41] then Ok a                                   (* (long) of an int *)
  else if str_eqb c [40; 105; 110; 116; 41] then Ok (wrap TI a)                         (* (int) of a long *)
  else if str_eqb c [40; 98; 121; 116; 101; 41] then Ok (let y := a mod 256 in if 128 <=? y then y - 256 else y)         (* (byte) *)
  else if str_eqb c [40; 99; 104; 97; 114; 41] then Ok (a mod 65536)                    (* (char) *)
  else if str_eqb c [40; 115; 104; 111; 114; 116; 41] then Ok (let y := a mod 65536 in if 32768 <=? y then y - 65536 else y) (* (short) *)
  else Err TypeError.

(* what the decompiler prints for an entry, evaluated: a = first source operand, b = second operand or the literal *)
Definition java_of (e : entry) (a b : Z) : result Z :=
  match e with
  | Bin3 op t | Bin2 op t => java_bin op t a b
  | Lit op => java_bin op TI a b
  | LitFlip pos neg => if b <? 0 then java_bin neg TI a (- b) else java_bin pos TI a b
  | RLit op => java_bin op TI b a
  | Un op t => java_un op t a
  | Cast c => java_cast c a
  end.

(* ---- Dalvik: the instruction with that opcode ---- *)
Definition arith (k : Z) (t : ty) (a b : Z) : result Z :=
  if k =? 0 then Ok (wrap t (a + b)) else if k =? 1 then Ok (wrap t (a - b)) else if k =? 2 then Ok (wrap t (a * b))
  else if k =? 3 then (if b =? 0 then Err OtherError else Ok (wrap t (tdiv a b)))
  else if k =? 4 then (if b =? 0 then Err OtherError else Ok (wrap t (trem a b)))
  else if k =? 5 then Ok (wrap t (Z.land a b)) else if k =? 6 then Ok (wrap t (Z.lor a b)) else if k =? 7 then Ok (wrap t (Z.lxor a b))
  else if k =? 8 then Ok (wrap t (Z.shiftl a (Z.land b (bits t - 1))))
  else if k =? 9 then Ok (wrap t (Z.shiftr a (Z.land b (bits t - 1))))
  else if k =? 10 then Ok (wrap t (Z.shiftr (a mod 2 ^ bits t) (Z.land b (bits t - 1))))
  else Err TypeError.
Definition dalvik (opc a b : Z) : result Z :=
  if (144 <=? opc) && (opc <=? 154) then arith (opc - 144) TI a b                (* add-int .. ushr-int *)
  else if (155 <=? opc) && (opc <=? 165) then arith (opc - 155) TJ a b           (* add-long .. ushr-long *)
  else if (176 <=? opc) && (opc <=? 186) then arith (opc - 176) TI a b           (* /2addr *)
  else if (187 <=? opc) && (opc <=? 197) then arith (opc - 187) TJ a b
  else if opc =? 208 then arith 0 TI a b else if opc =? 209 then arith 1 TI b a  (* add-int/lit16, rsub-int *)
  else if (210 <=? opc) && (opc <=? 215) then arith (opc - 208) TI a b           (* mul div rem and or xor /lit16 *)
  else if opc =? 216 then arith 0 TI a b else if opc =? 217 then arith 1 TI b a  (* add-int/lit8, rsub-int/lit8 *)
  else if (218 <=? opc) && (opc <=? 226) then arith (opc - 216) TI a b           (* mul .. ushr /lit8 *)
  else if opc =? 123 then Ok (wrap TI (- a)) else if opc =? 124 then Ok (wrap TI (Z.lnot a))
  else if opc =? 125 then Ok (wrap TJ (- a)) else if opc =? 126 then Ok (wrap TJ (Z.lnot a))
  else if opc =? 129 then Ok a else if opc =? 132 then Ok (wrap TI a)
  else if opc =? 141 then Ok (let y := a mod 256 in if 128 <=? y then y - 256 else y)
  else if opc =? 142 then Ok (a mod 65536)
  else if opc =? 143 then Ok (let y := a mod 65536 in if 32768 <=? y then y - 65536 else y)
  else Err TypeError.
(* the operand types of an instruction: (first, second) *)
Definition operand_ok (opc a b : Z) : Prop :=
  let long := ((155 <=? opc) && (opc <=? 165)) || ((187 <=? opc) && (opc <=? 197)) || (opc =? 125) || (opc =? 126) || (opc =? 132) in
  let shift := ((163 <=? opc) && (opc <=? 165)) || ((195 <=? opc) && (opc <=? 197)) in
  in_ty (if long then TJ else TI) a /\ in_ty (if long && negb shift then TJ else TI) b /\
  ((208 <=? opc) && (opc <=? 215) = true -> - 32768 <= b < 32768) /\ ((216 <=? opc) && (opc <=? 226) = true -> - 128 <= b < 128).

(* ---- conditional branches: what the decompiler prints (a OP b, a OP 0) and when the instruction branches ---- *)
Inductive centry := Cond (op : list Z) | CondZ (op : list Z).
Definition java_cmp (op : list Z) (a b : Z) : result bool :=
  if str_eqb op [61; 61] then Ok (a =? b)                                   (* == *)
  else if str_eqb op [33; 61] then Ok (negb (a =? b))                       (* != *)
  else if str_eqb op [60] then Ok (a <? b)                                  (* <  *)
  else if str_eqb op [62; 61] then Ok (b <=? a)                             (* >= *)
  else if str_eqb op [62] then Ok (b <? a)                                  (* >  *)
  else if str_eqb op [60; 61] then Ok (a <=? b)                             (* <= *)
  else Err TypeError.
Definition java_cond (e : centry) (a b : Z) : result bool := match e with Cond op => java_cmp op a b | CondZ op => java_cmp op a 0 end.
(* if-eq .. if-le (0x32-0x37) on two registers, if-eqz .. if-lez (0x38-0x3d) on one: is the branch taken *)
Definition test (k : Z) (a b : Z) : result bool :=
  if k =? 0 then Ok (a =? b) else if k =? 1 then Ok (negb (a =? b)) else if k =? 2 then Ok (a <? b)
  else if k =? 3 then Ok (b <=? a) else if k =? 4 then Ok (b <? a) else if k =? 5 then Ok (a <=? b) else Err TypeError.
Definition dalvik_branch (opc a b : Z) : result bool :=
  if (50 <=? opc) && (opc <=? 55) then test (opc - 50) a b
  else if (56 <=? opc) && (opc <=? 61) then test (opc - 56) a 0
  else Err TypeError.

Definition vr (r : result Z) : val := vres VZ r.
Definition obs_branch (x : Z * (Z * Z)) : val := let '(opc, (a, b)) := x in vres (fun t : bool => VZ (if t then 1 else 0)) (dalvik_branch opc a b).
Definition obs_op (x : Z * (Z * Z)) : val := let '(opc, (a, b)) := x in vr (dalvik opc a b).
