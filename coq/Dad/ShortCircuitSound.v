(* C25 - the driver of short_circuit_struct keeps every walk: the invariants the merge theorem needs (a pointer between graph
   nodes is an edge; identifiers from the counter on are unused; nothing points at the entry) are kept by every merge, so every
   pass, and the passes until nothing changes, leave a graph whose walks from the entry end where those of the original did *)
From Coq Require Import ZArith List Bool Lia.
Require Import V.Lib.Val V.Lib.Result V.Dad.ShortCircuitModel V.Dad.ShortCircuitGraph V.Dad.ShortCircuitDriver.
Import ListNotations.
Open Scope Z_scope.

(* identifiers from m on are unused: no block has one, no pointer goes there *)
Definition unused_from (g : graph) (m : Z) : Prop := forall m', m <= m' -> fresh g m'.
Definition no_pred (g : graph) (e : Z) : Prop := forall k n, lookup g k = Some n -> points_to n e = false.
(* the walks from e in g and from e' in g' end at the same exits: a walk of g that ends within n steps is matched by a walk of g'
   that ends at the same exit within the same n steps (merging never lengthens a walk), and g' has no other walks *)
Definition same_walks (g : graph) (e : Z) (g' : graph) (e' : Z) : Prop :=
  forall env x, (forall n, walk n g env e = Some x -> walk n g' env e' = Some x) /\
                ((exists n, walk n g' env e' = Some x) -> exists n, walk n g env e = Some x).
Lemma same_walks_refl g e : same_walks g e g e.  Proof. intros env x. split; auto. Qed.
Lemma same_walks_trans g1 e1 g2 e2 g3 e3 : same_walks g1 e1 g2 e2 -> same_walks g2 e2 g3 e3 -> same_walks g1 e1 g3 e3.
Proof. intros A B env x. destruct (A env x) as [A1 A2]. destruct (B env x) as [B1 B2]. split; [intros n W; exact (B1 n (A1 n W)) | intros W; exact (A2 (B2 W))]. Qed.
(* the weaker reading: the same exits are reached *)
Lemma same_walks_iff g e g' e' : same_walks g e g' e' -> forall env x, (exists n, walk n g env e = Some x) <-> (exists n, walk n g' env e' = Some x).
Proof. intros A env x. destruct (A env x) as [A1 A2]. split; [intros [n W]; exists n; exact (A1 n W) | exact A2]. Qed.

Lemma in_keep_first x : forall l seen, In x (keep_first l seen) <-> In x l /\ ~ In x seen.
Proof.
  induction l as [|y r IH]; intros seen; cbn [keep_first]; [cbn; tauto|].
  destruct (existsb (Z.eqb y) seen) eqn:E.
  - rewrite IH. apply existsb_exists in E as (z & Hz & Ez). apply Z.eqb_eq in Ez. subst z. cbn [In]. split; [tauto|]. intros [[->|H] N]; [contradiction | tauto].
  - cbn [In]. rewrite IH. cbn [In]. assert (N : ~ In y seen). { intros H. assert (existsb (Z.eqb y) seen = true) by (apply existsb_exists; exists y; split; [exact H | apply Z.eqb_refl]). congruence. }
    split.
    + intros [->|[H1 H2]]; [tauto|]. split; [tauto|]. intros H. apply H2. now right.
    + intros [[->|H1] H2]; [now left|]. destruct (Z.eq_dec y x) as [->|Hne]; [now left|]. right. split; [exact H1|]. intros [H|H]; [congruence | contradiction].
Qed.
Lemma existsb_eqb x l : existsb (Z.eqb x) l = true <-> In x l.
Proof. rewrite existsb_exists. split; [intros (y & H & E); apply Z.eqb_eq in E; now subst | intros H; exists x; split; [exact H | apply Z.eqb_refl]]. Qed.

(* what a planned merge is made of *)
Lemma apply_plan_inv g a ab k g' : apply_plan g a ab k = Some g' ->
  exists b na nb c t f, lookup g a = Some na /\ lookup g b = Some nb /\ g_live na = true /\ g_live nb = true /\ a <> b /\
    points_to na b = true /\ points_to nb a = false /\ entered_from_one_block g b = true /\ (points_to na t = true \/ points_to nb t = true) /\ (points_to na f = true \/ points_to nb f = true) /\
    plan g a k = Some (b, c, t, f) /\ g' = merge g a b ab c t f (g_catch na) (dests_of a b na nb).
Proof.
  unfold apply_plan. destruct (plan g a k) as [[[[b c] t] f]|] eqn:Ep; [|discriminate].
  destruct (lookup g a) as [na|] eqn:Ha; [|discriminate]. destruct (lookup g b) as [nb|] eqn:Hb; [|discriminate]. intros H. injection H as <-.
  exists b, na, nb, c, t, f. unfold plan in Ep. rewrite Ha in Ep. cbv zeta in Ep.
  destruct (negb (g_live na) || (g_true na =? a) || (g_false na =? a) || (g_true na =? g_false na)) eqn:Eg; [discriminate|].
  apply orb_false_iff in Eg as [Eg Ete]. apply orb_false_iff in Eg as [Eg Efa]. apply orb_false_iff in Eg as [Ela Eta]. apply negb_false_iff in Ela.
  assert (P : forall x y, x = y -> (x =? y) = true) by (intros; subst; apply Z.eqb_refl).
  destruct k.
  - destruct (lookup g (g_true na)) as [nb'|] eqn:Hb'; [|discriminate].
    destruct (g_live nb' && entered_from_one_block g (g_true na) && negb (points_to nb' a) && (g_false nb' =? g_false na)) eqn:Ec; [|discriminate].
    injection Ep as <- <- <- <-. rewrite Hb' in Hb. injection Hb as <-. apply andb_true_iff in Ec as [Ec E3]. apply andb_true_iff in Ec as [Ec E2]. apply andb_true_iff in Ec as [E0 E1].
    apply negb_true_iff in E2. unfold points_to. rewrite !Z.eqb_refl. cbn [orb]. repeat split; auto; try lia; try (rewrite ?orb_true_r; auto).
  - destruct (lookup g (g_true na)) as [nb'|] eqn:Hb'; [|discriminate].
    destruct (g_live nb' && entered_from_one_block g (g_true na) && negb (points_to nb' a) && (g_true nb' =? g_false na)) eqn:Ec; [|discriminate].
    injection Ep as <- <- <- <-. rewrite Hb' in Hb. injection Hb as <-. apply andb_true_iff in Ec as [Ec E3]. apply andb_true_iff in Ec as [Ec E2]. apply andb_true_iff in Ec as [E0 E1].
    apply negb_true_iff in E2. unfold points_to. rewrite !Z.eqb_refl. cbn [orb]. repeat split; auto; try lia; try (rewrite ?orb_true_r; auto).
  - destruct (lookup g (g_false na)) as [nb'|] eqn:Hb'; [|discriminate].
    destruct (g_live nb' && entered_from_one_block g (g_false na) && negb (points_to nb' a) && (g_false nb' =? g_true na)) eqn:Ec; [|discriminate].
    injection Ep as <- <- <- <-. rewrite Hb' in Hb. injection Hb as <-. apply andb_true_iff in Ec as [Ec E3]. apply andb_true_iff in Ec as [Ec E2]. apply andb_true_iff in Ec as [E0 E1].
    apply negb_true_iff in E2. unfold points_to. rewrite !Z.eqb_refl. cbn [orb]. repeat split; auto; try lia; try (rewrite ?orb_true_r; auto).
  - destruct (lookup g (g_false na)) as [nb'|] eqn:Hb'; [|discriminate].
    destruct (g_live nb' && entered_from_one_block g (g_false na) && negb (points_to nb' a) && (g_true nb' =? g_true na)) eqn:Ec; [|discriminate].
    injection Ep as <- <- <- <-. rewrite Hb' in Hb. injection Hb as <-. apply andb_true_iff in Ec as [Ec E3]. apply andb_true_iff in Ec as [Ec E2]. apply andb_true_iff in Ec as [E0 E1].
    apply negb_true_iff in E2. unfold points_to. rewrite !Z.eqb_refl. cbn [orb]. repeat split; auto; try lia; try (rewrite ?orb_true_r; auto).
Qed.

Lemma in_merge_old a b ab g k n : In (k, n) (map (redirect a b ab) g) -> exists n0, In (k, n0) g /\ n = snd (redirect a b ab (k, n0)).
Proof.
  intros H. apply in_map_iff in H as ([k0 n0] & E & Hin). pose proof (redirect_key a b ab k0 n0) as Hk. rewrite E in Hk. cbn [fst] in Hk. subst k0.
  exists n0. split; [exact Hin|]. now rewrite E.
Qed.
Lemma redirect_pointers a b ab k n0 x : points_to (snd (redirect a b ab (k, n0))) x = true ->
  points_to n0 x = true \/ (x = ab /\ (points_to n0 a = true \/ points_to n0 b = true) /\ is_ab a b k = false /\ g_live n0 = true /\ g_catch n0 = false).
Proof.
  unfold redirect. destruct (is_ab a b k) eqn:Ek; [cbn [snd]; unfold points_to; cbn [g_true g_false]; now left|].
  destruct (g_live n0 && negb (g_catch n0)) eqn:E; [|cbn [snd]; unfold points_to; cbn [g_true g_false]; now left].
  apply andb_true_iff in E as [El Ec]. apply negb_true_iff in Ec. cbn [snd]. unfold points_to. cbn [g_true g_false]. unfold sub, is_ab.
  intros H. apply orb_true_iff in H as [H|H].
  - destruct ((g_true n0 =? a) || (g_true n0 =? b)) eqn:E1.
    + right. apply Z.eqb_eq in H. split; [lia|]. split; [|auto]. apply orb_true_iff in E1 as [E1|E1]; [left | right]; rewrite E1; reflexivity.
    + left. rewrite H. reflexivity.
  - destruct ((g_false n0 =? a) || (g_false n0 =? b)) eqn:E1.
    + right. apply Z.eqb_eq in H. split; [lia|]. split; [|auto]. apply orb_true_iff in E1 as [E1|E1]; [left | right]; rewrite E1; apply orb_true_r.
    + left. rewrite H. apply orb_true_r.
Qed.

Section Keep.
Variables (g : graph) (a b ab : Z) (na nb : gnode) (c : cond) (t f : Z).
Hypothesis Ha : lookup g a = Some na.
Hypothesis Hb : lookup g b = Some nb.
Hypothesis La : g_live na = true.
Hypothesis Lb : g_live nb = true.
Hypothesis Hab : a <> b.
Hypothesis Pab : points_to na b = true.
Hypothesis Pba : points_to nb a = false.
Hypothesis Pt : points_to na t = true \/ points_to nb t = true.
Hypothesis Pf : points_to na f = true \/ points_to nb f = true.
Hypothesis Hunused : unused_from g ab.
Hypothesis Hedges : edges_ok g.
Hypothesis Honly : forall k n, lookup g k = Some n -> g_live n = true -> g_catch n = false -> k <> a -> k <> b -> points_to n b = false.
Let g' := merge g a b ab c t f (g_catch na) (dests_of a b na nb).

Lemma pointer_below k n x m' : In (k, n) g -> points_to n x = true -> ab <= m' -> x <> m'.
Proof.
  intros Hin P Hm. destruct (Hunused m' Hm) as [_ F]. destruct (F k n Hin) as [F1 F2]. unfold points_to in P.
  apply orb_true_iff in P as [P|P]; apply Z.eqb_eq in P; lia.
Qed.
Lemma t_below m' : ab <= m' -> t <> m'.
Proof. intros Hm. destruct Pt as [P|P]; [exact (pointer_below a na t m' (lookup_in _ _ _ Ha) P Hm) | exact (pointer_below b nb t m' (lookup_in _ _ _ Hb) P Hm)]. Qed.
Lemma f_below m' : ab <= m' -> f <> m'.
Proof. intros Hm. destruct Pf as [P|P]; [exact (pointer_below a na f m' (lookup_in _ _ _ Ha) P Hm) | exact (pointer_below b nb f m' (lookup_in _ _ _ Hb) P Hm)]. Qed.

Lemma keep_unused : unused_from g' (ab + 1).
Proof.
  intros m' Hm. split.
  - unfold g', merge. rewrite lookup_app_none.
    + cbn [lookup]. now replace (ab =? m') with false by lia.
    + rewrite lookup_map_redirect. destruct (Hunused m' ltac:(lia)) as [H _]. now rewrite H.
  - intros k n Hin. unfold g', merge in Hin. apply in_app_iff in Hin as [Hin|[Hin|[]]].
    + destruct (in_merge_old _ _ _ _ _ _ Hin) as (n0 & Hin0 & ->).
      assert (Q : forall x, points_to (snd (redirect a b ab (k, n0))) x = true -> x <> m').
      { intros x P. destruct (redirect_pointers _ _ _ _ _ _ P) as [P0|[-> _]]; [exact (pointer_below k n0 x m' Hin0 P0 ltac:(lia)) | lia]. }
      split; apply Q; unfold points_to; rewrite Z.eqb_refl; [reflexivity | apply orb_true_r].
    + injection Hin as <- <-. cbn [g_true g_false]. split; [apply t_below | apply f_below]; lia.
Qed.

Lemma fresh_ab : fresh g ab.  Proof. apply Hunused. lia. Qed.
Lemma look_old i : i <> ab -> lookup g' i = option_map (fun n => snd (redirect a b ab (i, n))) (lookup g i).
Proof. intros Hi. exact (lookup_old g a b ab c t f (g_catch na) (dests_of a b na nb) i Hi). Qed.
Lemma look_new : lookup g' ab = Some {| g_cond := c; g_true := t; g_false := f; g_catch := g_catch na; g_live := true; g_sucs := dests_of a b na nb |}.
Proof. exact (lookup_new g a b ab c t f (g_catch na) (dests_of a b na nb) fresh_ab). Qed.

Lemma keep_no_pred e : no_pred g e -> e <> ab -> no_pred g' (if is_ab a b e then ab else e).
Proof.
  intros Hn He k n Hl. assert (Eb : e <> b). { intros ->. rewrite (Hn a na Ha) in Pab. discriminate. }
  destruct (points_to n (if is_ab a b e then ab else e)) eqn:P; [exfalso|reflexivity].
  destruct (Z.eq_dec k ab) as [->|Hk].
  - rewrite look_new in Hl. injection Hl as <-. unfold points_to in P. cbn [g_true g_false] in P.
    destruct (is_ab a b e) eqn:Ee.
    + pose proof (t_below ab (Z.le_refl _)). pose proof (f_below ab (Z.le_refl _)). lia.
    + assert (Q : forall x, (points_to na x = true \/ points_to nb x = true) -> x <> e).
      { intros x [Px|Px] ->; [rewrite (Hn a na Ha) in Px | rewrite (Hn b nb Hb) in Px]; discriminate. }
      pose proof (Q t Pt). pose proof (Q f Pf). lia.
  - rewrite (look_old k Hk) in Hl. destruct (lookup g k) as [n0|] eqn:E0; [|discriminate]. cbn [option_map] in Hl. injection Hl as <-.
    destruct (redirect_pointers _ _ _ _ _ _ P) as [P0|(Ex & [Pa|Pb] & Ek & El & Ec)].
    + destruct (is_ab a b e); [exact (pointer_below k n0 ab ab (lookup_in _ _ _ E0) P0 (Z.le_refl _) eq_refl) | rewrite (Hn k n0 E0) in P0; discriminate].
    + destruct (is_ab a b e) eqn:Ee; [|lia]. unfold is_ab in Ee. assert (e = a) by lia. subst e. rewrite (Hn k n0 E0) in Pa. discriminate.
    + unfold is_ab in Ek. apply orb_false_iff in Ek as [Eka Ekb]. rewrite (Honly k n0 E0 El Ec ltac:(lia) ltac:(lia)) in Pb. discriminate.
Qed.

Lemma live_after x nx : lookup g' x = Some nx -> g_live nx = true -> x <> ab -> exists nx0, lookup g x = Some nx0 /\ g_live nx0 = true /\ x <> a /\ x <> b.
Proof.
  intros Hl Ll Hx. rewrite (look_old x Hx) in Hl. destruct (lookup g x) as [nx0|] eqn:E; [|discriminate]. cbn [option_map] in Hl. injection Hl as <-.
  exists nx0. unfold redirect in Ll. destruct (is_ab a b x) eqn:Ex; [discriminate Ll|]. unfold is_ab in Ex. apply orb_false_iff in Ex as [E1 E2].
  split; [reflexivity|]. split; [|lia]. destruct (g_live nx0 && negb (g_catch nx0)) eqn:Ev; cbn [snd g_live] in Ll; [apply andb_true_iff in Ev; tauto | exact Ll].
Qed.
Lemma in_filter_not_ab x l : In x l -> is_ab a b x = false -> In x (filter (fun y => negb (is_ab a b y)) l).
Proof. intros H E. apply filter_In. split; [exact H | now rewrite E]. Qed.

Lemma keep_edges_ok : edges_ok g'.
Proof.
  intros k n x nx Hl Ll P Hx Lx.
  destruct (Z.eq_dec k ab) as [->|Hk].
  - (* the new block *)
    rewrite look_new in Hl. injection Hl as <-. unfold has_edge. cbn [g_live g_sucs andb].
    assert (Hxab : x <> ab). { unfold points_to in P. cbn [g_true g_false] in P. pose proof (t_below ab (Z.le_refl _)). pose proof (f_below ab (Z.le_refl _)). lia. }
    destruct (live_after x nx Hx Lx Hxab) as (nx0 & Hx0 & Lx0 & Hxa & Hxb).
    apply existsb_eqb. unfold dests_of. apply in_keep_first. split; [|tauto]. apply in_filter_not_ab; [|unfold is_ab; lia].
    apply in_or_app. unfold points_to in P. cbn [g_true g_false] in P.
    assert (Q : (points_to na x = true \/ points_to nb x = true)) by (apply orb_true_iff in P as [P|P]; apply Z.eqb_eq in P; subst x; assumption).
    destruct Q as [Q|Q]; [left | right].
    + pose proof (Hedges a na x nx0 Ha La Q Hx0 Lx0) as E. unfold has_edge in E. rewrite La in E. now apply existsb_eqb.
    + pose proof (Hedges b nb x nx0 Hb Lb Q Hx0 Lx0) as E. unfold has_edge in E. rewrite Lb in E. now apply existsb_eqb.
  - rewrite (look_old k Hk) in Hl. destruct (lookup g k) as [n0|] eqn:E0; [|discriminate]. cbn [option_map] in Hl. injection Hl as <-.
    unfold redirect in *. destruct (is_ab a b k) eqn:Ek; [discriminate Ll|].
    destruct (g_live n0 && negb (g_catch n0)) eqn:Ev; cbn [snd g_live g_sucs g_true g_false] in *.
    + (* a re-pointed block *)
      apply andb_true_iff in Ev as [El Ec]. unfold has_edge. cbn [g_live g_sucs andb]. apply existsb_eqb. unfold sucs_after. cbn [andb].
      destruct (Z.eq_dec x ab) as [->|Hxab].
      * (* the pointer was at a or b, both nodes of the graph: there was an edge, ab has been appended *)
        assert (Old : points_to n0 a = true \/ points_to n0 b = true).
        { unfold points_to in P. cbn [g_true g_false] in P. unfold sub in P. unfold points_to, is_ab in *.
          destruct ((g_true n0 =? a) || (g_true n0 =? b)) eqn:E1; [apply orb_true_iff in E1 as [E1|E1]; rewrite E1; auto|].
          destruct ((g_false n0 =? a) || (g_false n0 =? b)) eqn:E2; [apply orb_true_iff in E2 as [E2|E2]; rewrite E2, ?orb_true_r; auto|].
          exfalso. pose proof (pointer_below k n0 (g_true n0) ab (lookup_in _ _ _ E0)) as B1. pose proof (pointer_below k n0 (g_false n0) ab (lookup_in _ _ _ E0)) as B2.
          unfold points_to in B1, B2. rewrite Z.eqb_refl in B1, B2. specialize (B1 eq_refl (Z.le_refl _)). rewrite orb_true_r in B2. specialize (B2 eq_refl (Z.le_refl _)). lia. }
        assert (Ex : existsb (is_ab a b) (g_sucs n0) = true).
        { apply existsb_exists. destruct Old as [O|O].
          - exists a. split; [|unfold is_ab; now rewrite Z.eqb_refl]. pose proof (Hedges k n0 a na E0 El O Ha La) as E. unfold has_edge in E. rewrite El in E. now apply existsb_eqb.
          - exists b. split; [|unfold is_ab; rewrite Z.eqb_refl; apply orb_true_r]. pose proof (Hedges k n0 b nb E0 El O Hb Lb) as E. unfold has_edge in E. rewrite El in E. now apply existsb_eqb. }
        rewrite Ex. apply in_or_app. right. now left.
      * destruct (live_after x nx Hx Lx Hxab) as (nx0 & Hx0 & Lx0 & Hxa & Hxb).
        assert (P0 : points_to n0 x = true).
        { unfold points_to in *. cbn [g_true g_false] in P. unfold sub in P. apply orb_true_iff in P as [P|P].
          - destruct (is_ab a b (g_true n0)); [lia | rewrite P; reflexivity].
          - destruct (is_ab a b (g_false n0)); [lia | rewrite P; apply orb_true_r]. }
        pose proof (Hedges k n0 x nx0 E0 El P0 Hx0 Lx0) as E. unfold has_edge in E. rewrite El in E. apply existsb_eqb in E.
        assert (In x (filter (fun y => negb (is_ab a b y)) (g_sucs n0))) by (apply in_filter_not_ab; [exact E | unfold is_ab; lia]).
        destruct (existsb (is_ab a b) (g_sucs n0)); [apply in_or_app; now left | assumption].
    + (* a block of a handler (or one outside the graph): pointers as before *)
      assert (Hxab : x <> ab) by (intros ->; exact (pointer_below k n0 ab ab (lookup_in _ _ _ E0) P (Z.le_refl _) eq_refl)).
      destruct (live_after x nx Hx Lx Hxab) as (nx0 & Hx0 & Lx0 & Hxa & Hxb).
      pose proof (Hedges k n0 x nx0 E0 Ll P Hx0 Lx0) as E. unfold has_edge in *. cbn [g_live g_sucs]. rewrite Ll in *. cbn [andb] in *. apply existsb_eqb in E. apply existsb_eqb.
      unfold sucs_after. cbn [andb]. apply in_filter_not_ab; [exact E | unfold is_ab; lia].
Qed.
End Keep.

(* ---------------------------------------------------------------- the driver *)
Definition Inv (g0 : graph) (e0 : Z) (s : dstate) : Prop :=
  edges_ok (d_g s) /\ unused_from (d_g s) (d_fresh s) /\ no_pred (d_g s) (d_entry s) /\ d_entry s < d_fresh s /\ same_walks g0 e0 (d_g s) (d_entry s).

Lemma do_merge_inv g0 e0 s a k s' : Inv g0 e0 s -> do_merge s a k = Some s' -> Inv g0 e0 s'.
Proof.
  intros (Je & Ju & Jn & Jl & Jw) H. unfold do_merge in H.
  destruct (plan (d_g s) a k) as [[[[b c] t] f]|] eqn:Ep; [|discriminate].
  destruct (apply_plan (d_g s) a (d_fresh s) k) as [g'|] eqn:Ea; [|discriminate]. injection H as <-.
  destruct (apply_plan_inv _ _ _ _ _ Ea) as (b' & na & nb & c' & t' & f' & Ha & Hb & La & Lb & Hab & Pab & Pba & Eo & Pt & Pf & Ep' & Eg).
  rewrite Ep in Ep'. injection Ep' as <- <- <- <-.
  assert (Hfr : fresh (d_g s) (d_fresh s)) by (apply Ju; lia).
  assert (Honly : forall k0 n, lookup (d_g s) k0 = Some n -> g_live n = true -> g_catch n = false -> k0 <> a -> k0 <> b -> points_to n b = false).
  { unfold entered_from_one_block in Eo. apply andb_true_iff in Eo as [_ Eo]. apply Nat.eqb_eq in Eo. exact (only_pred (d_g s) a b na nb Je Ha La Hb Lb Pab Eo). }
  assert (Eb : d_entry s <> b). { intros E. rewrite <- E in Pab. rewrite (Jn a na Ha) in Pab. discriminate. }
  unfold Inv. cbn [d_g d_fresh d_entry]. subst g'. split; [|split; [|split; [|split]]].
  - exact (keep_edges_ok (d_g s) a b (d_fresh s) na nb c t f Ha Hb La Lb Hab Pt Pf Ju Je).
  - exact (keep_unused (d_g s) a b (d_fresh s) na nb c t f Ha Hb Pt Pf Ju).
  - pose proof (keep_no_pred (d_g s) a b (d_fresh s) na nb c t f Ha Hb Hab Pab Pt Pf Ju Honly (d_entry s) Jn ltac:(lia)) as K. unfold is_ab in K. exact K.
  - destruct ((d_entry s =? a) || (d_entry s =? b)); lia.
  - apply (same_walks_trans g0 e0 (d_g s) (d_entry s)); [exact Jw|].
    pose proof (planned_merge_is_sound (d_g s) a (d_fresh s) k _ Je Hfr Ea) as S.
    replace ((d_entry s =? a) || (d_entry s =? b)) with (d_entry s =? a) by (replace (d_entry s =? b) with false by lia; now rewrite orb_false_r).
    intros env x. destruct (S env (d_entry s) ltac:(lia)) as [F B]. split.
    + intros n W. exact (F n x W).
    + intros [n W]. exact (B n x W).
Qed.
Lemma add_done_inv g0 e0 s a : Inv g0 e0 s -> Inv g0 e0 (add_done s a).
Proof. intros H. exact H. Qed.
Ltac merge_or_done g0 e0 J :=
  repeat match goal with
         | |- Inv g0 e0 (add_done _ _) => apply add_done_inv
         | |- Inv g0 e0 match do_merge ?s ?a ?k with _ => _ end => let E := fresh "E" in destruct (do_merge s a k) as [?s'|] eqn:E; [apply add_done_inv; exact (do_merge_inv g0 e0 s a k _ J E)|]
         end; try exact J.
Lemma process_inv g0 e0 s a : Inv g0 e0 s -> Inv g0 e0 (process s a).
Proof.
  intros J. unfold process. destruct (mem a (d_done s)); [exact J|]. destruct (lookup (d_g s) a) as [na|]; [|exact J].
  cbv zeta. destruct ((a =? g_true na) || (a =? g_false na)); [exact J|].
  destruct (lookup (d_g s) (g_true na)) as [nb|].
  - destruct (entered_from_one_block (d_g s) (g_true na)).
    + destruct (points_to nb a); [exact J|]. merge_or_done g0 e0 J.
    + destruct (lookup (d_g s) (g_false na)) as [ne|]; [|exact J]. destruct (entered_from_one_block (d_g s) (g_false na)); [|exact J].
      destruct (points_to ne a); [exact J|]. merge_or_done g0 e0 J.
  - destruct (lookup (d_g s) (g_false na)) as [ne|]; [|exact J]. destruct (entered_from_one_block (d_g s) (g_false na)); [|exact J].
    destruct (points_to ne a); [exact J|]. merge_or_done g0 e0 J.
Qed.
Lemma fold_process_inv g0 e0 : forall l s, Inv g0 e0 s -> Inv g0 e0 (fold_left process l s).
Proof. induction l as [|a l IH]; intros s J; [exact J | cbn [fold_left]; apply IH, process_inv, J]. Qed.

(* the passes of short_circuit_struct, until nothing changes: the graph they leave has, from its entry, exactly the walks the
   original graph has from its entry - for EVERY graph in which pointers between graph nodes are edges, the identifiers from
   the counter on are unused and nothing points at the entry *)
Theorem struct_keeps_walks : forall fuel g m e, edges_ok g -> unused_from g m -> no_pred g e -> e < m ->
  same_walks g e (fst (struct fuel g m e)) (snd (struct fuel g m e)).
Proof.
  intros fuel g m e Je Ju Jn Jl.
  assert (Gen : forall fuel g1 m1 e1, Inv g e {| d_g := g1; d_fresh := m1; d_entry := e1; d_done := []; d_changed := false |} ->
                 same_walks g e (fst (struct fuel g1 m1 e1)) (snd (struct fuel g1 m1 e1))).
  { induction fuel0 as [|f IH]; intros g1 m1 e1 J.
    - cbn [struct fst snd]. exact (proj2 (proj2 (proj2 (proj2 J)))).
    - cbn [struct]. unfold one_pass. pose proof (fold_process_inv g e (post_order g1 e1) _ J) as J'.
      set (s := fold_left process (post_order g1 e1) _) in *. destruct (d_changed s).
      + apply IH. destruct J' as (A & B & C & D & E). unfold Inv. cbn [d_g d_fresh d_entry]. split; [|split; [|split; [|split]]]; assumption.
      + cbn [fst snd]. exact (proj2 (proj2 (proj2 (proj2 J')))). }
  apply Gen. unfold Inv. cbn [d_g d_fresh d_entry]. split; [|split; [|split; [|split]]]; try assumption. apply same_walks_refl.
Qed.
Print Assumptions struct_keeps_walks.

(* the graphs of the chains the model is run on meet the hypotheses *)
Lemma mk_edges c t f ca x : points_to (mk c t f ca) x = true -> has_edge (mk c t f ca) x = true.
Proof.
  unfold points_to, has_edge, mk. cbn [g_true g_false g_live g_sucs andb]. intros H.
  destruct (t =? f) eqn:E; cbn [existsb]; rewrite (Z.eqb_sym x); [apply Z.eqb_eq in E; subst f; rewrite orb_diag in H; rewrite H; reflexivity|].
  rewrite (Z.eqb_sym x f), orb_false_r. exact H.
Qed.
Lemma lookup_chain_mk : forall (l : list (Z * ((Z * Z) * bool))) k n,
  lookup (map (fun ik => let '(i, ((t, f), c)) := ik in (i, mk (Leaf i false) t f c)) l) k = Some n -> exists c t f ca, n = mk c t f ca.
Proof.
  induction l as [|[i [[t f] c]] r IH]; intros k n H; [discriminate|]. cbn [map lookup] in H. destruct (i =? k); [injection H as <-; eauto | eauto].
Qed.
Theorem chain_edges_ok spec : edges_ok (chain_graph spec).
Proof. intros k n x nx Hl _ P _ _. destruct (lookup_chain_mk _ k n Hl) as (c & t & f & ca & ->). now apply mk_edges. Qed.

(* the chain of defect 41 with the handler block marked: the driver does not merge blocks 1 and 2, and by the theorem whatever
   it does keeps the walks *)
(* every chain whose targets are later... any blocks of the chain except block 0, or exits (negative): the hypotheses of the theorem hold *)
Definition chain_wf (spec : list ((Z * Z) * bool)) : Prop :=
  Forall (fun p => fst (fst p) < Z.of_nat (length spec) /\ snd (fst p) < Z.of_nat (length spec) /\ fst (fst p) <> 0 /\ snd (fst p) <> 0) spec.
Lemma in_chain_graph spec k n : In (k, n) (chain_graph spec) ->
  exists t f c, n = mk (Leaf k false) t f c /\ In ((t, f), c) spec /\ 0 <= k < Z.of_nat (length spec).
Proof.
  unfold chain_graph. intros H. apply in_map_iff in H as ([i [[t f] c]] & E & I). injection E as <- <-. exists t, f, c. split; [reflexivity|].
  split; [exact (in_combine_r _ _ _ _ I)|]. apply in_combine_l in I. apply in_map_iff in I as (j & <- & J). apply in_seq in J. lia.
Qed.
Theorem chain_hypotheses spec : chain_wf spec ->
  edges_ok (chain_graph spec) /\ unused_from (chain_graph spec) (Z.of_nat (length spec)) /\ no_pred (chain_graph spec) 0.
Proof.
  intros W. unfold chain_wf in W. rewrite Forall_forall in W. split; [apply chain_edges_ok|]. split.
  - intros m' Hm. split.
    + destruct (lookup (chain_graph spec) m') as [n|] eqn:L; [|reflexivity]. apply lookup_in in L. apply in_chain_graph in L as (t & f & c & _ & _ & R). lia.
    + intros k n I. apply in_chain_graph in I as (t & f & c & -> & I & _). specialize (W _ I). cbn [fst snd] in W. cbn [mk g_true g_false]. lia.
  - intros k n L. apply lookup_in in L. apply in_chain_graph in L as (t & f & c & -> & I & _). specialize (W _ I). cbn [fst snd] in W.
    unfold points_to. cbn [mk g_true g_false]. destruct (Z.eqb_spec t 0); [lia|]. destruct (Z.eqb_spec f 0); [lia|]. reflexivity.
Qed.
(* the passes on any such chain (of at least one block): every walk is kept *)
Theorem struct_keeps_chain_walks spec fuel : chain_wf spec -> spec <> [] ->
  same_walks (chain_graph spec) 0 (fst (struct fuel (chain_graph spec) (Z.of_nat (length spec)) 0)) (snd (struct fuel (chain_graph spec) (Z.of_nat (length spec)) 0)).
Proof.
  intros W NE. destruct (chain_hypotheses spec W) as (A & B & C). apply struct_keeps_walks; try assumption. destruct spec; [congruence|]. cbn [length]. lia.
Qed.
Print Assumptions struct_keeps_chain_walks.

(* a chain whose second block is marked as handler code but entered from the first block only: the passes merge all three
   blocks into block 4, and by the theorem every walk still ends where it did *)
Definition d41_spec : list ((Z * Z) * bool) := [((2, 1), false); ((-1, 2), true); ((-3, -1), false)].
Example d41_hypotheses : edges_ok (chain_graph d41_spec) /\ unused_from (chain_graph d41_spec) 3 /\ no_pred (chain_graph d41_spec) 0.
Proof.
  split; [apply chain_edges_ok|]. split.
  - intros m' Hm. split.
    + change (chain_graph d41_spec) with [(0, mk (Leaf 0 false) 2 1 false); (1, mk (Leaf 1 false) (-1) 2 true); (2, mk (Leaf 2 false) (-3) (-1) false)].
      cbn [lookup]. repeat match goal with |- context [?a =? m'] => destruct (Z.eqb_spec a m'); [lia|] end. reflexivity.
    + intros k n [Q|[Q|[Q|[]]]]; injection Q as <- <-; cbn [g_true g_false mk]; lia.
  - intros k n Hk. change (chain_graph d41_spec) with [(0, mk (Leaf 0 false) 2 1 false); (1, mk (Leaf 1 false) (-1) 2 true); (2, mk (Leaf 2 false) (-3) (-1) false)] in Hk.
    apply lookup_in in Hk. destruct Hk as [Q|[Q|[Q|[]]]]; injection Q as <- <-; reflexivity.
Qed.
Example d41_merged :
  map (fun kn => (fst kn, g_live (snd kn))) (fst (struct 4 (chain_graph d41_spec) 3 0)) = [(0, false); (1, false); (2, false); (3, false); (4, true)]
  /\ snd (struct 4 (chain_graph d41_spec) 3 0) = 4.
Proof. split; vm_compute; reflexivity. Qed.
Example d41_walks_kept : same_walks (chain_graph d41_spec) 0 (fst (struct 4 (chain_graph d41_spec) 3 0)) (snd (struct 4 (chain_graph d41_spec) 3 0)).
Proof. destruct d41_hypotheses as (A & B & C). apply struct_keeps_walks; try assumption. lia. Qed.
