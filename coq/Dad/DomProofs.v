(* C18 - the executable specification of coq/Dad/DomModel.v meets the path definition of (immediate) dominators *)
From Coq Require Import ZArith List Bool Lia.
Require Import V.Lib.Val V.Lib.Result V.Dad.DomModel.
Import ListNotations.
Open Scope Z_scope.

(* ---------------------------------------------------------------- the standard definitions *)
Definition edge (g : graph) (u v : Z) : Prop := In v (sucs g u).
(* path g a l b: l is the sequence of nodes of a walk from a to b, both ends included *)
Inductive path (g : graph) (a : Z) : list Z -> Z -> Prop :=
| p_one : path g a [a] a
| p_step l b c : path g a l b -> edge g b c -> path g a (l ++ [c]) c.
Definition reachable (g : graph) (entry v : Z) : Prop := exists l, path g entry l v.
Definition dominates (g : graph) (entry d v : Z) : Prop := reachable g entry v /\ forall l, path g entry l v -> In d l.
Definition is_idom (g : graph) (entry d v : Z) : Prop :=
  d <> v /\ dominates g entry d v /\ forall d', d' <> v -> dominates g entry d' v -> dominates g entry d' d.
(* reachable without entering d *)
Definition reach_av (g : graph) (entry : Z) (d : option Z) (v : Z) : Prop :=
  exists l, path g entry l v /\ forall x, In x l -> allowed d x = true.

Lemma path_ends g a l b : path g a l b -> In a l /\ In b l.
Proof. induction 1 as [|l b c H [IH1 IH2] He]; [split; now left|]. split; apply in_or_app; [now left | right; now left]. Qed.
Lemma path_prefix g a l b x : path g a l b -> In x l -> exists l', path g a l' x /\ forall y, In y l' -> In y l.
Proof.
  induction 1 as [|l b c H IH He]; intros Hx.
  - destruct Hx as [<-|[]]. exists [a]. split; [constructor | auto].
  - apply in_app_or in Hx as [Hx|[<-|[]]].
    + destruct (IH Hx) as (l' & Hp & Hs). exists l'. split; [exact Hp|]. intros y Hy. apply in_or_app. left. auto.
    + exists (l ++ [c]). split; [econstructor; eauto | auto].
Qed.

(* ---------------------------------------------------------------- the closure *)
Lemma memz_spec x l : memz x l = true <-> In x l.
Proof.
  unfold memz. rewrite existsb_exists. split.
  - intros (y & Hy & E). apply Z.eqb_eq in E. now subst.
  - intros H. exists x. split; [exact H | apply Z.eqb_refl].
Qed.
Lemma add_new_in d : forall cands W x, In x (add_new d cands W) <-> In x W \/ (In x cands /\ allowed d x = true).
Proof.
  induction cands as [|v r IH]; intros W x; cbn [add_new]; [split; [auto | intros [H|[[] _]]; exact H]|].
  destruct (allowed d v && negb (memz v W)) eqn:E.
  - rewrite IH, in_app_iff. apply andb_true_iff in E as [E1 E2]. cbn [In]. split.
    + intros [[H|[<-|[]]]|[H1 H2]]; auto.
    + intros [H|[[<-|H1] H2]]; auto.
  - rewrite IH. cbn [In]. split; [intros [H|[H1 H2]]; auto|]. intros [H|[[<-|H1] H2]]; auto.
    rewrite H2 in E. cbn [andb] in E. apply negb_false_iff in E. left. now apply memz_spec.
Qed.
Lemma add_new_len d : forall cands W, (length W <= length (add_new d cands W))%nat.
Proof.
  induction cands as [|v r IH]; intros W; cbn [add_new]; [lia|]. destruct (allowed d v && negb (memz v W)); [|apply IH].
  specialize (IH (W ++ [v])). rewrite app_length in IH. cbn [length] in IH. lia.
Qed.
Lemma add_new_stable d : forall cands W, length (add_new d cands W) = length W ->
  forall x, In x cands -> allowed d x = true -> In x W.
Proof.
  induction cands as [|v r IH]; intros W Hl x Hx Ha; [contradiction|]. cbn [add_new] in Hl.
  destruct (allowed d v && negb (memz v W)) eqn:E.
  - pose proof (add_new_len d r (W ++ [v])) as L. rewrite app_length in L. cbn [length] in L. lia.
  - destruct Hx as [<-|Hx]; [|now apply (IH W)]. rewrite Ha in E. cbn [andb] in E. apply negb_false_iff in E. now apply memz_spec.
Qed.

Lemma closure_spec g d : forall fuel W S, closure fuel g d W = Some S ->
  (forall x, In x W -> In x S) /\
  (forall u v, In u S -> edge g u v -> allowed d v = true -> In v S) /\
  (forall P : Z -> Prop, (forall x, In x W -> P x) -> (forall u v, P u -> edge g u v -> allowed d v = true -> P v) -> forall x, In x S -> P x).
Proof.
  induction fuel as [|f IH]; intros W S H; [discriminate|]. cbn [closure] in H.
  destruct (length (grow g d W) =? length W)%nat eqn:E.
  - injection H as <-. apply Nat.eqb_eq in E. split; [auto|]. split; [|auto].
    intros u v Hu He Ha. apply (add_new_stable d _ _ E); [|exact Ha]. apply in_flat_map. exists u. auto.
  - destruct (IH _ _ H) as (I1 & I2 & I3). split; [|split; [exact I2|]].
    + intros x Hx. apply I1. unfold grow. apply add_new_in. now left.
    + intros P HW Hstep x Hx. apply (I3 P); auto. intros y Hy. unfold grow in Hy. apply add_new_in in Hy as [Hy|[Hy Ha]]; [auto|].
      apply in_flat_map in Hy as (u & Hu & Hv). apply (Hstep u); auto.
Qed.

Theorem reach_set_spec g entry d S : reach_set g entry d = Some S -> forall v, In v S <-> reach_av g entry d v.
Proof.
  unfold reach_set. destruct (allowed d entry) eqn:Ea.
  - intros H v. destruct (closure_spec g d _ _ _ H) as (I1 & I2 & I3). split.
    + apply (I3 (reach_av g entry d)).
      * intros x [<-|[]]. exists [entry]. split; [constructor|]. intros y [<-|[]]. exact Ea.
      * intros u w (l & Hp & Hl) He Ha. exists (l ++ [w]). split; [econstructor; eauto|].
        intros y Hy. apply in_app_or in Hy as [Hy|[<-|[]]]; auto.
    + intros (l & Hp & Hl). induction Hp as [|l b c Hp IH He].
      * apply I1. now left.
      * apply (I2 b); [|exact He|]; [apply IH|]; intros; apply Hl; apply in_or_app; [left; auto | right; now left].
  - intros H v. injection H as <-. split; [contradiction|]. intros (l & Hp & Hl). apply path_ends in Hp as [Hp _].
    rewrite (Hl _ Hp) in Ea. discriminate.
Qed.

(* dominance is non-reachability after removal *)
Lemma dominates_by_removal g entry d v :
  dominates g entry d v <-> reachable g entry v /\ ~ reach_av g entry (Some d) v.
Proof.
  unfold dominates. split; intros [Hr H]; split; auto.
  - intros (l & Hp & Hl). specialize (H l Hp). specialize (Hl d H). cbn [allowed] in Hl. rewrite Z.eqb_refl in Hl. discriminate.
  - intros l Hp. destruct (in_dec Z.eq_dec d l) as [Hin|Hn]; [exact Hin|]. exfalso. apply H. exists l. split; [exact Hp|].
    intros x Hx. cbn [allowed]. apply negb_true_iff. apply Z.eqb_neq. intros ->. contradiction.
Qed.
Lemma reach_none g entry v : reach_av g entry None v <-> reachable g entry v.
Proof. split; [intros (l & Hp & _); now exists l | intros (l & Hp); exists l; split; [exact Hp | reflexivity]]. Qed.
Lemma dominator_reachable g entry d v : dominates g entry d v -> reachable g entry d.
Proof. intros [(l & Hp) H]. destruct (path_prefix g entry l v d Hp (H l Hp)) as (l' & Hp' & _). now exists l'. Qed.

(* ---------------------------------------------------------------- the table and the choice *)
Lemma map_opt_in {A B} (f : A -> option B) : forall l r, map_opt f l = Some r ->
  (forall y, In y r -> exists x, In x l /\ f x = Some y) /\ (forall x, In x l -> exists y, In y r /\ f x = Some y).
Proof.
  induction l as [|a l IH]; intros r H; cbn [map_opt] in H.
  - injection H as <-. split; intros ? [].
  - destruct (f a) as [b|] eqn:Ea; [|discriminate]. destruct (map_opt f l) as [r'|] eqn:El; [|discriminate]. injection H as <-.
    destruct (IH r' eq_refl) as [I1 I2]. split.
    + intros y [<-|Hy]; [exists a; split; [now left | exact Ea]|]. destruct (I1 y Hy) as (x & Hx & E). exists x. split; [now right | exact E].
    + intros x [<-|Hx]; [exists b; split; [now left | exact Ea]|]. destruct (I2 x Hx) as (y & Hy & E). exists y. split; [now right | exact E].
Qed.
Lemma table_find g entry : forall R T, without_table g entry R = Some T -> forall d,
  match find (fun p => fst p =? d) T with
  | Some (d', W) => d' = d /\ In d R /\ reach_set g entry (Some d) = Some W
  | None => ~ In d R
  end.
Proof.
  unfold without_table. induction R as [|a R IH]; intros T H d; cbn [map_opt] in H.
  - injection H as <-. cbn. auto.
  - destruct (reach_set g entry (Some a)) as [W|] eqn:Ea; [|discriminate]. cbn [option_map] in H.
    destruct (map_opt _ R) as [T'|] eqn:ET; [|discriminate]. injection H as <-. cbn [find fst].
    destruct (a =? d) eqn:E.
    + apply Z.eqb_eq in E. subst a. split; [reflexivity|]. split; [now left | exact Ea].
    + specialize (IH T' eq_refl d). destruct (find _ T') as [[d' W']|].
      * destruct IH as (-> & Hin & Hr). split; [reflexivity|]. split; [now right | exact Hr].
      * intros [->|Hin]; [rewrite Z.eqb_refl in E; discriminate | auto].
Qed.

Lemma dom_b_spec g entry R T : reach_set g entry None = Some R -> without_table g entry R = Some T ->
  forall d v, In v R -> (dom_b T d v = true <-> In d R /\ dominates g entry d v).
Proof.
  intros HR HT d v Hv. pose proof (table_find g entry R T HT d) as F. unfold dom_b.
  assert (Rv : reachable g entry v) by (apply reach_none, (reach_set_spec _ _ _ _ HR), Hv).
  destruct (find _ T) as [[d' W]|].
  - destruct F as (-> & Hd & HW). rewrite negb_true_iff. split.
    + intros H. split; [exact Hd|]. apply dominates_by_removal. split; [exact Rv|]. intros X.
      apply (reach_set_spec _ _ _ _ HW) in X. apply memz_spec in X. congruence.
    + intros [_ H]. apply dominates_by_removal in H as [_ H]. destruct (memz v W) eqn:E; [|reflexivity].
      exfalso. apply H. apply (reach_set_spec _ _ _ _ HW). now apply memz_spec.
  - split; [discriminate | intros [Hd _]; contradiction].
Qed.

Theorem spec_idom_sound g entry m : spec_idom g entry = Some m ->
  (forall v, (exists i, In (v, i) m) <-> reachable g entry v) /\
  (forall v, In (v, None) m -> v = entry) /\
  (forall v d, In (v, Some d) m -> v <> entry /\ is_idom g entry d v).
Proof.
  unfold spec_idom. destruct (reach_set g entry None) as [R|] eqn:HR; [|discriminate].
  destruct (without_table g entry R) as [T|] eqn:HT; [|discriminate]. intros Hm.
  destruct (map_opt_in _ _ _ Hm) as [M1 M2].
  assert (InR : forall v, In v R <-> reachable g entry v) by (intros v; rewrite <- reach_none; apply (reach_set_spec _ _ _ _ HR)).
  assert (Row : forall v i, In (v, i) m -> In v R /\ idom_of T R entry v = Some i).
  { intros v i H. destruct (M1 _ H) as (x & Hx & E). destruct (idom_of T R entry x) as [j|] eqn:Ei; [|discriminate].
    cbn in E. injection E as <- <-. auto. }
  split; [|split].
  - intros v. rewrite <- InR. split.
    + intros (i & H). apply (Row v i H).
    + intros Hv. destruct (M2 v Hv) as ([v' i] & Hy & E). destruct (idom_of T R entry v) as [j|]; [|discriminate].
      cbn in E. injection E as <- <-. eauto.
  - intros v H. destruct (Row _ _ H) as [_ E]. unfold idom_of in E. destruct (v =? entry) eqn:Ev; [now apply Z.eqb_eq in Ev|].
    destruct (filter _ (sdoms T R v)) as [|? [|? ?]]; discriminate.
  - intros v d H. destruct (Row _ _ H) as [Hv E]. unfold idom_of in E. destruct (v =? entry) eqn:Ev; [discriminate|].
    apply Z.eqb_neq in Ev. split; [exact Ev|].
    destruct (filter _ (sdoms T R v)) as [|d0 [|? ?]] eqn:Ef; try discriminate. injection E as ->.
    assert (Hd : In d (filter (fun d0 => forallb (fun d' => dom_b T d' d0) (sdoms T R v)) (sdoms T R v))) by (rewrite Ef; now left).
    apply filter_In in Hd as [Hsd Hall]. unfold sdoms in Hsd. apply filter_In in Hsd as [HdR Hdv].
    apply andb_true_iff in Hdv as [Hne Hdom]. apply negb_true_iff, Z.eqb_neq in Hne.
    apply (dom_b_spec g entry R T HR HT d v Hv) in Hdom as [_ Hdom].
    split; [exact Hne|]. split; [exact Hdom|]. intros d' Hne' Hd'.
    assert (Hd'R : In d' R) by (apply InR; eapply dominator_reachable; eauto).
    assert (Hin : In d' (sdoms T R v)).
    { unfold sdoms. apply filter_In. split; [exact Hd'R|]. apply andb_true_iff. split; [apply negb_true_iff; now apply Z.eqb_neq|].
      apply (dom_b_spec g entry R T HR HT d' v Hv). auto. }
    rewrite forallb_forall in Hall. specialize (Hall d' Hin).
    apply (dom_b_spec g entry R T HR HT d' d HdR) in Hall as [_ Hall]. exact Hall.
Qed.
