(* C25 - hand-written model of the logic of merged short-circuit conditions: Condition / ShortCircuitBlock
   (androguard/decompiler/basic_blocks.py: the tree, neg), Writer.visit_short_circuit_condition (the pending negation
   isnot is applied to the first operand when the condition is printed), the four merge cases of
   short_circuit_struct (control_flow.py) and the negate-and-swap step of Writer.visit_cond_node.
   A leaf is a comparison, identified by a number, in its original or its negated form.
   Tied to the source by tools/props/c25.py. *)
From Coq Require Import ZArith List Bool.
Require Import V.Lib.Val V.Lib.Result.
Import ListNotations.
Open Scope Z_scope.

Inductive cond :=
| Leaf (i : Z) (negated : bool)
| SC (c1 c2 : cond) (isand isnot : bool).          (* Condition(cond1, cond2, isand, isnot) *)

(* Condition.neg: flip the operator, negate both operands; isnot is not touched *)
Fixpoint neg (c : cond) : cond :=
  match c with
  | Leaf i n => Leaf i (negb n)
  | SC c1 c2 a n => SC (neg c1) (neg c2) (negb a) n
  end.
(* the truth value of the condition AS PRINTED under an assignment of the original comparisons:
   visit_short_circuit_condition first negates cond1 when isnot is set, then prints (c1) op (c2) *)
Fixpoint eval (env : Z -> bool) (c : cond) : bool :=
  match c with
  | Leaf i n => xorb n (env i)
  | SC c1 c2 a n =>
      let v1 := if n then negb (eval env c1) else eval env c1 in
      if a then v1 && eval env c2 else v1 || eval env c2
  end.
(* the same, following the code literally: the negation is performed on the tree, then the operands are printed *)
Fixpoint eval_lit (fuel : nat) (env : Z -> bool) (c : cond) : bool :=
  match fuel with
  | O => false
  | S f => match c with
           | Leaf i n => xorb n (env i)
           | SC c1 c2 a n => let v1 := eval_lit f env (if n then neg c1 else c1) in
                             if a then v1 && eval_lit f env c2 else v1 || eval_lit f env c2
           end
  end.
Fixpoint size (c : cond) : nat := match c with Leaf _ _ => 1%nat | SC c1 c2 _ _ => S (size c1 + size c2) end.

(* control flow as a tree: an exit label, or a conditional node with its true and false successors *)
Inductive cfg := Exit (l : Z) | Node (c : cond) (t f : cfg).
Fixpoint route (env : Z -> bool) (g : cfg) : Z :=
  match g with Exit l => l | Node c t f => if eval env c then route env t else route env f end.
Fixpoint cond_eqb (a b : cond) : bool :=
  match a, b with
  | Leaf i n, Leaf j m => (i =? j) && Bool.eqb n m
  | SC a1 a2 x y, SC b1 b2 x' y' => cond_eqb a1 b1 && cond_eqb a2 b2 && Bool.eqb x x' && Bool.eqb y y'
  | _, _ => false
  end.
Fixpoint cfg_eqb (a b : cfg) : bool :=
  match a, b with
  | Exit x, Exit y => x =? y
  | Node c t f, Node c' t' f' => cond_eqb c c' && cfg_eqb t t' && cfg_eqb f f'
  | _, _ => false
  end.

(* the four cases of short_circuit_struct at one node *)
Definition merge_step (g : cfg) : option cfg :=
  match g with
  | Node c thn els =>
      match thn with
      | Node ct t1 f1 =>
          if cfg_eqb f1 els then Some (Node (SC c ct true false) t1 els)           (* node && then *)
          else if cfg_eqb t1 els then Some (Node (SC c ct false true) els f1)      (* !node || then *)
          else None
      | Exit _ => None
      end
  | Exit _ => None
  end.
Definition merge_step_else (g : cfg) : option cfg :=
  match g with
  | Node c thn els =>
      match els with
      | Node ce t2 f2 =>
          if cfg_eqb f2 thn then Some (Node (SC c ce true true) t2 thn)            (* !node && else *)
          else if cfg_eqb t2 thn then Some (Node (SC c ce false false) thn f2)     (* node || else *)
          else None
      | Exit _ => None
      end
  | Exit _ => None
  end.
(* Writer.visit_cond_node: cond.neg(); cond.true, cond.false = cond.false, cond.true *)
Definition neg_swap (g : cfg) : cfg := match g with Node c t f => Node (neg c) f t | Exit l => Exit l end.

(* ---- observation: the routing table of a graph over all assignments of n comparisons, plain and after neg_swap of
   every node; the structure after neg *)
Fixpoint envs (n : nat) : list (list bool) :=
  match n with O => [[]] | S k => flat_map (fun e => [false :: e; true :: e]) (envs k) end.
Definition env_of (l : list bool) (i : Z) : bool := if i <? 0 then false else nth (Z.to_nat i) l false.
Fixpoint neg_all (g : cfg) : cfg := match g with Exit l => Exit l | Node c t f => Node (neg c) (neg_all f) (neg_all t) end.
Fixpoint lit_ok (env : Z -> bool) (g : cfg) : bool :=
  match g with Exit _ => true | Node c t f => Bool.eqb (eval_lit (size c) env c) (eval env c) && lit_ok env t && lit_ok env f end.
Fixpoint vcond (c : cond) : val :=
  match c with Leaf i n => VList [VZ i; VB n] | SC c1 c2 a n => VList [vcond c1; vcond c2; VB a; VB n] end.
Fixpoint conds_of (g : cfg) : list cond := match g with Exit _ => [] | Node c t f => c :: conds_of t ++ conds_of f end.
Definition obs_sc (x : Z * cfg) : val :=
  let '(n, g) := x in
  let es := envs (Z.to_nat n) in
  VList [vlistZ (map (fun e => route (env_of e) g) es);
         vlistZ (map (fun e => route (env_of e) (neg_all g)) es);
         VB (forallb (fun e => lit_ok (env_of e) g) es);
         VList (map (fun c => vcond (neg c)) (conds_of g))].
