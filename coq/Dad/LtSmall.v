(* C18 - the model of dom_lt against the proved specification on EVERY graph with up to four nodes (successor lists in
   increasing order without repetition), every node as entry: a finite domain, swept by the kernel. *)
From Coq Require Import ZArith List Bool Lia FinFun.
Require Import V.Lib.Val V.Lib.Result V.Dad.DomModel V.Dad.DomProofs V.Dad.LtModel.
Import ListNotations.
Open Scope Z_scope.

Fixpoint sublists (l : list Z) : list (list Z) :=
  match l with
  | [] => [[]]
  | x :: r => let t := sublists r in t ++ map (cons x) t
  end.
Fixpoint lists_of (n : nat) (choices : list (list Z)) : list (list (list Z)) :=
  match n with
  | O => [[]]
  | S k => flat_map (fun g => map (fun l => l :: g) choices) (lists_of k choices)
  end.
Definition range (n : nat) : list Z := map Z.of_nat (seq 0 n).
Definition graphs (n : nat) : list graph := lists_of n (sublists (range n)).

(* l is a subsequence of r *)
Fixpoint subseq (l r : list Z) : bool :=
  match r with
  | [] => match l with [] => true | _ => false end
  | y :: r' => match l with
               | [] => true
               | x :: l' => if x =? y then subseq l' r' else subseq l r'
               end
  end.
Lemma sublists_complete : forall r l, NoDup r -> subseq l r = true -> In l (sublists r).
Proof.
  induction r as [|y r IH]; intros l ND H.
  - destruct l; [left; reflexivity | discriminate].
  - cbn [sublists]. apply in_or_app. inversion ND as [|? ? Hy ND']; subst. destruct l as [|x l'].
    + left. apply IH; [assumption|]. destruct r; reflexivity.
    + cbn [subseq] in H. destruct (x =? y) eqn:E.
      * apply Z.eqb_eq in E. subst x. right. apply in_map. apply IH; assumption.
      * left. apply IH; assumption.
Qed.
Lemma lists_of_complete : forall n choices g, length g = n -> Forall (fun l => In l choices) g -> In g (lists_of n choices).
Proof.
  induction n as [|k IH]; intros choices g L F.
  - destruct g; [left; reflexivity | discriminate].
  - destruct g as [|l g']; [discriminate|]. inversion F as [|? ? Hl F']; subst. cbn [lists_of]. apply in_flat_map. exists g'.
    split; [apply IH; [cbn in L; lia | assumption]|]. apply in_map_iff. exists l. split; [reflexivity | assumption].
Qed.
Lemma range_nodup n : NoDup (range n).
Proof. unfold range. apply Injective_map_NoDup; [intros a b; apply Nat2Z.inj | apply seq_NoDup]. Qed.

(* the row of the specification *)
Definition row_of (m : list (Z * option Z)) (v : Z) : Z :=
  match find (fun p => fst p =? v) m with
  | Some (_, Some d) => d
  | Some (_, None) => -1
  | None => -2
  end.
Definition spec_row (g : graph) (entry : Z) : option (list Z) :=
  match spec_idom g entry with
  | None => None
  | Some m => Some (map (row_of m) (map Z.of_nat (seq 0 (length g))))
  end.
Lemma obs_idom_row g entry : obs_idom (g, entry) = match spec_row g entry with None => VErr E_OutOfFuel | Some l => vlistZ l end.
Proof. unfold obs_idom, spec_row. destruct (spec_idom g entry); reflexivity. Qed.

Fixpoint zlist_eqb (a b : list Z) : bool :=
  match a, b with
  | [], [] => true
  | x :: a', y :: b' => (x =? y) && zlist_eqb a' b'
  | _, _ => false
  end.
Lemma zlist_eqb_eq : forall a b, zlist_eqb a b = true -> a = b.
Proof.
  induction a as [|x a IH]; intros [|y b] H; try discriminate; [reflexivity|]. cbn [zlist_eqb] in H. apply andb_true_iff in H as [H1 H2].
  apply Z.eqb_eq in H1. subst. f_equal. auto.
Qed.
Definition agree (g : graph) (entry : Z) : bool :=
  match lt_row g entry, spec_row g entry with
  | Some a, Some b => zlist_eqb a b
  | _, _ => false
  end.
Definition sweep (n : nat) : bool := forallb (fun g => forallb (agree g) (range n)) (graphs n).
Lemma sweep1 : sweep 1 = true.  Proof. vm_compute. reflexivity. Qed.
Lemma sweep2 : sweep 2 = true.  Proof. vm_compute. reflexivity. Qed.
Lemma sweep3 : sweep 3 = true.  Proof. vm_compute. reflexivity. Qed.
Lemma sweep4 : sweep 4 = true.  Proof. vm_compute. reflexivity. Qed.

Lemma sweep_sound n g entry : sweep n = true -> length g = n -> Forall (fun l => subseq l (range n) = true) g -> In entry (range n) ->
  exists row, lt_row g entry = Some row /\ spec_row g entry = Some row.
Proof.
  intros S L F E. unfold sweep in S. rewrite forallb_forall in S. assert (G : In g (graphs n)).
  { apply lists_of_complete; [assumption|]. eapply Forall_impl; [|exact F]. intros l Hl. apply sublists_complete; [apply range_nodup | exact Hl]. }
  specialize (S g G). rewrite forallb_forall in S. specialize (S entry E). unfold agree in S.
  destruct (lt_row g entry) as [a|]; [|discriminate]. destruct (spec_row g entry) as [b|]; [|discriminate].
  apply zlist_eqb_eq in S. subst b. exists a. split; reflexivity.
Qed.

(* every graph with one to four nodes whose successor lists are in increasing order without repetition, every node as entry:
   dom_lt as modelled ends and returns the table of the specification *)
Theorem lt_small : forall n g entry, (1 <= n <= 4)%nat -> length g = n -> Forall (fun l => subseq l (range n) = true) g -> In entry (range n) ->
  exists row, lt_row g entry = Some row /\ spec_row g entry = Some row.
Proof.
  intros n g entry Hn. assert (C : n = 1%nat \/ n = 2%nat \/ n = 3%nat \/ n = 4%nat) by lia.
  destruct C as [E|[E|[E|E]]]; subst n; [apply (sweep_sound 1 g entry sweep1) | apply (sweep_sound 2 g entry sweep2) | apply (sweep_sound 3 g entry sweep3) | apply (sweep_sound 4 g entry sweep4)].
Qed.

(* what a row says about the table it was made from *)
Lemma row_of_meaning m v : (row_of m v = -2 /\ forall i, ~ In (v, i) m) \/ (row_of m v = -1 /\ In (v, None) m) \/ In (v, Some (row_of m v)) m.
Proof.
  unfold row_of. destruct (find (fun p => fst p =? v) m) as [[k [d|]]|] eqn:F.
  - right. right. apply find_some in F as [I E]. cbn [fst] in E. apply Z.eqb_eq in E. subst k. exact I.
  - right. left. apply find_some in F as [I E]. cbn [fst] in E. apply Z.eqb_eq in E. subst k. split; [reflexivity | exact I].
  - left. split; [reflexivity|]. intros i I. apply (find_none _ _ F) in I. cbn [fst] in I. rewrite Z.eqb_refl in I. discriminate.
Qed.

(* ... and with the theorem about the specification: on these graphs the modelled dom_lt returns, for every node, the node
   that the definition of the immediate dominator singles out *)
Theorem lt_small_meets_the_definition : forall n g entry, (1 <= n <= 4)%nat -> length g = n -> Forall (fun l => subseq l (range n) = true) g -> In entry (range n) ->
  exists m, lt_row g entry = Some (map (row_of m) (map Z.of_nat (seq 0 (length g)))) /\
    (forall v, (exists i, In (v, i) m) <-> reachable g entry v) /\
    (forall v, In (v, None) m -> v = entry) /\
    (forall v d, In (v, Some d) m -> v <> entry /\ is_idom g entry d v).
Proof.
  intros n g entry Hn L F E. destruct (lt_small n g entry Hn L F E) as (row & A & B). unfold spec_row in B.
  destruct (spec_idom g entry) as [m|] eqn:S; [|discriminate]. injection B as <-. exists m. split; [exact A|]. exact (DomProofs.spec_idom_sound g entry m S).
Qed.
Print Assumptions lt_small_meets_the_definition.

(* the sets pred[w] and bucket[v] iterated in the opposite order (Python's order depends on memory addresses): the same table, on
   the same finite domain *)
Definition agree_rev (g : graph) (entry : Z) : bool :=
  match lt_row_ord (@rev Z) g entry, spec_row g entry with
  | Some a, Some b => zlist_eqb a b
  | _, _ => false
  end.
Definition sweep_rev (n : nat) : bool := forallb (fun g => forallb (agree_rev g) (range n)) (graphs n).
Lemma sweep_rev3 : sweep_rev 3 = true.  Proof. vm_compute. reflexivity. Qed.
Lemma sweep_rev4 : sweep_rev 4 = true.  Proof. vm_compute. reflexivity. Qed.
Theorem lt_small_any_of_two_orders : forall n g entry, (3 <= n <= 4)%nat -> length g = n -> Forall (fun l => subseq l (range n) = true) g -> In entry (range n) ->
  lt_row_ord (@rev Z) g entry = lt_row g entry /\ lt_row g entry <> None.
Proof.
  intros n g entry Hn L F E. assert (Hn' : (1 <= n <= 4)%nat) by lia. destruct (lt_small n g entry Hn' L F E) as (row & A & B).
  assert (S : sweep_rev n = true) by (assert (C : n = 3%nat \/ n = 4%nat) by lia; destruct C as [C|C]; rewrite C; [exact sweep_rev3 | exact sweep_rev4]).
  assert (G : In g (graphs n)).
  { apply lists_of_complete; [assumption|]. eapply Forall_impl; [|exact F]. intros l Hl. apply sublists_complete; [apply range_nodup | exact Hl]. }
  unfold sweep_rev in S. rewrite forallb_forall in S. specialize (S g G). rewrite forallb_forall in S. specialize (S entry E). unfold agree_rev in S.
  rewrite B in S. destruct (lt_row_ord (@rev Z) g entry) as [a|]; [|discriminate]. apply zlist_eqb_eq in S. subst a. rewrite A. split; [reflexivity | discriminate].
Qed.
Print Assumptions lt_small_any_of_two_orders.
