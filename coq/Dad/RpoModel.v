(* C19 - hand-written model of Graph.post_order / Graph.compute_rpo
   (androguard/decompiler/graph.py).  Nodes are natural numbers, the successor function
   all_sucs is a parameter (edges followed by catch edges).  The recursive generator _visit becomes
   recursion on fuel; the visited set and the finishing order are threaded through. *)
From Coq Require Import List Arith Bool ZArith.
Require Import V.Lib.Val.
Import ListNotations.

Definition mem (x : nat) (l : list nat) : bool := if in_dec Nat.eq_dec x l then true else false.

Definition st := (list nat * list nat)%type.        (* visited, finishing order *)

Section DFS.
Variable sucs : nat -> list nat.

Definition step (rec : nat -> st -> option st) (acc : option st) (c : nat) : option st :=
  match acc with
  | None => None
  | Some s' => if mem c (fst s') then Some s' else rec c s'
  end.

(* _visit(n, cnt): visited.add(n); for suc in all_sucs(n): if suc not in visited: _visit(suc);
   then n is finished (n.po = cnt) *)
Fixpoint dfs (fuel : nat) (n : nat) (s : st) : option st :=
  match fuel with
  | O => None
  | S f =>
      match fold_left (step (dfs f)) (sucs n) (Some (n :: fst s, snd s)) with
      | None => None
      | Some (vis, ord) => Some (vis, ord ++ [n])
      end
  end.

Definition post_order (fuel entry : nat) : option (list nat) :=
  option_map snd (dfs fuel entry ([], [])).
End DFS.

Fixpoint index_from (k x : nat) (l : list nat) : option nat :=
  match l with
  | [] => None
  | y :: t => if Nat.eqb x y then Some k else index_from (S k) x t
  end.
(* node.po: 1-based position in the finishing order *)
Definition po (ord : list nat) (x : nat) : option nat := index_from 1 x ord.
(* node.num after compute_rpo: nb - po for the nodes post_order yields, the initial 0 otherwise *)
Definition num (nb : nat) (ord : list nat) (x : nat) : nat :=
  match po ord x with Some p => nb - p | None => 0 end.
(* graph.rpo = sorted(nodes, key=num): a stable sort, so the nodes never reached (num 0) come first
   in their original order, then the finishing order reversed *)
Definition rpo_list (nodes ord : list nat) : list nat :=
  filter (fun x => negb (mem x ord)) nodes ++ rev ord.

(* ---- observation for the correspondence check: graph on nodes 0..n-1 ---- *)
Definition adj_sucs (edges catch : list (list nat)) (x : nat) : list nat :=
  nth x edges [] ++ nth x catch [].
Definition vnat (x : nat) : val := VZ (Z.of_nat x).
Definition obs_rpo (c : nat * nat * list (list nat) * list (list nat)) : val :=
  let '(n, entry, edges, catch) := c in
  let nodes := seq 0 n in
  match post_order (adj_sucs edges catch) (S n) entry with
  | None => VErr E_OutOfFuel
  | Some ord => VList [VList (map (fun x => vnat (num (S n) ord x)) nodes);
                       VList (map vnat (rpo_list nodes ord))]
  end.
