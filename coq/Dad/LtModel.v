(* C18 - dom_lt (androguard/decompiler/graph.py), the Lengauer-Tarjan algorithm as the code runs it: the depth-first numbering
   with its predecessor sets (_dfs), path compression (_compress), _eval, _link, the semidominator pass with its buckets
   (steps 2 and 3) and the final pass (step 4).  Dictionaries are functions from node to value; "no ancestor" (0 in the code,
   tested by truthiness: nodes are objects and always true) is -1 here, because node 0 is a node; the sets pred[w] and bucket[v]
   are lists without repetition in insertion order (Python iterates a set of nodes in an order that depends on memory
   addresses; the result of the algorithm does not depend on it, and the comparison with the code is on the result).
   A graph is the list of successor lists (edges then catch edges: Graph.all_sucs) of the nodes 0..n-1, as in DomModel.v. *)
From Coq Require Import ZArith List Bool.
Require Import V.Lib.Val V.Lib.Result V.Dad.DomModel.
Import ListNotations.
Open Scope Z_scope.

Definition upd {A} (m : Z -> A) (k : Z) (v : A) : Z -> A := fun x => if x =? k then v else m x.
Definition add_set (l : list Z) (x : Z) : list Z := if memz x l then l else l ++ [x].

Record lt := { semi : Z -> Z; vertex : Z -> Z; label : Z -> Z; anc : Z -> Z; parent : Z -> Z; pred : Z -> list Z;
               bucket : Z -> list Z; dom : Z -> Z }.
Definition lt0 : lt := {| semi := fun _ => 0; vertex := fun _ => -1; label := fun _ => -1; anc := fun _ => -1; parent := fun _ => -1;
                          pred := fun _ => []; bucket := fun _ => []; dom := fun _ => -2 |}.
Definition set_semi s k v := {| semi := upd (semi s) k v; vertex := vertex s; label := label s; anc := anc s; parent := parent s; pred := pred s; bucket := bucket s; dom := dom s |}.
Definition set_vertex s k v := {| semi := semi s; vertex := upd (vertex s) k v; label := label s; anc := anc s; parent := parent s; pred := pred s; bucket := bucket s; dom := dom s |}.
Definition set_label s k v := {| semi := semi s; vertex := vertex s; label := upd (label s) k v; anc := anc s; parent := parent s; pred := pred s; bucket := bucket s; dom := dom s |}.
Definition set_anc s k v := {| semi := semi s; vertex := vertex s; label := label s; anc := upd (anc s) k v; parent := parent s; pred := pred s; bucket := bucket s; dom := dom s |}.
Definition set_parent s k v := {| semi := semi s; vertex := vertex s; label := label s; anc := anc s; parent := upd (parent s) k v; pred := pred s; bucket := bucket s; dom := dom s |}.
Definition set_pred s k v := {| semi := semi s; vertex := vertex s; label := label s; anc := anc s; parent := parent s; pred := upd (pred s) k v; bucket := bucket s; dom := dom s |}.
Definition set_bucket s k v := {| semi := semi s; vertex := vertex s; label := label s; anc := anc s; parent := parent s; pred := pred s; bucket := upd (bucket s) k v; dom := dom s |}.
Definition set_dom s k v := {| semi := semi s; vertex := vertex s; label := label s; anc := anc s; parent := parent s; pred := pred s; bucket := bucket s; dom := upd (dom s) k v |}.

(* _dfs(v, n) *)
Fixpoint dfs (fuel : nat) (g : graph) (v n : Z) (s : lt) : option (Z * lt) :=
  match fuel with
  | O => None
  | S f =>
      let n1 := n + 1 in
      let s1 := set_anc (set_label (set_vertex (set_semi s v n1) n1 v) v v) v (-1) in
      (fix loop (ws : list Z) (n : Z) (s : lt) : option (Z * lt) :=
         match ws with
         | [] => Some (n, s)
         | w :: r =>
             if semi s w =? 0 then
               match dfs f g w n (set_parent s w v) with
               | None => None
               | Some (n', s') => loop r n' (set_pred s' w (add_set (pred s' w) v))
               end
             else loop r n (set_pred s w (add_set (pred s w) v))
         end) (sucs g v) n1 s1
  end.

(* _compress(v) *)
Fixpoint compress (fuel : nat) (s : lt) (v : Z) : option lt :=
  match fuel with
  | O => None
  | S f =>
      let u := anc s v in
      if anc s u =? -1 then Some s else
      match compress f s u with
      | None => None
      | Some s1 =>
          let s2 := if semi s1 (label s1 u) <? semi s1 (label s1 v) then set_label s1 v (label s1 u) else s1 in
          Some (set_anc s2 v (anc s2 u))
      end
  end.
(* _eval(v) *)
Definition eval (fuel : nat) (s : lt) (v : Z) : option (Z * lt) :=
  if anc s v =? -1 then Some (v, s) else
  match compress fuel s v with None => None | Some s1 => Some (label s1 v, s1) end.

(* step 2: for v in pred[w]: u = _eval(v); y = semi[w] = min(semi[w], semi[u]) *)
Fixpoint step2 (fuel : nat) (s : lt) (w : Z) (vs : list Z) : option lt :=
  match vs with
  | [] => Some s
  | v :: r =>
      match eval fuel s v with
      | None => None
      | Some (u, s1) => step2 fuel (set_semi s1 w (Z.min (semi s1 w) (semi s1 u))) w r
      end
  end.
(* step 3: while bpw: v = bpw.pop(); u = _eval(v); dom[v] = u if semi[u] < semi[v] else pw *)
Fixpoint step3 (fuel : nat) (s : lt) (pw : Z) (vs : list Z) : option lt :=
  match vs with
  | [] => Some s
  | v :: r =>
      match eval fuel s v with
      | None => None
      | Some (u, s1) => step3 fuel (set_dom s1 v (if semi s1 u <? semi s1 v then u else pw)) pw r
      end
  end.
(* the body of "for i in range(n, 1, -1)" *)
(* ord: the order in which a set is iterated (pred[w], and the pops of the bucket) *)
Definition pass (ord : list Z -> list Z) (fuel : nat) (s : lt) (i : Z) : option lt :=
  let w := vertex s i in
  match step2 fuel s w (ord (pred s w)) with
  | None => None
  | Some s1 =>
      let y := semi s1 w in
      let s2 := set_bucket s1 (vertex s1 y) (add_set (bucket s1 (vertex s1 y)) w) in
      let pw := parent s2 w in
      let s3 := set_anc s2 w pw in
      match step3 fuel s3 pw (ord (bucket s3 pw)) with
      | None => None
      | Some s4 => Some (set_bucket s4 pw [])
      end
  end.
Fixpoint passes (ord : list Z -> list Z) (fuel : nat) (s : lt) (is : list Z) : option lt :=
  match is with
  | [] => Some s
  | i :: r => match pass ord fuel s i with None => None | Some s1 => passes ord fuel s1 r end
  end.
(* step 4 *)
Definition step4 (s : lt) (i : Z) : lt :=
  let w := vertex s i in
  let dw := dom s w in
  if dw =? vertex s (semi s w) then s else set_dom s w (dom s dw).
(* i = 2 .. n *)
Definition upto (n : Z) : list Z := map (fun k => Z.of_nat k) (seq 2 (Z.to_nat n - 1)).

Definition dom_lt_ord (ord : list Z -> list Z) (g : graph) (entry : Z) : option (Z * lt) :=
  let fuel := S (length g) in
  match dfs fuel g entry 0 lt0 with
  | None => None
  | Some (n, s) =>
      match passes ord fuel s (rev (upto n)) with
      | None => None
      | Some s1 => Some (n, set_dom (fold_left step4 (upto n) s1) entry (-1))
      end
  end.

Definition dom_lt := dom_lt_ord (fun l => l).

(* the dictionary dom_lt returns: (node, immediate dominator) for the numbered nodes in the order of their numbers *)
Definition lt_table (g : graph) (entry : Z) : option (list (Z * option Z)) :=
  match dom_lt g entry with
  | None => None
  | Some (n, s) => Some (map (fun i => let v := vertex s i in (v, if dom s v =? -1 then None else Some (dom s v))) (map Z.of_nat (seq 1 (Z.to_nat n))))
  end.

(* for node 0..n-1 the immediate dominator, -1 for the entry, -2 for an unreachable node (as obs_idom) *)
Definition lt_row_ord (ord : list Z -> list Z) (g : graph) (entry : Z) : option (list Z) :=
  match dom_lt_ord ord g entry with
  | None => None
  | Some (_, s) => Some (map (fun v => dom s v) (map Z.of_nat (seq 0 (length g))))
  end.
Definition lt_row := lt_row_ord (fun l => l).
Definition obs_lt (x : graph * Z) : val :=
  match lt_row (fst x) (snd x) with None => VErr E_OutOfFuel | Some l => vlistZ l end.
(* both: what the specification says and what the algorithm computes *)
Definition obs_both (x : graph * Z) : val := VList [obs_idom x; obs_lt x].

Example lt_example : obs_lt ([[1; 2]; [2; 1]; [1; 3]; [3]; [0]], 0) = vlistZ [-1; 0; 0; 2; -2].
Proof. vm_compute. reflexivity. Qed.
