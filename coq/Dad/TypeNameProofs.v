(* C24 - proofs about the type-name models. *)
From Coq Require Import ZArith List Bool Lia.
Require Import V.Lib.Val V.Lib.Result V.Dad.TypeNameModel.
Import ListNotations.
Open Scope Z_scope.

Lemma zl_eqb_eq a b : zl_eqb a b = true <-> a = b.
Proof. unfold zl_eqb. destruct (list_eq_dec Z.eq_dec a b); split; intros; auto; discriminate. Qed.

Definition no47 (s : list Z) : Prop := ~ In 47 s.
Lemma has_slash_false s : has_slash s = false <-> no47 s.
Proof.
  unfold has_slash, no47. split.
  - intros H Hin. assert (existsb (Z.eqb 47) s = true) by (apply existsb_exists; exists 47; split; [exact Hin | apply Z.eqb_refl]). congruence.
  - intros H. destruct (existsb (Z.eqb 47) s) eqn:E; [|reflexivity].
    apply existsb_exists in E. destruct E as (x & Hx & E). apply Z.eqb_eq in E. subst. contradiction.
Qed.
Lemma seg_ok_spec s : seg_ok s = true <-> no47 s /\ s <> [].
Proof.
  unfold seg_ok. rewrite andb_true_iff, negb_true_iff, has_slash_false. destruct s; split; intros [A B]; split; auto; try discriminate; congruence.
Qed.

Lemma segs_no47 segs : forallb seg_ok segs = true -> Forall no47 segs.
Proof.
  intros Hok. apply Forall_forall. intros s Hs. rewrite forallb_forall in Hok.
  specialize (Hok _ Hs). apply seg_ok_spec in Hok. tauto.
Qed.

(* ---- joining with a separator that does not occur in the pieces is injective ---- *)
Lemma app_sep_inj : forall a b r r', no47 a -> no47 b -> a ++ 47 :: r = b ++ 47 :: r' -> a = b /\ r = r'.
Proof.
  induction a as [|x a IH]; intros [|y b] r r' Ha Hb E; simpl in E.
  - injection E as E. auto.
  - injection E as E1 E2. exfalso. apply Hb. left. congruence.
  - injection E as E1 E2. exfalso. apply Ha. left. exact E1.
  - injection E as E1 E2. subst y.
    destruct (IH b r r') as [-> ->]; auto; intros Hin; [apply Ha | apply Hb]; right; exact Hin.
Qed.
Lemma app_sep_neq : forall a b r, no47 a -> a <> b ++ 47 :: r.
Proof. intros a b r Ha E. apply Ha. rewrite E. apply in_or_app. right. left. reflexivity. Qed.

Lemma join_cons sep a b t : join sep (a :: b :: t) = a ++ sep :: join sep (b :: t).
Proof. reflexivity. Qed.

Lemma join_inj : forall l1 l2, l1 <> [] -> l2 <> [] -> Forall no47 l1 -> Forall no47 l2 ->
  join 47 l1 = join 47 l2 -> l1 = l2.
Proof.
  induction l1 as [|a l1 IH]; intros l2 N1 N2 F1 F2 E; [congruence|].
  destruct l2 as [|b l2]; [congruence|]. inversion F1 as [|? ? Ha F1']; subst. inversion F2 as [|? ? Hb F2']; subst.
  destruct l1 as [|a' l1]; destruct l2 as [|b' l2].
  - simpl in E. subst. reflexivity.
  - rewrite join_cons in E. simpl in E. exfalso. exact (app_sep_neq _ _ _ Ha E).
  - rewrite join_cons in E. simpl in E. exfalso. symmetry in E. exact (app_sep_neq _ _ _ Hb E).
  - rewrite !join_cons in E. destruct (app_sep_inj _ _ _ _ Ha Hb E) as [-> E'].
    f_equal. apply IH; auto; discriminate.
Qed.

Lemma replace_slash_no47 s : no47 s -> replace_slash s = s.
Proof.
  induction s as [|c s IH]; intros H; [reflexivity|]. simpl.
  destruct (Z.eqb_spec c 47) as [->|_]; [exfalso; apply H; left; reflexivity|].
  f_equal. apply IH. intros Hin. apply H. right. exact Hin.
Qed.
Lemma replace_slash_app a b : replace_slash (a ++ b) = replace_slash a ++ replace_slash b.
Proof. apply map_app. Qed.
Lemma replace_slash_join : forall l, Forall no47 l -> replace_slash (join 47 l) = join 46 l.
Proof.
  induction l as [|a l IH]; intros F; [reflexivity|]. inversion F as [|? ? Ha F']; subst.
  destruct l as [|b l]; [apply replace_slash_no47; exact Ha|].
  rewrite !join_cons, replace_slash_app, replace_slash_no47 by exact Ha.
  cbn [replace_slash map]. change (47 =? 47) with true. cbv iota. f_equal. f_equal. apply IH. exact F'.
Qed.

Lemma starts_with_app p s : starts_with p (p ++ s) = true.
Proof. induction p as [|a p IH]; [reflexivity|]. simpl. rewrite Z.eqb_refl. exact IH. Qed.
Lemma starts_with_split : forall p s, starts_with p s = true -> s = p ++ skipn (length p) s.
Proof.
  induction p as [|a p IH]; intros s H; [reflexivity|]. destruct s as [|b s]; [discriminate|].
  simpl in H. apply andb_true_iff in H. destruct H as [E H]. apply Z.eqb_eq in E. subst.
  simpl. f_equal. apply IH. exact H.
Qed.

Lemma removelast_snoc (l : list Z) x : removelast (l ++ [x]) = l.
Proof. apply removelast_last. Qed.

(* ---- the class branch of util.get_type ---- *)
Definition strip_jl (res : list Z) : list Z :=
  if starts_with JAVA_LANG_SLASH res && negb (has_slash (skipn 10 res)) then skipn 10 res else res.

Lemma no47_java : no47 S_java. Proof. unfold no47, S_java. simpl. lia. Qed.
Lemma no47_lang : no47 S_lang. Proof. unfold no47, S_lang. simpl. lia. Qed.

Lemma strip_jl_spec segs : forallb seg_ok segs = true -> segs <> [] ->
  replace_slash (strip_jl (join 47 segs)) = short_name (Cls segs).
Proof.
  intros Hok Hne.
  pose proof (segs_no47 segs Hok) as F.
  unfold strip_jl.
  destruct (starts_with JAVA_LANG_SLASH (join 47 segs) && negb (has_slash (skipn 10 (join 47 segs)))) eqn:C.
  - apply andb_true_iff in C. destruct C as [C1 C2]. apply negb_true_iff, has_slash_false in C2.
    apply starts_with_split in C1. change (length JAVA_LANG_SLASH) with 10%nat in C1.
    set (x := skipn 10 (join 47 segs)) in *.
    assert (E : join 47 segs = join 47 [S_java; S_lang; x]) by (rewrite C1 at 1; reflexivity).
    apply join_inj in E; auto; [|discriminate | repeat constructor; [exact no47_java | exact no47_lang | exact C2]].
    rewrite E. cbn [short_name]. change (zl_eqb S_java S_java && zl_eqb S_lang S_lang) with true. cbv iota.
    apply replace_slash_no47. exact C2.
  - rewrite replace_slash_join by exact F.
    destruct segs as [|a [|l [|x [|y segs]]]]; try reflexivity.
    cbn [short_name]. destruct (zl_eqb a S_java && zl_eqb l S_lang) eqn:D; [|reflexivity].
    exfalso. apply andb_true_iff in D. destruct D as [D1 D2]. apply zl_eqb_eq in D1. apply zl_eqb_eq in D2. subst.
    inversion F as [|? ? _ F1]; subst. inversion F1 as [|? ? _ F2]; subst. inversion F2 as [|? ? Hx _]; subst.
    change (join 47 [S_java; S_lang; x]) with (JAVA_LANG_SLASH ++ x) in C.
    rewrite starts_with_app in C. change (skipn 10 (JAVA_LANG_SLASH ++ x)) with x in C.
    apply has_slash_false in Hx. rewrite Hx in C. discriminate.
Qed.

Lemma type_desc_long c d t : type_desc (c :: d :: t) = None.
Proof. reflexivity. Qed.

Lemma join_nonempty segs : forallb seg_ok segs = true -> segs <> [] -> join 47 segs <> [].
Proof.
  intros Hok Hne. destruct segs as [|a t]; [congruence|]. cbn [forallb] in Hok. apply andb_true_iff in Hok.
  destruct Hok as [Ha _]. apply seg_ok_spec in Ha. destruct Ha as [_ Ha].
  destruct t; cbn [join]; [exact Ha|]. destruct a; [congruence|discriminate].
Qed.

Lemma get_type_u_base b : base_ok b = true -> get_type_u (base_desc b) = Ok (short_name b).
Proof.
  destruct b as [c|segs]; cbn [base_ok base_desc].
  - intros H. cbn [get_type_u type_desc short_name full_name]. destruct (prim_name c); [reflexivity|discriminate].
  - intros H. apply andb_true_iff in H. destruct H as [Hok Hne].
    assert (Hne' : segs <> []) by (destruct segs; [discriminate|discriminate]).
    pose proof (join_nonempty segs Hok Hne') as Hj.
    destruct (join 47 segs) as [|j0 js] eqn:Ej; [congruence|].
    cbn [get_type_u app]. rewrite type_desc_long. change (76 =? 76) with true. cbv iota.
    change (j0 :: js ++ [59]) with ((j0 :: js) ++ [59]). rewrite removelast_snoc. rewrite <- Ej.
    fold (strip_jl (join 47 segs)). rewrite strip_jl_spec by assumption. reflexivity.
Qed.

Lemma base_desc_not_bracket b : base_ok b = true -> exists c t, base_desc b = c :: t /\ c <> 91.
Proof.
  destruct b as [c|segs]; cbn [base_ok base_desc]; intros H.
  - exists c, []. split; [reflexivity|]. intros ->. discriminate.
  - eexists _, _. split; [reflexivity|]. discriminate.
Qed.

Lemma type_desc_bracket t : type_desc (91 :: t) = None.
Proof. destruct t; reflexivity. Qed.

Theorem get_type_u_spec : forall dims b, base_ok b = true ->
  get_type_u (desc dims b) = Ok (short_name b ++ brackets dims).
Proof.
  induction dims as [|d IH]; intros b H; unfold desc in *; cbn [repeat app brackets].
  - rewrite app_nil_r. apply get_type_u_base. exact H.
  - cbn [get_type_u]. rewrite type_desc_bracket. change (91 =? 76) with false. change (91 =? 91) with true.
    cbv iota. rewrite IH by exact H. rewrite app_assoc. reflexivity.
Qed.

(* ---- dex.get_type: descriptors never start with a character of 'java.lang' ---- *)
Lemma desc_head dims b : base_ok b = true ->
  exists c t, desc dims b = c :: t /\ (c = 91 \/ c = 76 \/ prim_name c <> None).
Proof.
  intros H. destruct dims as [|d]; unfold desc; cbn [repeat app].
  - destruct b as [c|segs]; cbn [base_desc base_ok] in *.
    + exists c, []. split; [reflexivity|]. right. right. destruct (prim_name c); [discriminate|discriminate].
    + eexists _, _. split; [reflexivity|]. auto.
  - eexists _, _. split; [reflexivity|]. auto.
Qed.
Lemma prim_not_strip c : prim_name c <> None -> in_strip_set c = false /\ c <> 106.
Proof.
  unfold prim_name. intros H.
  repeat match type of H with context [?x =? ?y] => destruct (Z.eqb_spec x y); [subst; split; [reflexivity|lia]|] end.
  contradiction.
Qed.
Lemma head_plain c t : (c = 91 \/ c = 76 \/ prim_name c <> None) ->
  starts_with JAVA_LANG (c :: t) = false /\ lstrip_set (c :: t) = c :: t.
Proof.
  intros H. assert (S : in_strip_set c = false /\ c <> 106).
  { destruct H as [->|[->|H]]; [split; [reflexivity|lia] | split; [reflexivity|lia] | apply prim_not_strip; exact H]. }
  destruct S as [S1 S2]. split.
  - cbn [starts_with JAVA_LANG]. destruct (Z.eqb_spec 106 c); [congruence|reflexivity].
  - cbn [lstrip_set]. rewrite S1. reflexivity.
Qed.

Lemma get_type_d_base f b : base_ok b = true -> get_type_d (S f) (base_desc b) = Ok (full_name b).
Proof.
  intros H. destruct b as [p|segs]; cbn [base_ok base_desc] in *.
  - assert (Hp : prim_name p <> None) by (destruct (prim_name p); [discriminate|discriminate]).
    cbn [get_type_d]. destruct (head_plain p [] (or_intror (or_intror Hp))) as [-> ->].
    cbn [type_desc full_name]. destruct (prim_name p); [reflexivity|congruence].
  - apply andb_true_iff in H. destruct H as [Hok Hne].
    assert (Hne' : segs <> []) by (destruct segs; discriminate).
    pose proof (join_nonempty segs Hok Hne') as Hj.
    destruct (join 47 segs) as [|j0 js] eqn:Ej; [congruence|].
    cbn [get_type_d]. destruct (head_plain 76 ((j0 :: js) ++ [59]) (or_intror (or_introl eq_refl))) as [-> ->].
    cbn [app]. rewrite type_desc_long. change (76 =? 76) with true. cbv iota.
    change (j0 :: js ++ [59]) with ((j0 :: js) ++ [59]). rewrite removelast_snoc. rewrite <- Ej.
    cbn [full_name]. f_equal. apply replace_slash_join. apply segs_no47. exact Hok.
Qed.

Theorem get_type_d_spec : forall dims f b, base_ok b = true -> (dims < f)%nat ->
  get_type_d f (desc dims b) = Ok (full_name b ++ brackets dims).
Proof.
  induction dims as [|d IH]; intros f b H Hf; (destruct f as [|f]; [lia|]).
  - unfold desc. cbn [repeat app brackets]. rewrite app_nil_r. apply get_type_d_base. exact H.
  - change (desc (S d) b) with (91 :: desc d b).
    cbn [get_type_d]. destruct (head_plain 91 (desc d b) (or_introl eq_refl)) as [-> ->].
    rewrite type_desc_bracket. change (91 =? 76) with false. change (91 =? 91) with true. cbv iota.
    rewrite IH by (auto; lia). cbn [brackets]. rewrite app_assoc. reflexivity.
Qed.

(* the short name differs from the full name exactly for direct members of java.lang *)
Lemma short_name_cases b :
  (exists x, b = Cls [S_java; S_lang; x] /\ short_name b = x) \/ short_name b = full_name b.
Proof.
  destruct b as [c|segs]; [right; reflexivity|].
  destruct segs as [|a [|l [|x [|y segs]]]]; try (right; reflexivity).
  cbn [short_name]. destruct (zl_eqb a S_java && zl_eqb l S_lang) eqn:D; [|right; reflexivity].
  apply andb_true_iff in D. destruct D as [D1 D2]. apply zl_eqb_eq in D1. apply zl_eqb_eq in D2. subst.
  left. exists x. split; reflexivity.
Qed.
