(* C18 - what Graph.immediate_dominators (dom_lt, androguard/decompiler/graph.py) is specified to return, as an
   executable function: for every node reachable from the entry, the strict dominator that all other strict dominators
   dominate; the entry has none; unreachable nodes have no entry.  Dominance is decided by removal: d dominates v iff v
   is reachable and is not reachable once d is taken out.  The Lengauer-Tarjan algorithm itself is not modelled: the
   correspondence check compares its output with this function.
   A graph is the list of successor lists (edges then catch edges) of the nodes 0..n-1. *)
From Coq Require Import ZArith List Bool.
Require Import V.Lib.Val V.Lib.Result.
Import ListNotations.
Open Scope Z_scope.

Definition graph := list (list Z).
Definition sucs (g : graph) (v : Z) : list Z := if v <? 0 then [] else nth (Z.to_nat v) g [].
Definition memz (x : Z) (l : list Z) : bool := existsb (Z.eqb x) l.
Definition allowed (d : option Z) (v : Z) : bool := match d with Some x => negb (v =? x) | None => true end.

(* the nodes reachable from the entry without entering d: grow the set until nothing is added *)
Fixpoint add_new (d : option Z) (cands : list Z) (W : list Z) : list Z :=
  match cands with
  | [] => W
  | v :: r => if allowed d v && negb (memz v W) then add_new d r (W ++ [v]) else add_new d r W
  end.
Definition grow (g : graph) (d : option Z) (W : list Z) : list Z := add_new d (flat_map (sucs g) W) W.
Fixpoint closure (fuel : nat) (g : graph) (d : option Z) (W : list Z) : option (list Z) :=
  match fuel with
  | O => None
  | S f => let W' := grow g d W in if (length W' =? length W)%nat then Some W else closure f g d W'
  end.
Definition reach_set (g : graph) (entry : Z) (d : option Z) : option (list Z) :=
  if allowed d entry then closure (S (length g)) g d [entry] else Some [].

(* the reachable set R and, for every d in R, what stays reachable without d *)
Fixpoint map_opt {A B} (f : A -> option B) (l : list A) : option (list B) :=
  match l with [] => Some [] | x :: r => match f x, map_opt f r with Some y, Some ys => Some (y :: ys) | _, _ => None end end.
Definition without_table (g : graph) (entry : Z) (R : list Z) : option (list (Z * list Z)) :=
  map_opt (fun d => option_map (fun W => (d, W)) (reach_set g entry (Some d))) R.
(* d dominates v (both reachable): v is not reachable without d *)
Definition dom_b (T : list (Z * list Z)) (d v : Z) : bool :=
  match find (fun p => fst p =? d) T with Some (_, W) => negb (memz v W) | None => false end.
Definition sdoms (T : list (Z * list Z)) (R : list Z) (v : Z) : list Z := filter (fun d => negb (d =? v) && dom_b T d v) R.
(* the strict dominator that every strict dominator dominates *)
Definition idom_of (T : list (Z * list Z)) (R : list Z) (entry v : Z) : option (option Z) :=
  if v =? entry then Some None else
  let sd := sdoms T R v in
  match filter (fun d => forallb (fun d' => dom_b T d' d) sd) sd with
  | [d] => Some (Some d)
  | _ => None
  end.
(* (node, immediate dominator) for the reachable nodes, in discovery order *)
Definition spec_idom (g : graph) (entry : Z) : option (list (Z * option Z)) :=
  match reach_set g entry None with
  | None => None
  | Some R =>
      match without_table g entry R with
      | None => None
      | Some T => map_opt (fun v => option_map (fun i => (v, i)) (idom_of T R entry v)) R
      end
  end.

(* observation: for node 0..n-1, the immediate dominator, -1 for the entry, -2 for an unreachable node *)
Definition obs_idom (x : graph * Z) : val :=
  let '(g, entry) := x in
  match spec_idom g entry with
  | None => VErr E_OutOfFuel
  | Some m =>
      vlistZ (map (fun v => match find (fun p => fst p =? v) m with
                            | Some (_, Some d) => d
                            | Some (_, None) => -1
                            | None => -2
                            end) (map Z.of_nat (seq 0 (length g))))
  end.
