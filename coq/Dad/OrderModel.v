(* C22 - hand-written models of the places where the decompiler's result could depend on the order in which a Python set
   hands out its elements.  A walk over a set is modelled as a walk over a list `order` that holds the elements of the set
   in SOME order: the theorems of OrderProofs.v say that the result is the same for every such list.
   Nodes, variables and instructions are numbers; `num` is the reverse post order number of a node.
   Tied to the source by tools/props/c22.py (stream `sites`) and by the inventory of tools/tr/setsites_tr.py. *)
From Coq Require Import ZArith List Bool.
Require Import V.Lib.Val.
Import ListNotations.
Open Scope Z_scope.

(* the classes of the inventory (coq/gen/Gen_SetSites.v) *)
Inductive site_class := IntElements | PerElement | Membership | FollowScan | CommonDominator | DominatorTree | Unknown.
Definition known (c : site_class) : bool := match c with Unknown => false | _ => true end.

Definition mem (l : list Z) (x : Z) : bool := existsb (Z.eqb x) l.

(* ---------------------------------------------------------------- `for x in S: <touch x only>` *)
Fixpoint lookup (k : Z) (st : list (Z * Z)) : option Z :=
  match st with [] => None | (a, v) :: r => if a =? k then Some v else lookup k r end.
(* one pass of the loop body for element x: g x (old value of x) = the value written, or None when nothing is written *)
Definition each (g : Z -> option Z -> option Z) (order : list Z) (st : list (Z * Z)) : list (Z * Z) :=
  fold_left (fun s x => match g x (lookup x s) with Some v => (x, v) :: s | None => s end) order st.

(* ---------------------------------------------------------------- Interval.compute_end *)
(* the last node of `walk` that lies in the interval and has a successor outside of it; the head when there is none.
   After the repair `walk` is graph.rpo; before it was the set itself. *)
Definition leaves (content : list Z) (sucs : Z -> list Z) (n : Z) : bool :=
  mem content n && existsb (fun s => negb (mem content s)) (sucs n).
Definition compute_end (walk content : list Z) (sucs : Z -> list Z) (head : Z) : Z :=
  match fold_left (fun acc n => if leaves content sucs n then Some n else acc) walk None with Some e => e | None => head end.

(* ---------------------------------------------------------------- BasicBlock.add_variable_declaration *)
Definition add_decl (l : list Z) (v : Z) : list Z := if mem l v then l else l ++ [v].
Definition decls (registered : list Z) : list Z := fold_left add_decl registered [].
(* the specification: first occurrences, in order *)
Fixpoint firsts (l : list Z) : list Z :=
  match l with [] => [] | v :: r => v :: filter (fun y => negb (y =? v)) (firsts r) end.

(* ---------------------------------------------------------------- short_circuit_struct.MergeNodes *)
(* predecessors (or successors) of the two merged nodes, in graph order, once each, without the two nodes themselves *)
Definition collect (l1 l2 : list Z) (n1 n2 : Z) : list Z :=
  filter (fun p => negb ((p =? n1) || (p =? n2))) (fold_left add_decl (l1 ++ l2) []).

(* ---------------------------------------------------------------- loop_follow, the scan for endless loops *)
Record cnode := { c_cond : bool; c_true : Z; c_false : Z }.
Definition lt_inf (x : Z) (o : option Z) : bool := match o with None => true | Some y => x <? y end.
Definition follow_step (info : Z -> cnode) (num : Z -> Z) (loop : list Z) (st : option Z * option Z) (n : Z) : option Z * option Z :=
  let c := info n in
  if c_cond c then
    if lt_inf (num (c_true c)) (snd st) && negb (mem loop (c_true c)) then (Some (c_true c), Some (num (c_true c)))
    else if lt_inf (num (c_false c)) (snd st) && negb (mem loop (c_false c)) then (Some (c_false c), Some (num (c_false c)))
    else st
  else st.
Definition follow_scan (info : Z -> cnode) (num : Z -> Z) (loop order : list Z) : option Z :=
  fst (fold_left (follow_step info num loop) order (None, None)).
(* the whole function: pre-test, post-test, endless *)
Definition loop_follow (info : Z -> cnode) (num : Z -> Z) (pretest posttest : bool) (start latch : Z) (order : list Z) : option Z :=
  if pretest then (if mem order (c_true (info start)) then Some (c_false (info start)) else Some (c_true (info start)))
  else if posttest then (if mem order (c_true (info latch)) then Some (c_false (info latch)) else Some (c_true (info latch)))
  else follow_scan info num order order.

(* ---------------------------------------------------------------- max(l, key=num): the first element with the largest key *)
Definition max_by (num : Z -> Z) (l : list Z) : option Z :=
  fold_left (fun acc x => match acc with None => Some x | Some m => if num m <? num x then Some x else Some m end) l None.

(* ---------------------------------------------------------------- util.common_dom and its use in place_declarations *)
(* `while cur is not pred: while cur.num < pred.num: pred = idom[pred]; while cur.num > pred.num: cur = idom[cur]`,
   one step of either inner loop per unit of fuel; two different nodes with the same number make the real loop spin
   forever and the model return None *)
Fixpoint common_dom (fuel : nat) (up num : Z -> Z) (cur pred : Z) : option Z :=
  match fuel with
  | O => None
  | S f => if cur =? pred then Some cur
           else if num cur <? num pred then common_dom f up num cur (up pred)
           else if num pred <? num cur then common_dom f up num (up cur) pred
           else None
  end.
(* common_dominator = def_nodes.pop(); for def_node in def_nodes: common_dominator = common_dom(idom, common_dominator, def_node) *)
Definition common_dom_all (fuel : nat) (up num : Z -> Z) (order : list Z) : option Z :=
  match order with
  | [] => None
  | first :: rest => fold_left (fun acc x => match acc with Some c => common_dom fuel up num c x | None => None end) rest (Some first)
  end.

(* ---------------------------------------------------------------- observations for the correspondence check *)
Definition table (t : list (Z * list Z)) (k : Z) : list Z := match find (fun p => fst p =? k) t with Some p => snd p | None => [] end.
Definition ztable (t : list (Z * Z)) (d : Z) (k : Z) : Z := match lookup k t with Some v => v | None => d end.
Definition ctable (t : list (Z * (bool * (Z * Z)))) (k : Z) : cnode :=
  match find (fun p => fst p =? k) t with
  | Some (_, (c, (a, b))) => {| c_cond := c; c_true := a; c_false := b |}
  | None => {| c_cond := false; c_true := -1; c_false := -1 |}
  end.
Definition vopt (o : option Z) : val := match o with Some x => VZ x | None => VNone end.
Definition obs_compute_end (x : (list Z * list Z) * (list (Z * list Z) * Z)) : val :=
  let '((walk, content), (sucs, head)) := x in VZ (compute_end walk content (table sucs) head).
Definition obs_decls (x : list Z) : val := VList (map VZ (decls x)).
Definition obs_collect (x : (list Z * list Z) * (Z * Z)) : val :=
  let '((l1, l2), (n1, n2)) := x in VList (map VZ (collect l1 l2 n1 n2)).
Definition obs_loop_follow (x : (list (Z * (bool * (Z * Z))) * list (Z * Z)) * ((bool * bool) * ((Z * Z) * list Z))) : val :=
  let '((info, num), ((pre, post), ((start, latch), order))) := x in
  vopt (loop_follow (ctable info) (ztable num 0) pre post start latch order).
Definition obs_common_dom (x : (list (Z * Z) * list (Z * Z)) * list Z) : val :=
  let '((up, num), order) := x in
  vopt (common_dom_all (Z.to_nat (2 * Z.of_nat (length num) + 2)) (ztable up (-1)) (ztable num 0) order).
