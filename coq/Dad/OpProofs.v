(* C21 - every entry of the operator table generated from opcode_ins.py prints a Java expression that computes what the
   Dalvik instruction computes, for all operand values (division by zero included) *)
From Coq Require Import ZArith List Bool Lia.
Require Import V.Lib.Val V.Lib.Result V.Dad.OpSemantics V.gen.Gen_OpTable.
Import ListNotations.
Open Scope Z_scope.

Definition entry_ok (p : Z * entry) : Prop := forall a b, java_of (snd p) a b = dalvik (fst p) a b.
Lemma flip_ok a b : (if b <? 0 then java_bin [45] TI a (- b) else java_bin [43] TI a b) = Ok (wrap TI (a + b)).
Proof. destruct (b <? 0); cbn; [now rewrite Z.sub_opp_r | reflexivity]. Qed.
Ltac entry :=
  intros a b; cbn [snd fst java_of];
  first [ reflexivity
        | (rewrite flip_ok; reflexivity) ].
Theorem op_table_correct : Forall entry_ok op_table.
Proof. unfold op_table. repeat (apply Forall_cons; [unfold entry_ok; entry|]). apply Forall_nil. Qed.

(* the table covers the arithmetic instructions: every opcode of the ranges has an entry, once *)
Definition arith_opcodes : list Z :=
  [123; 124; 125; 126; 129; 132; 141; 142; 143] ++ map (fun k => 144 + Z.of_nat k) (seq 0 22) ++ map (fun k => 176 + Z.of_nat k) (seq 0 22) ++
  map (fun k => 208 + Z.of_nat k) (seq 0 19).
Theorem op_table_covers : map fst op_table = arith_opcodes.
Proof. vm_compute. reflexivity. Qed.
