(* C21 - every entry of the operator table generated from opcode_ins.py prints a Java expression that computes what the
   Dalvik instruction computes, for all operand values (division by zero included) *)
From Coq Require Import ZArith List Bool Lia.
Require Import V.Lib.Val V.Lib.Result V.Dad.OpSemantics V.gen.Gen_OpTable V.gen.Gen_CondTable.
Import ListNotations.
Open Scope Z_scope.

Definition entry_ok (p : Z * entry) : Prop := forall a b, java_of (snd p) a b = dalvik (fst p) a b.
Lemma flip_ok a b : (if b <? 0 then java_bin [45] TI a (- b) else java_bin [43] TI a b) = Ok (wrap TI (a + b)).
Proof. destruct (b <? 0); cbn; [now rewrite Z.sub_opp_r | reflexivity]. Qed.
Ltac entry :=
  intros a b; cbn [snd fst java_of];
  first [ reflexivity
        | (rewrite flip_ok; reflexivity) ].
Theorem op_table_correct : Forall entry_ok op_table.
Proof. unfold op_table. repeat (apply Forall_cons; [unfold entry_ok; entry|]). apply Forall_nil. Qed.

(* the table covers the arithmetic instructions: every opcode of the ranges has an entry, once *)
Definition arith_opcodes : list Z :=
  [123; 124; 125; 126; 129; 132; 141; 142; 143] ++ map (fun k => 144 + Z.of_nat k) (seq 0 22) ++ map (fun k => 176 + Z.of_nat k) (seq 0 22) ++
  map (fun k => 208 + Z.of_nat k) (seq 0 19).
Theorem op_table_covers : map fst op_table = arith_opcodes.
Proof. vm_compute. reflexivity. Qed.

(* ---------------------------------------------------------------- conditional branches *)
Definition centry_ok (p : Z * centry) : Prop := forall a b, java_cond (snd p) a b = dalvik_branch (fst p) a b.
Theorem cond_table_correct : Forall centry_ok cond_table.
Proof. unfold cond_table. repeat (apply Forall_cons; [unfold centry_ok; intros a b; reflexivity|]). apply Forall_nil. Qed.
Theorem cond_table_covers : map fst cond_table = map (fun k => 50 + Z.of_nat k) (seq 0 12).
Proof. vm_compute. reflexivity. Qed.
(* CONDS: every operator is mapped to the one with the complementary truth value, for all operands *)
Definition complement_ok (p : list Z * list Z) : Prop :=
  forall a b, match java_cmp (fst p) a b, java_cmp (snd p) a b with Ok x, Ok y => y = negb x | _, _ => False end.
Theorem conds_are_complements : Forall complement_ok conds.
Proof.
  unfold conds. repeat (apply Forall_cons; [unfold complement_ok; intros a b; cbn [fst snd java_cmp str_eqb list_eqb Z.eqb Pos.eqb andb];
    try reflexivity; try (now rewrite negb_involutive); try (rewrite Z.leb_antisym; reflexivity); try (rewrite Z.ltb_antisym; reflexivity);
    try (rewrite Z.leb_antisym, negb_involutive; reflexivity); try (rewrite Z.ltb_antisym, negb_involutive; reflexivity)|]). apply Forall_nil.
Qed.
(* ... and every operator a branch is printed with has its complement in the table, so Condition.neg never fails *)
Theorem conds_cover_the_branch_operators :
  forallb (fun p => existsb (fun q => str_eqb (fst q) (match snd p with Cond op | CondZ op => op end)) conds) cond_table = true.
Proof. vm_compute. reflexivity. Qed.
