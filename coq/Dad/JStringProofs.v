(* C23 - proofs: per-token sweeps over every BMP code point through both lexer phases, a
   prefix-run lemma for each phase, the surrogate arithmetic for supplementary characters, and
   induction over the string. *)
From Coq Require Import ZArith List Bool Lia.
Require Import V.Lib.Sweep V.Lib.Bits V.Dad.JavaLex V.Dad.JStringModel.
Import ListNotations.
Open Scope Z_scope.
Ltac Zify.zify_post_hook ::= Z.to_euclidean_division_equations.

Definition cp (c : Z) : Prop := 0 <= c < 1114112.
Definition bmp (c : Z) : Prop := 0 <= c < 65536.

Definition zl_eqb (a b : list Z) : bool := if list_eq_dec Z.eq_dec a b then true else false.
Lemma zl_eqb_eq a b : zl_eqb a b = true -> a = b.
Proof. unfold zl_eqb. destruct (list_eq_dec Z.eq_dec a b); [auto|discriminate]. Qed.

(* ---- running a phase over a prefix ---- *)
Fixpoint ue_pre (st : ust) (l : list Z) : option (list Z * ust) :=
  match l with
  | [] => Some ([], st)
  | c :: r => match ustep st c with
              | Some (o, st') => match ue_pre st' r with Some (t, s) => Some (o ++ t, s) | None => None end
              | None => None
              end
  end.
Lemma ue_pre_app : forall l st out st' k, ue_pre st l = Some (out, st') ->
  ue st (l ++ k) = option_map (app out) (ue st' k).
Proof.
  induction l as [|c r IH]; intros st out st' k H; simpl in *.
  - inversion H; subst. destruct (ue st' k); reflexivity.
  - destruct (ustep st c) as [[o s1]|]; [|discriminate].
    destruct (ue_pre s1 r) as [[t s2]|] eqn:E; [|discriminate]. inversion H; subst.
    rewrite (IH _ _ _ k E). destruct (ue st' k); simpl; rewrite ?app_assoc; reflexivity.
Qed.
Lemma ue_pre_cat : forall l1 l2 st o1 s1 o2 s2, ue_pre st l1 = Some (o1, s1) -> ue_pre s1 l2 = Some (o2, s2) ->
  ue_pre st (l1 ++ l2) = Some (o1 ++ o2, s2).
Proof.
  induction l1 as [|c r IH]; intros l2 st o1 s1 o2 s2 H1 H2; simpl in *.
  - inversion H1; subst. exact H2.
  - destruct (ustep st c) as [[o s']|]; [|discriminate].
    destruct (ue_pre s' r) as [[t s'']|] eqn:E; [|discriminate]. inversion H1; subst.
    rewrite (IH _ _ _ _ _ _ E H2). rewrite app_assoc. reflexivity.
Qed.
Fixpoint lit_pre (st : lst) (l : list Z) : option (list Z * lst) :=
  match l with
  | [] => Some ([], st)
  | c :: r => match lstep st c with
              | Some (o, st') => match lit_pre st' r with Some (t, s) => Some (o ++ t, s) | None => None end
              | None => None
              end
  end.
Lemma lit_pre_app : forall l st out st' k, lit_pre st l = Some (out, st') ->
  lit st (l ++ k) = option_map (app out) (lit st' k).
Proof.
  induction l as [|c r IH]; intros st out st' k H; simpl in *.
  - inversion H; subst. destruct (lit st' k); reflexivity.
  - destruct (lstep st c) as [[o s1]|]; [|discriminate].
    destruct (lit_pre s1 r) as [[t s2]|] eqn:E; [|discriminate]. inversion H; subst.
    rewrite (IH _ _ _ k E). destruct (lit st' k); simpl; rewrite ?app_assoc; reflexivity.
Qed.

(* ---- what phase 1 leaves of one token ---- *)
Definition tok1 (c : Z) : list Z :=
  if (32 <=? c) && (c <? 127) then if (c =? 39) || (c =? 34) || (c =? 92) then [92; c] else [c]
  else if c =? 13 then [92; 114] else if c =? 10 then [92; 110] else if c =? 9 then [92; 116]
  else units c.

Definition pre1_is (l out : list Z) : bool :=
  match ue_pre (UNorm true) l with Some (o, UNorm true) => zl_eqb o out | _ => false end.
Lemma pre1_is_spec l out : pre1_is l out = true -> ue_pre (UNorm true) l = Some (out, UNorm true).
Proof.
  unfold pre1_is. destruct (ue_pre (UNorm true) l) as [[o [[|]| | |]]|]; try discriminate.
  intros H. apply zl_eqb_eq in H. subst. reflexivity.
Qed.

(* \uXXXX written by uesc is read back as the unit, for every 16-bit unit *)
Lemma uesc_all : all16 (fun u => pre1_is (uesc u) [u]) = true.
Proof. vm_compute. reflexivity. Qed.
Lemma uesc_pre u : bmp u -> ue_pre (UNorm true) (uesc u) = Some ([u], UNorm true).
Proof. intros H. apply pre1_is_spec. exact (all16_spec _ uesc_all u H). Qed.

Lemma tok_phase1_all : all16 (fun c => pre1_is (tok c) (tok1 c)) = true.
Proof. vm_compute. reflexivity. Qed.

(* ---- supplementary characters: the two units are the UTF-16 surrogates ---- *)
Lemma units_supp c : 65536 <= c < 1114112 -> units c = utf16 c.
Proof.
  intros H. unfold units, utf16.
  destruct (Z.ltb_spec 65535 c) as [_|]; [|lia]. destruct (Z.ltb_spec c 65536) as [|_]; [lia|].
  change 1023 with (Z.ones 10). rewrite Z.land_ones by lia. shrc 10 1024.
  change 55296 with (54 * 2 ^ 10). change 56320 with (55 * 2 ^ 10).
  rewrite (Z.lor_comm (54 * 2 ^ 10)), (Z.lor_comm (55 * 2 ^ 10)).
  rewrite !lor_mul_add by (change (2 ^ 10) with 1024; lia).
  change (2 ^ 10) with 1024. f_equal; [lia | f_equal; lia].
Qed.
Lemma units_bmp c : bmp c -> units c = [c] /\ utf16 c = [c].
Proof.
  intros H. unfold units, utf16, bmp in *.
  destruct (Z.ltb_spec 65535 c); [lia|]. destruct (Z.ltb_spec c 65536); [|lia]. split; reflexivity.
Qed.
Lemma surrogates c : 65536 <= c < 1114112 ->
  exists hi lo, utf16 c = [hi; lo] /\ 55296 <= hi < 56320 /\ 56320 <= lo < 57344.
Proof.
  intros H. unfold utf16. destruct (Z.ltb_spec c 65536); [lia|].
  eexists _, _. split; [reflexivity|]. lia.
Qed.

Lemma tok_supp c : 65536 <= c < 1114112 -> tok c = flat_map uesc (units c) /\ tok1 c = units c.
Proof.
  intros H. unfold tok, tok1.
  destruct (Z.leb_spec 32 c); [|lia]. destruct (Z.ltb_spec c 127); [lia|]. cbn [andb].
  destruct (Z.leb_spec c 127); [lia|]. cbn [andb].
  destruct (Z.eqb_spec c 13); [lia|]. destruct (Z.eqb_spec c 10); [lia|]. destruct (Z.eqb_spec c 9); [lia|].
  split; reflexivity.
Qed.

Lemma tok_phase1 c k : cp c ->
  ue (UNorm true) (tok c ++ k) = option_map (app (tok1 c)) (ue (UNorm true) k).
Proof.
  intros Hc. apply ue_pre_app. destruct (Z.ltb_spec c 65536) as [Hb|Hs].
  - apply pre1_is_spec. apply (all16_spec _ tok_phase1_all). unfold cp in Hc. lia.
  - assert (R : 65536 <= c < 1114112) by (unfold cp in Hc; lia).
    destruct (tok_supp c R) as [-> ->]. rewrite (units_supp c R).
    destruct (surrogates c R) as (hi & lo & -> & Hh & Hl). cbn [flat_map]. rewrite app_nil_r.
    apply (ue_pre_cat _ _ _ [hi] (UNorm true) [lo]); apply uesc_pre; unfold bmp; lia.
Qed.

(* ---- phase 2 on what phase 1 left ---- *)
Definition pre2_is (l out : list Z) : bool :=
  match lit_pre LBody l with Some (o, LBody) => zl_eqb o out | _ => false end.
Lemma pre2_is_spec l out : pre2_is l out = true -> lit_pre LBody l = Some (out, LBody).
Proof.
  unfold pre2_is. destruct (lit_pre LBody l) as [[o []]|]; try discriminate.
  intros H. apply zl_eqb_eq in H. subst. reflexivity.
Qed.
Lemma tok_phase2_all : all16 (fun c => pre2_is (tok1 c) [c]) = true.
Proof. vm_compute. reflexivity. Qed.
Lemma lbody_plain u : 128 <= u -> lbody u = Some ([u], LBody).
Proof.
  intros H. unfold lbody.
  destruct (Z.eqb_spec u 34); [lia|]. destruct (Z.eqb_spec u 92); [lia|].
  destruct (Z.eqb_spec u 10); [lia|]. destruct (Z.eqb_spec u 13); [lia|]. reflexivity.
Qed.
Lemma tok_phase2 c k : cp c -> lit LBody (tok1 c ++ k) = option_map (app (utf16 c)) (lit LBody k).
Proof.
  intros Hc. apply lit_pre_app. destruct (Z.ltb_spec c 65536) as [Hb|Hs].
  - assert (B : bmp c) by (unfold cp, bmp in *; lia). destruct (units_bmp c B) as [_ ->].
    apply pre2_is_spec. exact (all16_spec _ tok_phase2_all c B).
  - assert (R : 65536 <= c < 1114112) by (unfold cp in Hc; lia).
    destruct (tok_supp c R) as [_ ->]. rewrite (units_supp c R).
    destruct (surrogates c R) as (hi & lo & -> & Hh & Hl).
    cbn [lit_pre lstep]. rewrite !lbody_plain by lia. reflexivity.
Qed.

(* ---- whole strings ---- *)
Lemma phase1_body s k : Forall cp s ->
  ue (UNorm true) (flat_map tok s ++ k) = option_map (app (flat_map tok1 s)) (ue (UNorm true) k).
Proof.
  induction 1 as [|c s Hc Hs IH]; simpl.
  - destruct (ue (UNorm true) k); reflexivity.
  - rewrite <- app_assoc, tok_phase1 by assumption. rewrite IH.
    destruct (ue (UNorm true) k); simpl; [rewrite app_assoc|]; reflexivity.
Qed.
Lemma phase2_body s k : Forall cp s ->
  lit LBody (flat_map tok1 s ++ k) = option_map (app (to_utf16 s)) (lit LBody k).
Proof.
  induction 1 as [|c s Hc Hs IH]; simpl.
  - destruct (lit LBody k); reflexivity.
  - rewrite <- app_assoc, tok_phase2 by assumption. rewrite IH.
    destruct (lit LBody k); simpl; [rewrite app_assoc|]; reflexivity.
Qed.
Theorem jstring_denotes : forall s, Forall cp s -> java_lex (jstring s) = Some (to_utf16 s).
Proof.
  intros s Hs. unfold java_lex, jstring.
  change (34 :: flat_map tok s ++ [34]) with ([34] ++ (flat_map tok s ++ [34])).
  cbn [app ue ustep]. change (34 =? 92) with false. cbv iota.
  rewrite phase1_body by assumption. cbn. rewrite phase2_body by assumption. cbn.
  rewrite app_nil_r. reflexivity.
Qed.

(* the literal is pure printable ASCII, so the source file's encoding cannot alter it *)
Definition ascii_printable (c : Z) : bool := (32 <=? c) && (c <? 127).
Lemma hexd_ascii n : 0 <= n < 16 -> ascii_printable (hexd n) = true.
Proof. intros H. unfold ascii_printable, hexd. destruct (Z.ltb_spec n 10); lia. Qed.
Lemma tok_ascii_bmp : all16 (fun c => forallb ascii_printable (tok c)) = true.
Proof. vm_compute. reflexivity. Qed.
Lemma uesc_ascii_all : all16 (fun u => forallb ascii_printable (uesc u)) = true.
Proof. vm_compute. reflexivity. Qed.
Lemma tok_ascii c : cp c -> forallb ascii_printable (tok c) = true.
Proof.
  intros Hc. destruct (Z.ltb_spec c 65536) as [Hb|Hs].
  - apply (all16_spec _ tok_ascii_bmp). unfold cp in Hc. lia.
  - assert (R : 65536 <= c < 1114112) by (unfold cp in Hc; lia).
    destruct (tok_supp c R) as [-> _]. rewrite (units_supp c R).
    destruct (surrogates c R) as (hi & lo & -> & Hh & Hl). cbn [flat_map]. rewrite app_nil_r.
    rewrite forallb_app. rewrite !(all16_spec _ uesc_ascii_all) by lia. reflexivity.
Qed.
Theorem jstring_ascii : forall s, Forall cp s -> forallb ascii_printable (jstring s) = true.
Proof.
  intros s Hs. unfold jstring. cbn [forallb]. rewrite forallb_app. cbn.
  rewrite andb_true_r. induction Hs as [|c s Hc Hs IH]; [reflexivity|].
  cbn [flat_map]. rewrite forallb_app, tok_ascii, IH by assumption. reflexivity.
Qed.

Lemma supp_units : forall c, 65536 <= c < 1114112 ->
  exists hi lo, to_utf16 [c] = [hi; lo] /\ 55296 <= hi < 56320 /\ 56320 <= lo < 57344 /\
                c = 65536 + (hi - 55296) * 1024 + (lo - 56320).
Proof.
  intros c H. unfold to_utf16. cbn [flat_map]. rewrite app_nil_r. unfold utf16.
  destruct (Z.ltb_spec c 65536); [lia|]. eexists _, _. split; [reflexivity|]. lia.
Qed.
